#!/bin/sh
# usage: tools_seed_check.sh <seed id> <property>...   -- runs ./check against a scratch copy of /repo with the seeded change
ID=$1; shift
S=/tmp/seedrepo_$ID
rm -rf $S && mkdir -p $S && (cd /repo && git archive HEAD | tar -x -C $S) && (cd $S && patch -s -p1 < /verif/seeded/$ID/patch.diff) || { echo "cannot prepare $ID"; exit 2; }
mkdir -p /tmp/seedout_$ID
for P in "$@"; do
  VERIF_REPO=$S VERIF_OUT_DIR=/tmp/seedout_$ID /verif/check $P > /tmp/seedout_$ID/$P.log 2>&1; R=$?
  echo "$ID $P exit=$R $(grep -c VIOLATION /tmp/seedout_$ID/$P.log) violation-lines; $(grep -E '^C[0-9]+:' /tmp/seedout_$ID/$P.log | cut -c1-160)"
done
rm -rf $S
