#!/bin/sh
# usage: tools_verify_seed.sh <worktree> <mutation dir name e.g. m1> <seed id e.g. C01-m1>
# confirms: tests pass with the change, demo fails with it, demo passes without; then stores it in /verif/seeded/<id>/
WT=$1; M=$2; ID=$3
D=$WT/MUTATION/$M
cd $WT || exit 2
git checkout -q -- . 
git apply --check $D/patch.diff || { echo "patch does not apply"; exit 2; }
if ls $D/demo.py >/dev/null 2>&1; then DEMO="/venv/bin/python MUTATION/$M/demo.py"; else DEMO="sh MUTATION/$M/demo.sh $WT"; fi
PYTHONPATH=$WT $DEMO >/tmp/seed_demo0.log 2>&1; R0=$?
git apply $D/patch.diff
T=$(PYTHONPATH=$WT /venv/bin/python -m pytest -q -p no:cacheprovider 2>&1 | tail -1)
PYTHONPATH=$WT $DEMO >/tmp/seed_demo1.log 2>&1; R1=$?
git checkout -q -- .
echo "$ID: demo_without=$R0 demo_with=$R1 tests_with: $T"
case "$T" in *"819 passed"*) TP=1;; *) TP=0;; esac
if [ $R0 -eq 0 ] && [ $R1 -ne 0 ] && [ $TP -eq 1 ]; then
  mkdir -p /verif/seeded/$ID && cp $D/patch.diff $D/notes.md /verif/seeded/$ID/ && cp $D/demo.* /verif/seeded/$ID/
  tail -5 /tmp/seed_demo1.log > /verif/seeded/$ID/demo_output_with_change.txt
  echo CONFIRMED
else echo REJECTED; fi
