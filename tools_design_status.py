#!/usr/bin/env python3
"""rewrites the table of DESIGN.md section 12.21 ("where things stand") from the evidence files"""
import json, glob, re
rows, tot_o, tot_d = [], 0, 0
for f in sorted(glob.glob('/verif/evidence/C*.json')):
    e = json.load(open(f)); c = e['coverage']
    fu = c.get('functions_under_contract')
    nfu = len(fu) if isinstance(fu, list) else fu
    refuted = len(c.get('refuted', []))
    rows.append('| %s | %s | %s | %d | %d | %d | %s | %d |' % (e['property_id'], e['level'], nfu, c['obligations'], c['discharged'], refuted,
                                                             c.get('bounded_cases', 0), round(e['wall_s'])))
    tot_o += c['obligations']; tot_d += c['discharged']
s = open('/verif/DESIGN.md').read()
a = s.index('### 12.21 Where things stand')
b = s.index('### 12.22 ')
sec = s[a:b]
lines = sec.split('\n')
out, in_table = [], False
for ln in lines:
    if ln.startswith('| C') and re.match(r'\| C\d\d \|', ln):
        if not in_table:
            out.extend(rows); in_table = True
        continue
    out.append(ln)
sec = '\n'.join(out)
sec = re.sub(r'\d+ of \d+ obligations discharged', '%d of %d obligations discharged' % (tot_d, tot_o), sec)
open('/verif/DESIGN.md', 'w').write(s[:a] + sec + s[b:])
print(tot_d, tot_o, e['tier'])
