#!/usr/bin/env python3
"""rewrites DESIGN.md section 12.25 (functions under contract, per property) from the evidence files"""
import json, glob
lines = ['### 12.25 Functions under contract, per property (generated from the evidence files by tools_design_inventory.py)', '',
         'Python functions by `module:qualname` (a `[...]` suffix is a variant of the same function verified under a different',
         'input shape); C++ functions and the effect-check-only functions of C16 / C20 by count (the evidence files list them all).', '']
for f in sorted(glob.glob('/verif/evidence/C*.json')):
    e = json.load(open(f)); fu = e['coverage'].get('functions_under_contract') or []
    names = [x if isinstance(x, str) else x.get('function', str(x)) for x in fu]
    backs = {}
    for x in fu:
        k = x.get('function') if isinstance(x, dict) else x
        if not (isinstance(x, dict) and x.get('wall_s') == 0.0 and x.get('paths') == 1):
            backs[k] = x
        else:
            backs.setdefault(k, x)
    names = list(dict.fromkeys(names))
    cx = [n for n in names if n.startswith('c++ ')]
    py = [n for n in names if not n.startswith('c++ ')]
    eff = [n for n in py if isinstance(backs.get(n), dict) and backs[n].get('wall_s') == 0.0 and backs[n].get('paths') == 1] if len(py) > 60 else []
    if len(py) > 60 and not eff:
        eff = None
    if eff:
        py = [n for n in py if n not in eff]
    if eff is None:
        head = '%d Python functions (effect clauses E1–E4 on every function of prophyc; z3-discharged contracts on the file processor, ' \
               'include handling and generators: see `contracts/__init__.py`)' % len(py)
    else:
        head = ', '.join('`%s`' % n for n in py) if py else '—'
    lines.append('* **%s** — %s%s%s' % (e['property_id'], head, ('; plus the effect clauses E1–E4 on %d functions and module bodies of prophyc' % (len(eff) + len(py))) if eff else '',
                                        ('; plus %d C++ functions / instantiations' % len(cx)) if cx else ''))
lines.append('')
s = open('/verif/DESIGN.md').read()
block = '\n'.join(lines)
if '### 12.25 ' in s:
    a = s.index('### 12.25 ')
    rest = s[a + 10:]
    b = rest.find('\n### ')
    s = s[:a] + block + (rest[b + 1:] if b >= 0 else '')
else:
    s = s.rstrip('\n') + '\n\n' + block
open('/verif/DESIGN.md', 'w').write(s)
