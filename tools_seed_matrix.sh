#!/bin/sh
# runs every confirmed seeded change against the check of the property it breaks; writes seeded/MATRIX.json
# with seed ids as arguments: only those are (re)run, the other rows are kept
cd /verif
ONLY="$*" python3 - <<'PY'
import json, os, subprocess, glob
rows=[]
only=os.environ.get('ONLY','').split()
old={r['seed']: r for r in json.load(open('/verif/seeded/MATRIX.json'))} if only else {}
known=json.load(open('/verif/known_findings.json'))['findings']
def isk(p, n):
    for k in known:
        if k['property']!=p: continue
        ms=k['match'] if isinstance(k['match'],list) else [k['match']]
        if any(m in n for m in ms): return True
    return False
for d in sorted(glob.glob('/verif/seeded/C*-m*')):
    sid=os.path.basename(d)
    if only and sid not in only and sid in old:
        rows.append(old[sid]); continue
    meta=json.load(open(d+'/meta.json'))
    if meta.get('status')=='superseded' or meta.get('superseded'):
        rows.append({'seed':sid,'property':meta['breaks_property'],'status':'superseded'}); continue
    p=meta['breaks_property']
    out=subprocess.run(['/verif/tools_seed_check.sh', sid, p], stdout=subprocess.PIPE, stderr=subprocess.STDOUT).stdout.decode()
    ev='/tmp/seedout_%s/evidence/%s.json'%(sid,p)
    row={'seed':sid,'property':p,'files':meta.get('files_changed'),'line':out.strip()[:300]}
    try:
        e=json.load(open(ev))
        refuted=[r for r in e['coverage']['refuted'] if not isk(p,r)]
        row['exit']=1 if 'exit=1' in out else (0 if 'exit=0' in out else 3)
        row['contract_refutations']=refuted[:5]
        row['n_contract_refutations']=len(refuted)
        row['undecided']=len(e['coverage'].get('undecided',[]))+len(e['coverage'].get('out_of_reach',[]))
        row['standin_failures']=sum(b.get('failures',0) for b in e['coverage'].get('bounded',[]))
    except Exception as ex:
        row['error']=repr(ex)
    rows.append(row)
    print(sid, row.get('exit'), row.get('n_contract_refutations'), row.get('standin_failures'), flush=True)
json.dump(rows, open('/verif/seeded/MATRIX.json','w'), indent=1)
PY
