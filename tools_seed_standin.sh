#!/bin/sh
# usage: tools_seed_standin.sh <seed id> <standin> <prop> [tier]  -- run one bounded stand-in directly against a scratch copy with the seeded change
ID=$1; SI=$2; P=$3; TIER=${4:-quick}
S=/tmp/seedrepo_$ID
rm -rf $S && mkdir -p $S && (cd /repo && git archive HEAD | tar -x -C $S) && (cd $S && patch -s -p1 < /verif/seeded/$ID/patch.diff) || { echo "cannot prepare $ID"; rm -rf $S; exit 2; }
cd /verif && VERIF_REPO=$S /venv/bin/python -m standins.run $SI --prop $P --seed 1 --tier $TIER | python3 -c "
import json,sys
from collections import Counter
r=json.load(sys.stdin)
print('$ID $P cases', r['cases'], 'failures', dict(Counter(f['key'] for f in r['failures'])))
for f in r['failures'][:2]: print('   ', f['key'], f['schema'].splitlines()[-1][:120], f['value'][:80], f['what'][:300].replace(chr(10),' '))
"
rm -rf $S
