"""
vf/cli.py -- `./check <ID> [--tier quick|thorough] [--replay file]`

Per property: (1) PyVC/CxxVC: generate obligations from /repo's current working tree for every
function under contract that serves the property and discharge them; (2) run the property's
bounded stand-ins (labelled bounded, counted apart); (3) verdict + evidence.

Exit 0 held / 1 VIOLATION (replayed input or refuted obligation) / 3 engine failure.
UNDECIDED obligations (unknown, timeout, out of subset) are reported and handed to the stand-in.
"""
import argparse
import importlib
import json
import multiprocessing
import os
import subprocess
import sys
import time
import traceback

ROOT = os.path.dirname(os.path.dirname(os.path.abspath(__file__)))
if ROOT not in sys.path:
    sys.path.insert(0, ROOT)

OUT = os.environ.get('VERIF_OUT_DIR', ROOT)   # evidence/ and replays/ go here (seed runs redirect it)
VENV_PY = os.environ.get('VERIF_VENV_PY', '/venv/bin/python')


def _verify_one(args):
    modname, cname, timeout_ms = args
    try:
        from vf import contract as C
        importlib.import_module(modname)
        for c in C.Contract.registry:
            if c.name == cname:
                r = C.verify_function(c, timeout_ms)
                return r.to_json()
        return {'contract': cname, 'status': 'error', 'reason': 'contract not found', 'obligations': [], 'props': []}
    except Exception:
        return {'contract': cname, 'status': 'error', 'reason': traceback.format_exc()[-1500:], 'obligations': [],
                'props': []}


def list_contracts(modules):
    from vf import contract as C
    out = []
    for m in modules:
        before = len(C.Contract.registry)
        importlib.import_module(m)
        for c in C.Contract.registry[before:]:
            out.append((m, c.name, list(c.props)))
    return out


def run_contracts(prop, modules, timeout_ms, jobs):
    todo = [(m, n, timeout_ms) for m, n, props in list_contracts(modules) if prop in props]
    if not todo:
        return []
    ctx = multiprocessing.get_context('fork')
    with ctx.Pool(min(jobs, len(todo))) as pool:
        return pool.map(_verify_one, todo, chunksize=1)


def run_standin(prop, name, seed, tier, timeout):
    cmd = [VENV_PY, '-m', 'standins.run', name, '--prop', prop, '--seed', str(seed), '--tier', tier]
    env = dict(os.environ, PYTHONPATH=ROOT, PYTHONHASHSEED='0')
    t0 = time.time()
    try:
        p = subprocess.run(cmd, cwd=ROOT, env=env, capture_output=True, text=True, timeout=timeout)
    except subprocess.TimeoutExpired:
        return {'name': name, 'status': 'timeout', 'cases': 0, 'failures': [], 'wall': time.time() - t0}
    line = [l for l in p.stdout.splitlines() if l.startswith('{')]
    if p.returncode != 0 or not line:
        return {'name': name, 'status': 'crash', 'cases': 0, 'failures': [], 'stderr': (p.stderr or p.stdout)[-2000:],
                'wall': time.time() - t0}
    r = json.loads(line[-1])
    r['name'], r['status'], r['wall'] = name, 'ok', time.time() - t0
    return r


def load_known():
    p = os.path.join(ROOT, 'known_findings.json')
    if not os.path.exists(p):
        return {'findings': [], 'fixed': []}
    with open(p) as f:
        return json.load(f)


def main(argv=None):
    ap = argparse.ArgumentParser()
    ap.add_argument('prop')
    ap.add_argument('--tier', default=os.environ.get('VERIF_TIER', 'quick'))
    ap.add_argument('--replay')
    ap.add_argument('--jobs', type=int, default=int(os.environ.get('VERIF_JOBS', '16')))
    a = ap.parse_args(argv)
    seed = int(os.environ.get('VERIF_SEED', '0'))
    tier = a.tier if a.tier in ('quick', 'thorough') else 'quick'
    t0 = time.time()
    from contracts import PROPS
    if a.prop not in PROPS:
        print('unknown or unclaimed property %s' % a.prop)
        return 3
    cfg = PROPS[a.prop]
    if a.replay:
        return replay(a.prop, a.replay)
    # budgets are sized well above the measured times (<= 5 s unloaded) so verdicts do not flip under load
    timeout_ms = 60000 if tier == 'quick' else 180000
    results = run_contracts(a.prop, cfg.get('modules', []), timeout_ms, a.jobs)
    os.environ['VERIF_TIER'] = tier
    os.environ['VERIF_JOBS'] = str(a.jobs)
    for spec in cfg.get('static', []):
        # static contract checkers (effect / frame contracts decided on the AST, e.g. vf.effects for C20; CxxVC on the
        # C++ headers and generated C++, vf.cxx_check)
        modname, fname = spec.split(':')
        try:
            results.extend(getattr(importlib.import_module(modname), fname)(os.environ.get('VERIF_REPO', '/repo')))
        except Exception:
            results.append({'contract': spec, 'status': 'error', 'reason': traceback.format_exc()[-1500:], 'obligations': [], 'props': []})
    known = load_known()
    kf = [k for k in known.get('findings', []) if k['property'] == a.prop]

    obligations, discharged, by_backend, solver_time = 0, 0, {}, 0.0
    refuted, undecided, out_of_reach, errors, functions = [], [], [], [], []
    samples, vacuity = [], {'covers_sat': 0, 'covers_other': []}
    soft_errors = []
    for r in results:
        if r['status'] == 'error':
            # a contract whose binding to the code broke (a renamed local that an invariant mentions, a call shape a hook
            # does not expect, a function that moved): the obligations of that function are *undecided*, the bounded
            # stand-in decides.  Only when nothing at all could be checked is the run an engine failure (exit 3).
            soft_errors.append({'contract': r['contract'], 'reason': r['reason']})
            out_of_reach.append({'function': r['contract'], 'reason': 'contract binding failed: ' + r['reason'][-300:].replace('\n', ' ')})
            continue
        if r['status'] == 'out_of_reach':
            out_of_reach.append({'function': r['contract'], 'reason': r['reason']})
            for o in r.get('obligations', []):
                if o.get('verdict') == 'refuted':       # met on a feasible path prefix before the code left the subset
                    obligations += 1
                    refuted.append(o)
            continue
        functions.append({'function': r['contract'], 'file': r['file'], 'line': r['line'], 'sha256': r['sha256'],
                          'obligations': len(r['obligations']), 'paths': r['paths'], 'wall_s': round(r['wall'], 2)})
        solver_time += r['solver_time']
        for label, v in r['covers'].items():
            if v.startswith('sat'):
                vacuity['covers_sat'] += 1
            else:
                vacuity['covers_other'].append('%s:%s=%s' % (r['contract'], label, v))
        if not r['obligations']:
            errors.append({'contract': r['contract'], 'reason': 'zero obligations generated'})
        for o in r['obligations']:
            obligations += 1
            if o['verdict'] == 'proved':
                discharged += 1
                by_backend[o['backend']] = by_backend.get(o['backend'], 0) + 1
                if len(samples) < 6 and o['kind'] in ('post', 'inv'):
                    samples.append({'obligation': o['name'], 'verdict': 'proved', 'backend': o['backend'],
                                    'time_s': o['time_s']})
            elif o['verdict'] == 'refuted':
                refuted.append(o)
            else:
                undecided.append(o)

    # bounded stand-ins (never counted as obligations)
    bounded = []
    standin_fail = []
    for name in cfg.get('standins', []):
        sr = run_standin(a.prop, name, seed, tier, 1500 if tier == 'quick' else 7200)
        bounded.append({'standin': name, 'status': sr['status'], 'domain': sr.get('domain'), 'bound': sr.get('bound'),
                        'cases': sr.get('cases', 0), 'distinct': sr.get('distinct', 0), 'wall_s': round(sr['wall'], 1),
                        'failures': len(sr.get('failures', []))})
        if sr['status'] != 'ok':
            errors.append({'contract': 'standin:' + name, 'reason': sr['status'] + ' ' + sr.get('stderr', '')[-800:]})
        for f in sr.get('failures', []):
            f['standin'] = name
            standin_fail.append(f)

    # verdict
    violations, known_lines = [], []

    def is_known(key):
        for k in kf:
            ms = k['match'] if isinstance(k['match'], list) else [k['match']]
            if any(m in key for m in ms):
                return k
        return None

    os.makedirs(os.path.join(OUT, 'replays'), exist_ok=True)
    import glob
    for old in glob.glob(os.path.join(OUT, 'replays', '%s-*.json' % a.prop)):
        try:
            os.unlink(old)         # replay files of earlier runs of this property
        except OSError:
            pass
    n = 0
    for o in refuted:
        k = is_known(o['name'])
        if k:
            known_lines.append('KNOWN-FINDING: property=%s %s' % (a.prop, k['what']))
            continue
        witness = standin_fail[0] if standin_fail else None
        path = os.path.join(OUT, 'replays', '%s-%d.json' % (a.prop, n))
        n += 1
        with open(path, 'w') as f:
            json.dump({'property': a.prop, 'obligation': o['name'], 'line': o['line'], 'backend': o['backend'],
                       'verdict': 'refuted (negation of the obligation is satisfiable)', 'model': o['model'],
                       'system_level_witness': witness}, f, indent=1, default=str)
        violations.append((path, witness is None))
    for f in standin_fail:
        key = 'standin:%s:%s' % (f['standin'], f.get('key', ''))
        k = is_known(key)
        if k:
            known_lines.append('KNOWN-FINDING: property=%s %s' % (a.prop, k['what']))
            continue
        if refuted and not all(is_known(o['name']) for o in refuted):
            continue        # already attached as the system-level witness of a refuted obligation
        path = os.path.join(OUT, 'replays', '%s-%d.json' % (a.prop, n))
        n += 1
        with open(path, 'w') as fo:
            json.dump({'property': a.prop, 'obligation': None, 'bounded_standin': f['standin'], 'input': f}, fo, indent=1,
                      default=str)
        violations.append((path, False))
        if n > 5:
            break

    for o in undecided:
        print('UNDECIDED property=%s obligation=%s reason=%s' % (a.prop, o['name'], o['verdict']))
    for r in out_of_reach:
        print('UNDECIDED property=%s function=%s reason=%s' % (a.prop, r['function'], r['reason']))
    for l in sorted(set(known_lines)):
        print(l)

    level = cfg.get('level', 'proof')
    if (discharged < obligations or out_of_reach) and level == 'proof':
        level = 'other'
    if obligations == 0 and level == 'proof':
        level = 'other'
    explanation = cfg.get('explanation', '')
    if level == 'other':
        explanation = ('%d of %d obligations discharged; %d refuted, %d undecided, %d functions out of reach. %s'
                       % (discharged, obligations, len(refuted), len(undecided), len(out_of_reach), explanation))
    evidence = {
        'property_id': a.prop, 'tier': tier, 'seed': seed, 'level': level, 'wall_s': round(time.time() - t0, 2),
        'violations': len(violations),
        'coverage': {
            'obligations': obligations, 'discharged': discharged,
            'checker_cmd': './check %s --tier %s  (python3-vt -m vf.cli; z3-solver %s, /usr/bin/cvc5 on z3 unknowns)'
                           % (a.prop, tier, _z3_version()),
            'trusted_base': cfg.get('trusted', []),
            'explanation': explanation or 'all obligations generated from the current /repo source were discharged',
            'functions_under_contract': functions, 'by_backend': by_backend, 'solver_time_s': round(solver_time, 2),
            'refuted': [o['name'] for o in refuted], 'undecided': [o['name'] for o in undecided],
            'out_of_reach': out_of_reach, 'vacuity': vacuity, 'bounded': bounded,
            'bounded_cases': sum(b['cases'] for b in bounded),
            'samples': samples or [{'note': 'no proved post/inv obligation to sample'}],
            'evaluations': max(1, obligations + sum(b['cases'] for b in bounded)),
            'distinct_nontrivial': max(2, discharged + sum(b.get('distinct', 0) for b in bounded)),
            'known_findings_reported': sorted(set(known_lines)),
        },
        'assumptions': cfg.get('assumptions', []) + sorted(set(x for r in results for x in r.get('assumed', []))),
    }
    os.makedirs(os.path.join(OUT, 'evidence'), exist_ok=True)
    with open(os.path.join(OUT, 'evidence', '%s.json' % a.prop), 'w') as f:
        json.dump(evidence, f, indent=1, default=str)

    print('%s: %d/%d obligations discharged over %d functions (%s); %d refuted, %d undecided, %d out of reach; '
          'bounded stand-ins: %d cases, %d failures; %.1fs'
          % (a.prop, discharged, obligations, len(functions), by_backend, len(refuted), len(undecided), len(out_of_reach),
             sum(b['cases'] for b in bounded), len(standin_fail), time.time() - t0))
    for e in soft_errors:
        print('ENGINE-NOTE contract binding failed for %s (its obligations are undecided): %s'
              % (e['contract'], e['reason'][-400:].replace('\n', ' ')))
    if results and len(soft_errors) == len(results):
        errors.append({'contract': '*', 'reason': 'no contract of this property could be bound to the code'})
    if errors:
        for e in errors:
            print('ENGINE-ERROR %s: %s' % (e['contract'], e['reason']))
        if not violations:
            return 3
    if vacuity['covers_other']:
        # a contradictory `requires` or an unreachable normal exit / loop body makes a contract vacuous; an unreachable
        # *exceptional* exit only means that the exception cannot happen
        bad = [c for c in vacuity['covers_other'] if c.endswith('=unsat') and ':exit.raise.' not in c]
        if bad:
            print('ENGINE-ERROR vacuous contract: %s' % bad)
            return 3
    if violations:
        for path, nowitness in violations[:12]:
            print('VIOLATION property=%s replay=%s%s' % (a.prop, path, ' no-failing-input-found' if nowitness else ''))
        if len(violations) > 12:
            print('(%d further refuted obligations: see coverage.refuted in the evidence file and replays/)' % (len(violations) - 12))
        return 1
    return 0


def replay(prop, path):
    with open(path) as f:
        rec = json.load(f)
    print(json.dumps(rec, indent=1)[:4000])
    w = rec.get('system_level_witness') or rec.get('input')
    if not w:
        print('no concrete input recorded (no-failing-input-found); re-run ./check %s' % prop)
        return 0
    cmd = [VENV_PY, '-m', 'standins.run', w['standin'], '--prop', prop, '--replay', path]
    env = dict(os.environ, PYTHONPATH=ROOT)
    return subprocess.call(cmd, cwd=ROOT, env=env)


def _z3_version():
    try:
        import z3
        return z3.get_version_string()
    except Exception:
        return '?'


if __name__ == '__main__':
    sys.exit(main())
