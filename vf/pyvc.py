"""
vf/pyvc.py -- PyVC: verification-condition generator for a stated subset of Python.

Reads the *real* source of a function under contract from the repository working tree with `ast`
on every run, executes it symbolically (forward symbolic execution with cut points at annotated
loops, one path at a time), and emits proof obligations (call-site preconditions, loop invariant
init/preserve, variants, exception-freedom, postconditions, frame) that are discharged by z3
(and cvc5 on z3's unknowns) -- see DESIGN.md section 3.

Values: concrete Python values are evaluated concretely (ints, strings, tuples, dicts, classes);
symbolic values are SInt / SBool / SOpt / SRef / SSeq / SBytes wrappers around z3 terms.
"""
import ast
import hashlib
import itertools
import os
import time

import z3

REPO = os.environ.get('VERIF_REPO', '/repo')

Ref = z3.DeclareSort('Ref')
BV8 = z3.BitVecSort(8)
ByteSeq = z3.SeqSort(BV8)


class OutOfSubset(Exception):
    """construct outside the accepted subset: the function is out of reach (never a violation)"""


class PathEnd(Exception):
    """current path ends here (cut at loop head, infeasible, ...)"""


class PyRaise(Exception):
    """the analysed code raises"""

    def __init__(self, exc_class, args=()):
        Exception.__init__(self, exc_class)
        self.exc_class, self.exc_args = exc_class, args


class _Return(Exception):
    def __init__(self, value):
        self.value = value


class _Break(Exception):
    pass


class _Continue(Exception):
    pass


# ------------------------------------------------------------------------------------ values

class Sym(object):
    pass


class SInt(Sym):
    def __init__(self, t):
        self.t = t if z3.is_expr(t) else z3.IntVal(t)

    def __repr__(self):
        return 'SInt(%s)' % self.t


class SBool(Sym):
    def __init__(self, t):
        self.t = t if z3.is_expr(t) else z3.BoolVal(t)

    def __repr__(self):
        return 'SBool(%s)' % self.t


class SOpt(Sym):
    """int-or-None"""

    def __init__(self, isnone, val):
        self.isnone, self.val = isnone, val

    def __repr__(self):
        return 'SOpt(%s,%s)' % (self.isnone, self.val)


class STruth(Sym):
    """a value of which only the truthiness is known/used (str-or-None flags, `a and b`)"""

    def __init__(self, t):
        self.t = t

    def __repr__(self):
        return 'STruth(%s)' % self.t


class SFloatQuot(Sym):
    """result of int / int (a Python float); only int(...) of it is supported"""

    def __init__(self, num, den):
        self.num, self.den = num, den


class SRef(Sym):
    def __init__(self, t, cls=None, exact=False):
        self.t, self.cls, self.exact = t, cls, exact

    def __repr__(self):
        return 'SRef(%s:%s)' % (self.t, self.cls)


class SSeq(Sym):
    """sequence with symbolic length; elem(i) gives the element value for z3 Int term i"""

    def __init__(self, length, elem, name='seq'):
        self.length, self.elem, self.name = length, elem, name

    def __repr__(self):
        return 'SSeq(%s)' % self.name


class SBytes(Sym):
    def __init__(self, t):
        self.t = t

    def __repr__(self):
        return 'SBytes(%s)' % self.t


class SStr(Sym):
    """opaque string (uninterpreted); equality only"""

    def __init__(self, t):
        self.t = t


StrSort = z3.DeclareSort('PyStr')


class Closure(object):
    def __init__(self, node, env, qualname, cls=None, self_obj=None):
        self.node, self.env, self.qualname, self.cls, self.self_obj = node, env, qualname, cls, self_obj


class BoundMethod(object):
    def __init__(self, closure, self_obj):
        self.closure, self.self_obj = closure, self_obj


class ClassInfo(object):
    def __init__(self, name, bases, module):
        self.name, self.bases, self.module = name, bases, module
        self.methods, self.props, self.attrs, self.kinds = {}, {}, {}, {}
        self.cid = None

    def mro(self):
        out = [self]
        for b in self.bases:
            if isinstance(b, ClassInfo):
                for c in b.mro():
                    if c not in out:
                        out.append(c)
        return out

    def lookup(self, name):
        for c in self.mro():
            if name in c.methods:
                return 'method', c.methods[name], c
            if name in c.props:
                return 'prop', c.props[name], c
            if name in c.attrs:
                return 'attr', c.attrs[name], c
        return None

    def is_subclass(self, other):
        return other in self.mro()

    def __repr__(self):
        return '<class %s>' % self.name


class Env(object):
    def __init__(self, parent=None, vars_=None):
        self.parent, self.vars = parent, dict(vars_ or {})

    def get(self, name):
        e = self
        while e is not None:
            if name in e.vars:
                return e.vars[name]
            e = e.parent
        raise KeyError(name)

    def has(self, name):
        try:
            self.get(name)
            return True
        except KeyError:
            return False

    def set(self, name, value):
        self.vars[name] = value

    def set_nonlocal(self, name, value):
        e = self
        while e is not None:
            if name in e.vars:
                e.vars[name] = value
                return
            e = e.parent
        self.vars[name] = value


# ------------------------------------------------------------------------------------ modules

_module_cache = {}


class Module(object):
    def __init__(self, relpath):
        self.relpath = relpath
        self.path = os.path.join(REPO, relpath)
        with open(self.path, 'r', encoding='utf-8') as f:
            self.source = f.read()
        self.tree = ast.parse(self.source, self.path)
        self.env = Env()
        self.classes = {}
        self._lines = self.source.splitlines(True)

    def segment(self, node):
        return ast.get_source_segment(self.source, node)

    def find(self, qualname):
        """FunctionDef/ClassDef chain for a dotted path of nested defs/classes; `#n` picks the
        n-th definition with that name in source order"""
        node, chain = self.tree, []
        for part in qualname.split('.'):
            name, _, ordinal = part.partition('#')
            ordinal = int(ordinal) if ordinal else 0
            found = [n for n in _walk_defs(node) if n.name == name]
            if len(found) <= ordinal:
                raise KeyError('%s: no definition %r in %s' % (self.relpath, part, qualname))
            node = found[ordinal]
            chain.append(node)
        return node, chain


def _walk_defs(node):
    """definitions (def/class) nested directly or in compound statements of node, not in nested defs"""
    out = []

    def visit(n, top):
        for ch in ast.iter_child_nodes(n):
            if isinstance(ch, (ast.FunctionDef, ast.ClassDef)):
                out.append(ch)
            elif not isinstance(ch, (ast.Lambda,)):
                visit(ch, False)

    visit(node, True)
    return out


def load_module(relpath):
    m = _module_cache.get(relpath)
    if m is None:
        m = _module_cache[relpath] = Module(relpath)
    return m


def reset_modules():
    _module_cache.clear()


# ------------------------------------------------------------------------------------ engine

class Obligation(object):
    def __init__(self, name, pc, goal, kind, line=None, note=None):
        self.name, self.pc, self.goal, self.kind, self.line, self.note = name, list(pc), goal, kind, line, note
        self.verdict = None     # 'proved' | 'refuted' | 'unknown'
        self.backend = None
        self.time = 0.0
        self.model = None


class Path(object):
    def __init__(self):
        self.pc = []
        self.heap = {}
        self.trace = []       # decisions taken
        self.objattrs = {}
        self.ghost = {}
        self.alloc = 0
        self.split_terms = []     # (term, values): small-domain terms the contract offers for case splitting


class Engine(object):
    """one Engine per function under contract"""

    def __init__(self, contract):
        self.contract = contract
        self.obligations = []
        self.paths = 0
        self.covers = []
        self.notes = []
        self._fresh = itertools.count()
        self.heap_sorts = {}
        self.classes = {}
        self.class_ids = {}
        self.clsid = z3.Function('clsid', Ref, z3.IntSort())
        self.path = None
        self._prefix = []
        self._pending = []
        self.solver_time = 0.0
        self.pure = 0
        self.call_depth = 0
        self.max_paths = 4000

    # ---- naming
    def fresh(self, base, sort=None):
        n = '%s!%d' % (base, next(self._fresh))
        sort = z3.IntSort() if sort is None else sort
        return z3.Const(n, sort)

    def fresh_int(self, base='i'):
        return SInt(self.fresh(base))

    def fresh_ref(self, base, cls=None, exact=True):
        r = SRef(self.fresh(base, Ref), cls, exact)
        if cls is not None and exact:
            self.assume(self.clsid(r.t) == self.class_id(cls))
        return r

    def class_id(self, cls):
        if cls not in self.class_ids:
            self.class_ids[cls] = len(self.class_ids) + 1
        return self.class_ids[cls]

    # ---- path condition / decisions
    def assume(self, cond):
        if isinstance(cond, bool):
            if not cond:
                raise PathEnd()
            return
        self.path.pc.append(cond)

    def under(self, cond, fn):
        """evaluate fn() with cond temporarily assumed; assumptions made inside do not leak"""
        saved = len(self.path.pc)
        self.path.pc.append(cond)
        try:
            return fn()
        finally:
            del self.path.pc[saved:]

    def check_sat(self, extra, timeout=2000, ground_only=True):
        """feasibility check.  ground_only drops quantified hypotheses: an over-approximation of
        feasibility (more paths explored, never fewer) that keeps the check fast and decidable"""
        s = z3.Solver()
        s.set('timeout', timeout)
        for c in self.path.pc:
            if ground_only and _has_quantifier(c):
                continue
            s.add(c)
        for c in extra:
            s.add(c)
        t0 = time.time()
        r = s.check()
        self.solver_time += time.time() - t0
        return r

    def decide(self, cond):
        """fork on a symbolic condition; returns the Python bool chosen on this path"""
        if isinstance(cond, bool):
            return cond
        cond = z3.simplify(cond)
        if z3.is_true(cond):
            return True
        if z3.is_false(cond):
            return False
        if self.pure:
            raise OutOfSubset('fork inside a quantified/pure context')
        # a condition already decided on this path (syntactically): no new fork
        neg = z3.simplify(z3.Not(cond))
        for c in self.path.pc:
            if c.eq(cond):
                return True
            if c.eq(neg) or (z3.is_not(c) and c.arg(0).eq(cond)):
                return False
        idx = len(self.path.trace)
        if idx < len(self._prefix):
            choice = self._prefix[idx]
        else:
            can_t = self.check_sat([cond]) != z3.unsat
            can_f = self.check_sat([z3.Not(cond)]) != z3.unsat
            if can_t and can_f:
                choice = True
                self._pending.append(self.path.trace + [False])
            elif can_t:
                choice = True
            elif can_f:
                choice = False
            else:
                raise PathEnd()
        self.path.trace.append(choice)
        self.path.pc.append(cond if choice else z3.Not(cond))
        return choice

    def choose(self, n):
        """nondeterministic choice among n alternatives (cut points)"""
        idx = len(self.path.trace)
        if idx < len(self._prefix):
            choice = self._prefix[idx]
        else:
            choice = 0
            for alt in range(1, n):
                self._pending.append(self.path.trace + [alt])
        self.path.trace.append(choice)
        return choice

    # ---- obligations
    def oblige(self, name, goal, kind='post', line=None, note=None):
        if getattr(self, 'no_oblige', 0):
            return
        if isinstance(goal, bool):
            goal = z3.BoolVal(goal)
        ob = Obligation(name, self.path.pc, goal, kind, line, note)
        ob.lengths = list(getattr(self, 'lengths', []))
        ob.split_terms = list(self.path.split_terms)
        self.obligations.append(ob)

    # ---- heap
    def declare_attr(self, attr, sort):
        self.heap_sorts[attr] = sort

    def heap_array(self, attr):
        if attr not in self.path.heap:
            sort = self.heap_sorts.get(attr)
            if sort is None:
                raise OutOfSubset('attribute %r has no declared shape' % attr)
            self.path.heap[attr] = z3.Const('H_%s' % attr, z3.ArraySort(Ref, sort))
        return self.path.heap[attr]

    def load(self, ref, attr):
        kind = self.attr_kind(attr)
        if kind == 'obj':
            key = (str(ref.t), attr)
            if key not in self.path.objattrs:
                raise OutOfSubset('object attribute %s.%s not bound by the contract' % (ref, attr))
            return self.path.objattrs[key]
        if kind == 'opt':
            return SOpt(z3.Select(self.heap_array(attr + '#none'), ref.t), z3.Select(self.heap_array(attr), ref.t))
        if kind == 'int':
            return SInt(z3.Select(self.heap_array(attr), ref.t))
        if kind == 'bool':
            return SBool(z3.Select(self.heap_array(attr), ref.t))
        if kind == 'truth':
            return STruth(z3.Select(self.heap_array(attr), ref.t))
        if kind == 'str':
            return SStr(z3.Select(self.heap_array(attr), ref.t))
        if isinstance(kind, tuple) and kind[0] == 'ref':
            cls = kind[1](self) if callable(kind[1]) else kind[1]
            return SRef(z3.Select(self.heap_array(attr), ref.t), cls, len(kind) > 2 and kind[2])
        if kind == 'fnval':
            return OpaqueFn(ref, attr)
        if kind == 'optstr':
            for a, srt in ((attr, StrSort), (attr + '#none', z3.BoolSort())):
                if a not in self.heap_sorts:
                    self.heap_sorts[a] = srt
            return SOptStr(z3.Select(self.heap_array(attr + '#none'), ref.t), z3.Select(self.heap_array(attr), ref.t))
        if isinstance(kind, tuple) and kind[0] == 'optref':
            return SOptRef(z3.Select(self.heap_array(attr + '#none'), ref.t), z3.Select(self.heap_array(attr), ref.t), kind[1])
        raise OutOfSubset('attribute kind %r' % (kind,))

    def attr_kind(self, attr):
        k = self.contract.shapes.get(attr)
        if k is None:
            raise OutOfSubset('attribute %r has no declared shape' % attr)
        return k

    def store(self, ref, attr, value):
        kind = self.attr_kind(attr)
        self.path.stored = getattr(self.path, 'stored', set())
        self.path.stored.add(attr)
        if kind == 'obj':
            self.path.objattrs[(str(ref.t), attr)] = value
            return
        if kind == 'opt':
            if value is None:
                self.path.heap[attr + '#none'] = z3.Store(self.heap_array(attr + '#none'), ref.t, z3.BoolVal(True))
                return
            if isinstance(value, SOpt):
                self.path.heap[attr + '#none'] = z3.Store(self.heap_array(attr + '#none'), ref.t, value.isnone)
                self.path.heap[attr] = z3.Store(self.heap_array(attr), ref.t, value.val)
                return
            v = self.as_int(value)
            self.path.heap[attr + '#none'] = z3.Store(self.heap_array(attr + '#none'), ref.t, z3.BoolVal(False))
            self.path.heap[attr] = z3.Store(self.heap_array(attr), ref.t, v)
            return
        if kind == 'int':
            self.path.heap[attr] = z3.Store(self.heap_array(attr), ref.t, self.as_int(value))
            return
        if kind == 'bool':
            self.path.heap[attr] = z3.Store(self.heap_array(attr), ref.t, self.as_bool(value))
            return
        if kind == 'optstr':
            self.load(ref, attr)        # declares the two maps
            n, s = attr + '#none', attr
            if value is None:
                self.path.heap[n] = z3.Store(self.heap_array(n), ref.t, z3.BoolVal(True))
                return
            if isinstance(value, SOptStr):
                self.path.heap[n] = z3.Store(self.heap_array(n), ref.t, value.isnone)
                self.path.heap[s] = z3.Store(self.heap_array(s), ref.t, value.t)
                return
            if isinstance(value, SStr) or isinstance(value, str):
                t = value.t if isinstance(value, SStr) else self.contract.str_const(value)
                self.path.heap[n] = z3.Store(self.heap_array(n), ref.t, z3.BoolVal(False))
                self.path.heap[s] = z3.Store(self.heap_array(s), ref.t, t)
                return
        if kind == 'truth':
            t = self.truthy(value)
            self.path.heap[attr] = z3.Store(self.heap_array(attr), ref.t, z3.BoolVal(t) if isinstance(t, bool) else t)
            return
        if isinstance(kind, tuple) and kind[0] == 'optref':
            if value is None:
                self.path.heap[attr + '#none'] = z3.Store(self.heap_array(attr + '#none'), ref.t, z3.BoolVal(True))
                return
            if isinstance(value, SOptRef):
                self.path.heap[attr + '#none'] = z3.Store(self.heap_array(attr + '#none'), ref.t, value.isnone)
                self.path.heap[attr] = z3.Store(self.heap_array(attr), ref.t, value.t)
                return
            if isinstance(value, SRef):
                self.path.heap[attr + '#none'] = z3.Store(self.heap_array(attr + '#none'), ref.t, z3.BoolVal(False))
                self.path.heap[attr] = z3.Store(self.heap_array(attr), ref.t, value.t)
                return
        if isinstance(kind, tuple) and kind[0] == 'ref' and isinstance(value, SRef):
            self.path.heap[attr] = z3.Store(self.heap_array(attr), ref.t, value.t)
            return
        raise OutOfSubset('store of %r into attribute %s (%r)' % (value, attr, kind))

    # ---- conversions
    def as_int(self, v):
        if isinstance(v, bool):
            return z3.IntVal(int(v))
        if isinstance(v, int):
            return z3.IntVal(v)
        if isinstance(v, SInt):
            return v.t
        if isinstance(v, SBool):
            return z3.If(v.t, z3.IntVal(1), z3.IntVal(0))
        if isinstance(v, SOpt):
            self.oblige('noexc.TypeError:None-as-int', z3.Not(v.isnone), 'noexc', self.cur_line)
            self.assume(z3.Not(v.isnone))
            return v.val
        raise OutOfSubset('expected int, got %r' % (v,))

    def as_bool(self, v):
        if isinstance(v, bool):
            return z3.BoolVal(v)
        if isinstance(v, SBool):
            return v.t
        raise OutOfSubset('expected bool, got %r' % (v,))

    def truthy(self, v):
        """z3 Bool (or Python bool) for Python truthiness of v"""
        if hasattr(v, 'sym_truthy'):
            return v.sym_truthy(self)
        if isinstance(v, SBool):
            return v.t
        if isinstance(v, STruth):
            return v.t
        if isinstance(v, SInt):
            return v.t != 0
        if isinstance(v, SOpt):
            return z3.And(z3.Not(v.isnone), v.val != 0)
        if isinstance(v, SOptRef):
            return z3.Not(v.isnone)
        if isinstance(v, SSeq):
            return v.length > 0
        if isinstance(v, SBytes):
            return z3.Length(v.t) > 0
        if isinstance(v, SStr):
            return NONEMPTY(v.t)        # uninterpreted predicate on the opaque string sort
        if isinstance(v, SRef):
            cls = v.cls
            if cls is not None and isinstance(cls, ClassInfo) and cls.lookup('__len__'):
                raise OutOfSubset('truthiness of object with __len__')
            return True
        if isinstance(v, OpaqueFn):
            return True
        if isinstance(v, Sym):
            raise OutOfSubset('truthiness of %r' % (v,))
        return bool(v)

    def is_symbolic(self, v):
        return isinstance(v, Sym)


def _has_quantifier(t, depth=0):
    if z3.is_quantifier(t):
        return True
    if depth > 6:
        return False
    return any(_has_quantifier(c, depth + 1) for c in t.children())


NONEMPTY = z3.Function('NONEMPTY', StrSort, z3.BoolSort())


class SOptStr(Sym):
    """str-or-None attribute (StructMember.bound / .size)"""

    def __init__(self, isnone, t):
        self.isnone, self.t = isnone, t

    def sym_truthy(self, vm):
        return z3.And(z3.Not(self.isnone), NONEMPTY(self.t))

    def sym_is_none(self, vm):
        return self.isnone


class OpaqueFn(Sym):
    """function-valued attribute (e.g. field.encode_fcn): calls go to the contract's call hook"""

    def __init__(self, owner, attr):
        self.owner, self.attr = owner, attr


class SOptRef(Sym):
    def __init__(self, isnone, t, cls=None):
        self.isnone, self.t, self.cls = isnone, t, cls

    def __repr__(self):
        return 'SOptRef(%s,%s)' % (self.isnone, self.t)
