"""
vf/cxx_run.py -- drives CxxVC: builds the driver translation unit, asks clang for the AST of the instantiated bodies,
asks g++ for sizeof/alignof of the class types involved (values computed by the real compiler from the real headers),
verifies every function that has a contract, and returns results in the shape vf.cli aggregates.
"""
import os
import shutil
import subprocess
import tempfile
import time
import traceback
from multiprocessing import Pool

from . import cxx_ast as A
from . import cxxvc as V


def include_dir(repo):
    return os.path.join(repo, 'prophy_cpp', 'include')


def sizeof_table(source_prefix, type_names, include_dirs, workdir):
    """{name: (sizeof, alignof)} computed by g++ for the given class types"""
    if not type_names:
        return {}
    src = os.path.join(workdir, 'sizes.cpp')
    with open(src, 'w') as f:
        f.write(source_prefix)
        f.write('\n#include <cstdio>\nint main() {\n')
        for t in type_names:
            f.write('    printf("%s %%zu %%zu\\n", sizeof(%s), __alignof__(%s));\n' % (t.split('::')[-1], t, t))
        f.write('    return 0;\n}\n')
    exe = os.path.join(workdir, 'sizes')
    cmd = ['g++', '-std=c++11', '-w']
    for d in include_dirs:
        cmd += ['-I', d]
    p = subprocess.run(cmd + [src, '-o', exe], stdout=subprocess.PIPE, stderr=subprocess.STDOUT)
    if p.returncode != 0:
        raise A.AstError('g++ (sizeof helper): ' + p.stdout.decode('utf-8', 'replace')[-1500:])
    out = subprocess.run([exe], stdout=subprocess.PIPE).stdout.decode()
    table = {}
    for ln in out.splitlines():
        n, s, a = ln.split()
        table[n] = (int(s), int(a))
    return table


_CX = {}


def _verify_one(args):
    key, fid, timeout_ms = args
    cx, todo = _CX[key]
    fn, c = todo[fid]
    try:
        r = V.verify_function(cx, fn, c, timeout_ms)
    except V.OutOfReach as e:
        r = {'contract': cx.ix.qualname(fn), 'status': 'out_of_reach', 'reason': str(e), 'obligations': [],
             'props': list(c.props)}
    except Exception:
        r = {'contract': cx.ix.qualname(fn), 'status': 'error', 'reason': traceback.format_exc()[-1500:],
             'obligations': [], 'props': list(c.props)}
    r['assumed'] = sorted(cx.assumed)
    r['contract_name'] = c.name
    return r


def verify_all(key, cx, prop=None, timeout_ms=20000, jobs=16, only=None):
    """verify every instantiated function with a body that matches a verifiable contract"""
    todo = []
    for fn in cx.ix.instantiated_functions():
        c = cx.contract_for(fn)
        if c is None or not c.verify:
            continue
        if prop is not None and prop not in c.props:
            # C19 (byte order) concerns every function that is instantiated per endianness: its contract is re-verified
            # together with the pass-through obligation `endianness.passed_on`
            if not (prop == 'C19' and V.endianness_of(cx.ix.qualname(fn)) is not None):
                continue
        if only is not None and not only(cx.ix.qualname(fn)):
            continue
        todo.append((fn, c))
    _CX[key] = (cx, todo)
    args = [(key, i, timeout_ms) for i in range(len(todo))]
    if jobs > 1 and len(todo) > 4:
        with Pool(min(jobs, len(todo))) as pool:       # fork: the context is inherited
            results = pool.map(_verify_one, args, chunksize=max(1, len(todo) // (jobs * 4)))
    else:
        results = [_verify_one(a) for a in args]
    return results


def header_context(repo, workdir):
    from contracts import cxx_header as H
    src = os.path.join(workdir, 'hdr.cpp')
    with open(src, 'w') as f:
        f.write(H.driver_source())
    inc = [include_dir(repo)]
    ix = A.load(src, inc, 'prophy')
    prefix = '#include <vector>\n#include <prophy/detail/message.hpp>\n#include <prophy/optional.hpp>\n' + H.DUMMY_TYPES
    names = ['prophy::generated::' + n for n in H.DUMMY_INFO]
    table = sizeof_table(prefix, names, inc, workdir)
    cx = V.Cx(ix, H.all_contracts(), table)
    cx.types = dict(H.DUMMY_INFO)
    return cx


def file_hashes(cx):
    out = {}
    for f in sorted(cx.ix.files):
        if os.path.isabs(f) and os.path.exists(f) and ('/prophy' in f or f.endswith(('.ppf.cpp', '.ppf.hpp', '.cpp'))):
            out[f] = A.sha256_file(f)
    return out


def finish(results, cx, repo):
    hashes = file_hashes(cx)
    for r in results:
        f = r.get('file')
        r.setdefault('file', '?')
        r.setdefault('line', 0)
        r['sha256'] = hashes.get(r.get('file'))
        r.setdefault('paths', 0)
        r.setdefault('covers', {})
        r.setdefault('solver_time', 0.0)
        r.setdefault('wall', 0.0)
        r['contract'] = 'c++ ' + r['contract']
    return results


def check_header(repo, prop, timeout_ms=20000, jobs=16, only=None):
    work = tempfile.mkdtemp(prefix='cxxvc-')
    try:
        cx = header_context(repo, work)
        res = verify_all('hdr', cx, prop, timeout_ms, jobs, only)
        return finish(res, cx, repo)
    finally:
        shutil.rmtree(work, ignore_errors=True)


def print_context(repo, workdir):
    from contracts import cxx_print as P
    src = os.path.join(workdir, 'prt.cpp')
    with open(src, 'w') as f:
        f.write(P.DRIVER)
    ix = A.load(src, [include_dir(repo)], 'prophy')
    types_only = P.DRIVER.split('namespace prophy { namespace detail {')[0]
    table = sizeof_table(types_only, ['prophy::generated::Fx', 'prophy::generated::En'], [include_dir(repo)], workdir)
    cx = V.Cx(ix, P.all_contracts(False), table)
    cx.types = {'Fx': {'fixed_size': 12, 'align': 4, 'min_size': 12}}
    return cx


def check_print_header(repo, timeout_ms=20000, jobs=16):
    work = tempfile.mkdtemp(prefix='cxxvc-prt-')
    try:
        cx = print_context(repo, work)
        res = verify_all('prt', cx, 'C18', timeout_ms, jobs, lambda q: 'prophy::detail::' in q)
        return finish(res, cx, repo)
    finally:
        shutil.rmtree(work, ignore_errors=True)


# --------------------------------------------------------------------------- generated code (per schema)

VENV_PY = '/venv/bin/python'


def run_prophyc(repo, schema_path, outdir, extra=()):
    env = dict(os.environ, PYTHONPATH=repo)
    p = subprocess.run([VENV_PY, '-m', 'prophyc', '--cpp_full_out', outdir] + list(extra) + [schema_path],
                       stdout=subprocess.PIPE, stderr=subprocess.STDOUT, env=env, cwd=outdir)
    if p.returncode != 0:
        raise A.AstError('prophyc: ' + p.stdout.decode('utf-8', 'replace')[-1500:])


def encoded_byte_size(cx, name):
    """value of T::encoded_byte_size as clang evaluated it"""
    for nid, n in cx.ix.by_id.items():
        if n.get('kind') == 'EnumConstantDecl' and n.get('name') == 'encoded_byte_size':
            rec = cx.ix.parent.get(nid)
            while rec is not None and rec.get('kind') not in ('CXXRecordDecl',):
                rec = cx.ix.parent.get(rec.get('id'))
            if rec is not None and rec.get('name') == name:
                return cx.enum_constant(nid)[0]
    raise V.OutOfReach('encoded_byte_size of %s' % name)


def generated_context(repo, workdir, name, text, types, pool_types, restrict_sizers=True):
    from contracts import cxx_gen as G
    src = os.path.join(workdir, name + '.prophy')
    with open(src, 'w') as f:
        f.write(text)
    run_prophyc(repo, src, workdir)
    inc = [include_dir(repo), workdir]
    ix = A.load(os.path.join(workdir, name + '.ppf.cpp'), inc, 'prophy')
    allt = list(pool_types) + list(types)
    prefix = '#include "%s.ppf.hpp"\n' % name
    table = sizeof_table(prefix, ['prophy::generated::' + t.name for t in allt], inc, workdir)
    from contracts import cxx_print as P
    cx = V.Cx(ix, P.all_contracts(True) + G.all_contracts(restrict_sizers), table)
    cx.types = G.type_table(allt)
    cx.encoded_byte_size = lambda n: encoded_byte_size(cx, n)
    cx.exec_gbs, cx.gbs_functions = G.exec_gbs_factory(cx)
    return cx


def raw_layout_table(name, records, members, include_dirs, workdir):
    """sizeof/alignof of the raw records and offsetof of their members, evaluated by g++ on the generated <name>.pp.hpp"""
    src = os.path.join(workdir, 'rawsizes.cpp')
    with open(src, 'w') as f:
        f.write('#include <cstdio>\n#include <cstddef>\n#include "%s.pp.hpp"\nint main() {\n' % name)
        for r in records:
            f.write('    printf("S %s %%zu %%zu\\n", sizeof(%s), __alignof__(%s));\n' % (r, r, r))
        for r, m in members:
            f.write('    printf("O %s %s %%zu\\n", offsetof(%s, %s));\n' % (r, m, r, m))
        f.write('    return 0;\n}\n')
    exe = os.path.join(workdir, 'rawsizes')
    cmd = ['g++', '-std=c++11', '-w', '-Wno-invalid-offsetof']
    for d in include_dirs:
        cmd += ['-I', d]
    p = subprocess.run(cmd + [src, '-o', exe], stdout=subprocess.PIPE, stderr=subprocess.STDOUT)
    if p.returncode != 0:
        raise A.AstError('g++ (raw layout helper): ' + p.stdout.decode('utf-8', 'replace')[-1500:])
    sizes, offs = {}, {}
    for ln in subprocess.run([exe], stdout=subprocess.PIPE).stdout.decode().splitlines():
        parts = ln.split()
        if parts[0] == 'S':
            sizes[parts[1]] = (int(parts[2]), int(parts[3]))
        else:
            offs[(parts[1], parts[2])] = int(parts[3])
    return sizes, offs


def swap_context(repo, workdir, name, text, types, pool_types):
    from contracts import cxx_swap as S
    src = os.path.join(workdir, name + '.prophy')
    with open(src, 'w') as f:
        f.write(text)
    env = dict(os.environ, PYTHONPATH=repo)
    p = subprocess.run([VENV_PY, '-m', 'prophyc', '--cpp_out', workdir, src], stdout=subprocess.PIPE,
                       stderr=subprocess.STDOUT, env=env, cwd=workdir)
    if p.returncode != 0:
        raise A.AstError('prophyc: ' + p.stdout.decode('utf-8', 'replace')[-1500:])
    inc = [include_dir(repo), workdir]
    ix = A.load(os.path.join(workdir, name + '.pp.cpp'), inc, 'prophy')
    allt = list(pool_types) + list(types)
    members = []
    for t in allt:
        members += S.designators(t)
    records = sorted(set(r for r, _ in members))
    sizes, offs = raw_layout_table(name, records, members, inc, workdir)
    from specs import wire as W
    for t in allt:
        if isinstance(t, W.Union) and t.arms:
            offs[(t.name, '')] = offs[(t.name, t.arms[0].name)]       # the anonymous union holding the arms
    cx = V.Cx(ix, S.all_contracts([t.name for t in allt]), sizes)
    cx.raw_offsets = offs
    cx.types = S.type_table(allt)
    cx.extra_enums = set(S.enum_names(allt))
    cx.typedefs = typedef_names()
    return cx


def typedef_names():
    """typedefs of the schema pool (global scope in the raw header, so outside the filtered AST dump): name -> C++ type"""
    from specs import family as F, wire as W
    out = {}
    for n, t in F.POOL.t.items():
        if getattr(t, 'name', None) == n or n in ('u8', 'u16', 'u32', 'u64', 'i8', 'i16', 'i32', 'i64', 'r32', 'r64', 'byte'):
            continue
        if isinstance(t, W.Int):
            out[n] = '%sint%d_t' % ('' if t.signed else 'u', 8 * t.size)
        elif isinstance(t, (W.Struct, W.Union, W.Enum)):
            out[n] = t.name
    return out


def check_swap_unit(repo, name, text, types, pool_types, timeout_ms=20000, jobs=1, verify_pool=True):
    work = tempfile.mkdtemp(prefix='cxxvc-swap-')
    try:
        cx = swap_context(repo, work, name, text, types, pool_types)
        names = set(t.name for t in types) | (set(t.name for t in pool_types) if verify_pool else set())

        def sel(q):
            if q.startswith('prophy::swap<') or '::swap<' in q:
                return any(('swap<%s>' % n) in q for n in names)
            return verify_pool            # the header leaves (scalar swaps, swap_n_*, cast): once, with the pool
        res = verify_all('swap-' + name, cx, 'C09', timeout_ms, jobs, sel)
        return finish(res, cx, repo)
    finally:
        shutil.rmtree(work, ignore_errors=True)


def check_generated_unit(repo, name, text, types, pool_types, prop=None, timeout_ms=20000, jobs=1, restrict_sizers=True,
                         only=None, verify_pool=True):
    work = tempfile.mkdtemp(prefix='cxxvc-gen-')
    try:
        cx = generated_context(repo, work, name, text, types, pool_types, restrict_sizers)
        names = set(t.name for t in types) | (set(t.name for t in pool_types) if verify_pool else set())

        def sel(q):
            if 'prophy::generated::' not in q:
                return False
            if not any(('generated::%s>' % n) in q or ('generated::%s::' % n) in q for n in names):
                return False
            if only is not None and not only(q):
                return False
            return True
        res = verify_all('gen-' + name, cx, prop, timeout_ms, jobs, sel)
        return finish(res, cx, repo)
    finally:
        shutil.rmtree(work, ignore_errors=True)
