"""
vf/cxxvc.py -- CxxVC: verification conditions for the C++ runtime headers and prophyc-generated C++,
generated from clang's JSON AST of the *instantiated* function bodies (vf/cxx_ast.py) and discharged by z3.

Semantics modelled (everything else is "out of reach" and reported as such, never silently skipped):
  * integers are bit-vectors of their C++ width and signedness; every implicit conversion is taken from the AST
    (clang has already inserted ImplicitCastExpr nodes), so `size_t(end - pos)` wraps exactly as on x86-64;
  * pointers are 64-bit addresses; pointer arithmetic scales by the pointee size; `p - q` is a signed 64-bit count;
  * byte memory is one z3 array (address -> byte); every read through a byte pointer creates an obligation
    `RLO <= a < RHI` and every write `WLO <= a < WHI` (regions come from the contract under verification);
  * `*reinterpret_cast<const T*>(p)` is a little-endian load of sizeof(T) bytes (host assumption, listed) with the
    additional obligation `p % alignof(T) == 0` (a misaligned load is undefined behaviour);
  * objects of class type are opaque bags of attributes (`size` of a std::vector, `engaged` of an optional,
    named fields of generated structs, the ghost `gbs` = value of get_byte_size()); writes through references to
    class objects havoc the attribute concerned;
  * calls: a callee with a registered contract is replaced by it (requires -> obligation at the call site, ensures ->
    assumption); std::vector / optional members have built-in models (assumed contracts, listed); other callees with a
    body in the dump are inlined (forwarders such as do_decode -> decoder<>::decode);
  * loops need an invariant (and a variant) from the sidecar; cut-point semantics as in PyVC;
  * undefined behaviour obligations: signed overflow of + - *, shift amount < width, division by zero.
Dropped: exceptions (std::bad_alloc / length_error from resize are excluded by the allocation obligations, see
contracts/cxx_header.py), object lifetimes, iostreams (printer.hpp is handled by contracts/cxx_print.py).
"""
import itertools
import time

import z3

from . import cxx_ast as A

BV64 = z3.BitVecSort(64)
_counter = itertools.count()


class OutOfReach(Exception):
    pass


def fresh(prefix, sort):
    return z3.Const('%s!%d' % (prefix, next(_counter)), sort)


# --------------------------------------------------------------------------- C types

INT_TYPES = {
    'unsigned char': (8, False), 'uint8_t': (8, False), 'signed char': (8, True), 'int8_t': (8, True), 'char': (8, True),
    'unsigned short': (16, False), 'uint16_t': (16, False), 'short': (16, True), 'int16_t': (16, True),
    'unsigned int': (32, False), 'uint32_t': (32, False), 'int': (32, True), 'int32_t': (32, True),
    'prophy::bool_t': (32, False), 'bool_t': (32, False),
    'unsigned long': (64, False), 'uint64_t': (64, False), 'size_t': (64, False), 'uintptr_t': (64, False),
    'std::size_t': (64, False), 'unsigned long long': (64, False), 'std::vector::size_type': (64, False),
    'size_type': (64, False),
    'long': (64, True), 'int64_t': (64, True), 'ptrdiff_t': (64, True), 'long long': (64, True), 'std::ptrdiff_t': (64, True),
    'float': (32, False), 'double': (64, False),        # floats are carried as their bit patterns
    'std::ios_base::fmtflags': (32, False), 'std::_Ios_Fmtflags': (32, False), 'fmtflags': (32, False),
    'std::streamsize': (64, True), 'streamsize': (64, True),
    'std::basic_ios<char>::char_type': (8, True), 'char_type': (8, True),
}


class CT(object):
    """C type: kind in int|bool|ptr|obj|void ; bits/signed for int ; elem for ptr ; name for obj"""

    def __init__(self, kind, bits=0, signed=False, elem=None, name=None, enum=False):
        self.kind, self.bits, self.signed, self.elem, self.name, self.enum = kind, bits, signed, elem, name, enum

    def __repr__(self):
        if self.kind == 'int':
            return '%s%d%s' % ('i' if self.signed else 'u', self.bits, 'e' if self.enum else '')
        if self.kind == 'ptr':
            return '%r*' % (self.elem,)
        return self.name or self.kind

    def size(self, cx):
        if self.kind == 'int':
            return self.bits // 8
        if self.kind == 'bool':
            return 1
        if self.kind == 'ptr':
            return 8
        if self.kind == 'obj':
            return cx.sizeof_obj(self.name)
        raise OutOfReach('sizeof(%r)' % self)


def _strip_cv(s):
    s = s.strip()
    changed = True
    while changed:
        changed = False
        for pre in ('const ', 'volatile ', 'struct ', 'class '):
            if s.startswith(pre):
                s, changed = s[len(pre):].strip(), True
        for suf in (' const', ' volatile'):
            if s.endswith(suf):
                s, changed = s[:-len(suf)].strip(), True
    return s


def parse_type(cx, tdict):
    """clang type dict -> (CT, is_reference)"""
    if isinstance(tdict, str):
        q = tdict
    else:
        q = tdict.get('desugaredQualType') or tdict.get('qualType') or ''
    return parse_qual(cx, q)


def parse_qual(cx, q):
    q = q.strip()
    ref = False
    if q.endswith('&&'):
        q, ref = q[:-2], True
    elif q.endswith('&'):
        q, ref = q[:-1], True
    q = _strip_cv(q)
    if q.endswith(']') and '[' in q:
        # T[N]: a member array of a raw (packed) struct
        elem, _ = parse_qual(cx, q[:q.rindex('[')])
        return CT('arr', elem=elem, name=q), ref
    if q.endswith('*'):
        elem, _ = parse_qual(cx, q[:-1])
        return CT('ptr', elem=elem), ref
    if q == 'bool':
        return CT('bool'), ref
    if q == 'void':
        return CT('void'), ref
    if q in INT_TYPES:
        b, s = INT_TYPES[q]
        return CT('int', b, s), ref
    if q in getattr(cx, 'typedefs', {}):
        # typedef names that reach the executor as text (template arguments of global-scope raw typedefs)
        t, _ = parse_qual(cx, cx.typedefs[q])
        return t, ref
    e = cx.enum_info(q)
    if e is not None:
        return CT('int', 32, e, name=q, enum=True), ref
    return CT('obj', name=q), ref


# --------------------------------------------------------------------------- values

class CInt(object):
    def __init__(self, t, bits, signed):
        self.t, self.bits, self.signed = t, bits, signed

    def __repr__(self):
        return 'CInt(%s)' % self.t


class CBool(object):
    def __init__(self, t):
        self.t = t


class CPtr(object):
    """addr: BV64; elem: CT; arr: (array identity term, index BV64) when the pointer walks a C++ array of objects or
    scalars that lives outside the byte memory model (std::vector storage); cap: remaining element count or None"""

    def __init__(self, addr, elem, arr=None, cap=None):
        self.addr, self.elem, self.arr, self.cap = addr, elem, arr, cap


class CObj(object):
    def __init__(self, path, ct):
        self.path, self.ct = path, ct


class LVal(object):
    def __init__(self, kind, ct, **kw):
        self.kind, self.ct = kind, ct
        self.__dict__.update(kw)


def const_int(v, bits, signed):
    return CInt(z3.BitVecVal(v, bits), bits, signed)


def cast_int(v, bits, signed):
    """integral conversion of CInt / CBool to (bits, signed)"""
    if isinstance(v, CBool):
        return CInt(z3.If(v.t, z3.BitVecVal(1, bits), z3.BitVecVal(0, bits)), bits, signed)
    if v.bits == bits:
        return CInt(v.t, bits, signed)
    if v.bits > bits:
        return CInt(z3.Extract(bits - 1, 0, v.t), bits, signed)
    ext = z3.SignExt if v.signed else z3.ZeroExt
    return CInt(ext(bits - v.bits, v.t), bits, signed)


# --------------------------------------------------------------------------- state

class State(object):
    def __init__(self):
        self.pc = []
        self.store = {}       # variable key -> value
        self.objs = {}        # object path -> {attr: value}
        self.mem = None       # z3 array BV64 -> BV8
        self.ghost = {}       # contract ghosts (RLO, RHI, WLO, WHI ...)
        self.elems = {}       # element object path -> (array object path, index term)
        self.ret = None
        self.trace = []
        self.log = []         # what has been inserted into output streams: [(stream path, kind, payload, width, fill, flags)]
        self.calls = []       # qualified names of the functions called directly by the function under verification
        self.frames = []      # frame facts of callees: (memory after, memory before, lo, hi): bytes outside [lo, hi) kept
        self.memdefs = {}     # id of a memory term a callee returned -> MemDef (memory before with one scalar rewritten)

    def copy(self):
        s = State()
        s.pc = list(self.pc)
        s.store = dict(self.store)
        s.objs = {k: dict(v) for k, v in self.objs.items()}
        s.mem = self.mem
        s.ghost = dict(self.ghost)
        s.elems = dict(self.elems)
        s.log = list(self.log)
        s.calls = list(self.calls)
        s.frames = list(self.frames)
        s.memdefs = dict(self.memdefs)
        s.ret = self.ret
        s.trace = list(self.trace)
        return s

    def assume(self, f):
        self.pc.append(f)


class Obligation(object):
    def __init__(self, name, kind, formula, pc, line=None):
        self.name, self.kind, self.formula, self.pc, self.line = name, kind, formula, list(pc), line
        self.verdict, self.backend, self.time_s, self.model = None, None, 0.0, None


# --------------------------------------------------------------------------- contracts

class Contract(object):
    """A contract for one C++ function (all instantiations matched by `match(qualname, signature)`).

      requires(cx, st, args)                       -> [(label, z3 bool)]   checked at call sites, assumed when verifying
      ensures(cx, st0, args0, st1, args1, ret)     -> [(label, z3 bool)]   assumed at call sites, proved when verifying
      modifies: names of reference / pointer-target parameters that the callee may change ('mem' = byte memory)
      setup(cx, st, args): extra ghost state when verifying (regions)
      loops: {ordinal: LoopSpec}
    `args` maps parameter name -> value (for reference parameters of scalar type: the current value)."""

    def __init__(self, name, match, requires=None, ensures=None, modifies=(), setup=None, loops=None, havoc_objs=(),
                 props=(), verify=True, params=None, effect=None):
        self.name, self.match = name, match
        self.effect = effect        # effect(cx, s0, a0, s1, a1, ret): abstract stream-log entries a call contributes
        self.requires = requires or (lambda cx, st, a: [])
        self.ensures = ensures or (lambda cx, st0, a0, st1, a1, ret: [])
        self.modifies, self.setup, self.loops = tuple(modifies), setup, loops or {}
        self.havoc_objs = tuple(havoc_objs)
        self.props, self.verify, self.params = tuple(props), verify, params


class FrameFact(object):
    """postcondition 'every byte outside [lo, hi) is unchanged'.  Proved as a quantified formula when the function that
    promises it is verified; at call sites it is not assumed wholesale but instantiated at the addresses read later."""

    def __init__(self, mem0, mem1, lo, hi):
        self.mem0, self.mem1, self.lo, self.hi = mem0, mem1, lo, hi

    def formula(self):
        x = z3.Const('fa', BV64)
        return z3.ForAll([x], z3.Implies(z3.Or(z3.ULT(x, self.lo), z3.UGE(x, self.hi)),
                                         z3.Select(self.mem1, x) == z3.Select(self.mem0, x)),
                         patterns=[z3.Select(self.mem1, x)])


class MemDef(object):
    """postcondition 'the memory afterwards is the memory before with the n-byte little-endian scalar `value` stored at
    addr'.  Proved as that equation when the promising function is verified; at call sites the equation is assumed and
    also remembered, so that a later read at an address a constant distance away from addr is resolved by the executor
    (read-over-write at syntactically comparable addresses) instead of by the solver."""

    def __init__(self, mem0, mem1, addr, n, of_old):
        # of_old(v): the scalar stored, as a function of the scalar v that mem0 holds at addr (little-endian load)
        # n == 0: the memory afterwards is the memory before
        self.mem0, self.mem1, self.addr, self.n, self.of_old = mem0, mem1, addr, n, of_old
        old = [z3.Select(mem0, addr + z3.BitVecVal(i, 64)) for i in range(n)]
        self.value = of_old(old[0] if n == 1 else z3.Concat(*reversed(old))) if n else None

    def formula(self):
        m = self.mem0
        for i in range(self.n):
            m = z3.Store(m, self.addr + z3.BitVecVal(i, 64), z3.Extract(8 * i + 7, 8 * i, self.value))
        return self.mem1 == m


class LoopSpec(object):
    def __init__(self, invariant, variant=None, modifies=None, lemmas=None):
        """invariant(cx, st, env) -> [(label, z3 bool)]; variant(cx, st, env) -> BV (unsigned, must strictly decrease);
        lemmas(cx, st, env) -> [(text, z3 bool)]: ground instances of axioms about ghost functions, assumed at the start
        of the loop body (each text is listed among the assumptions in the evidence)"""
        self.invariant, self.variant, self.modifies, self.lemmas = invariant, variant, modifies, lemmas


# --------------------------------------------------------------------------- the executor

class Cx(object):
    """one verification context over one AST index"""

    def __init__(self, index, contracts, sizeof_table=None, inline_depth=16, assumptions=None):
        self.ix = index
        self.contracts = list(contracts)
        self.sizeof_table = sizeof_table or {}
        self.inline_depth = inline_depth
        self.obligations = []
        self.assumed = assumptions if assumptions is not None else set()
        self._enum_cache = {}
        self._enums = None
        self.fn_stack = []
        self.covers = {}
        self.paths = 0
        self.current = None          # (qualname, contract) under verification
        self.loop_counter = {}

    # ----- type helpers
    def _collect_enums(self):
        self._enums = {}
        for nid, n in self.ix.by_id.items():
            if n.get('kind') == 'EnumDecl':
                vals, prev = {}, -1
                for c in n.get('inner', []):
                    if c.get('kind') == 'EnumConstantDecl':
                        v = None
                        for cc in c.get('inner', []):
                            v = A.const_value(cc)
                            if v is None:
                                v = self._find_const(cc)
                            if v is not None:
                                break
                        if v is None:
                            v = prev + 1
                        vals[c.get('id')] = v
                        prev = v
                signed = any(v < 0 for v in vals.values())
                name = n.get('name')
                self._enums[nid] = (name, vals, signed)

    def _find_const(self, node):
        if not isinstance(node, dict):
            return None
        v = A.const_value(node)
        if v is not None:
            return v
        for c in node.get('inner', []) or []:
            v = self._find_const(c)
            if v is not None:
                return v
        return None

    def enum_info(self, q):
        """None if q does not name an enum; else signedness of its underlying type"""
        if self._enums is None:
            self._collect_enums()
        if q in self._enum_cache:
            return self._enum_cache[q]
        r = None
        if q.startswith('enum ') or 'unnamed enum' in q:
            r = False
            tail = q[5:] if q.startswith('enum ') else None
        else:
            tail = q
        if tail is not None:
            last = tail.split('::')[-1]
            for nid, (name, vals, signed) in self._enums.items():
                if name and name == last:
                    r = signed
                    break
        if 'unnamed enum' in q:
            # unnamed enums in the headers hold sizes that may be -1
            r = True
        if r is None and tail is not None:
            last = tail.split('::')[-1]
            # enums declared outside the dumped namespace (the raw header's global types): named by the schema, or the
            # `_discriminator` enum of a raw union
            if last == '_discriminator' or last in getattr(self, 'extra_enums', ()):
                r = False
        self._enum_cache[q] = r
        return r

    def enum_constant(self, decl_id):
        if self._enums is None:
            self._collect_enums()
        for nid, (name, vals, signed) in self._enums.items():
            if decl_id in vals:
                return vals[decl_id], signed
        raise OutOfReach('enum constant %s not in the dump' % decl_id)

    def sizeof_obj(self, name):
        name = _strip_cv(name)
        for k in (name, name.split('::')[-1]):
            if k in self.sizeof_table:
                return self.sizeof_table[k][0]
        raise OutOfReach('sizeof(%s) unknown (not in the helper table)' % name)

    def alignof_ct(self, ct):
        if ct.kind == 'int':
            return ct.bits // 8
        if ct.kind == 'obj':
            name = _strip_cv(ct.name)
            for k in (name, name.split('::')[-1]):
                if k in self.sizeof_table:
                    return self.sizeof_table[k][1]
        raise OutOfReach('alignof(%r)' % ct)

    # ----- obligations
    def oblige(self, st, name, formula, kind='assert', line=None):
        full = '%s:%s' % (self.current[0] if self.current else '?', name)
        ob = Obligation(full, kind, formula, st.pc, line)
        ob.frames = list(st.frames)
        self.obligations.append(ob)

    # ----- contracts lookup
    def contract_for(self, fn):
        q, sig = self.ix.qualname(fn), self.ix.signature(fn)
        for c in self.contracts:
            if c.match(q, sig):
                return c
        return None

    # ----- objects
    def obj_attr(self, st, path, attr, sort_or_maker):
        o = st.objs.setdefault(path, {})
        if attr not in o:
            o[attr] = sort_or_maker() if callable(sort_or_maker) else fresh('%s.%s' % (path, attr), sort_or_maker)
        return o[attr]

    def set_attr(self, st, path, attr, val):
        st.objs.setdefault(path, {})[attr] = val

    def havoc_obj(self, st, path):
        """forget everything known about the object at `path` and below; when it is an element of an array object the
        array's version is bumped (the ghost sum of element sizes keeps its prefix up to that element)"""
        for k in list(st.objs.keys()):
            if k == path or k.startswith(path + '.') or k.startswith(path + '['):
                del st.objs[k]
        st.objs[path] = {'__version': next(_counter)}
        if path in st.elems:
            base, idx = st.elems[path]
            old = self.arr_id(st, base)
            new = fresh('arr', BV64)
            st.objs.setdefault(base, {})['arr'] = new
            f = self._sumsize_fn()
            st.assume(f(new, z3.BitVecVal(0, 64)) == 0)
            st.assume(f(new, idx) == f(old, idx))

    def elem_path(self, st, base, idx):
        idx = z3.simplify(idx)
        path = '%s[%s]' % (base, idx)
        st.elems[path] = (base, idx)
        return path

    def vec_size(self, st, path):
        known = 'size' in st.objs.get(path, {})
        v = self.obj_attr(st, path, 'size', BV64)
        if not known:
            st.assume(z3.ULT(v, z3.BitVecVal(1 << 48, 64)))       # environment: fewer than 2^48 elements
        return v

    def vector_elem(self, ct):
        """element type of std::vector<T, ...> / prophy::array<T, N>"""
        name = ct.name
        inner = name[name.index('<') + 1:name.rindex('>')]
        depth, cur = 0, ''
        for ch in inner:
            if ch == '<':
                depth += 1
            elif ch == '>':
                depth -= 1
            if ch == ',' and depth == 0:
                break
            cur += ch
        return parse_qual(self, cur.strip())[0]

    def gbs(self, st, path):
        if path in st.elems:
            base, idx = st.elems[path]
            f, a = self._sumsize_fn(), self.arr_id(st, base)
            return f(a, idx + 1) - f(a, idx)
        return self.obj_attr(st, path, 'gbs', BV64)

    def _sumsize_fn(self):
        return z3.Function('sumsize', BV64, BV64, BV64)

    def arr_id(self, st, path):
        o = st.objs.setdefault(path, {})
        if 'arr' not in o:
            o['arr'] = fresh('arr', BV64)
            st.assume(self._sumsize_fn()(o['arr'], z3.BitVecVal(0, 64)) == 0)
        return o['arr']

    # ----- loads / stores
    def load(self, st, lv):
        if lv.kind == 'var':
            if lv.key not in st.store:
                st.store[lv.key] = self.fresh_value(lv.ct, lv.key)
            v = st.store[lv.key]
            return self.reinterpret(v, lv.ct)
        if lv.kind == 'field':
            if lv.ct.kind == 'obj':
                return CObj(lv.path + '.' + lv.name, lv.ct)
            o = st.objs.setdefault(lv.path, {})
            if lv.name not in o:
                o[lv.name] = self.fresh_value(lv.ct, '%s.%s' % (lv.path, lv.name))
            return self.reinterpret(o[lv.name], lv.ct)
        if lv.kind == 'mem':
            return self.read_mem(st, lv.addr, lv.ct, lv.aligned_check)
        if lv.kind == 'elem':
            if lv.ct.kind == 'obj':
                return CObj(self.elem_path(st, lv.base_path, lv.idx), lv.ct)
            # scalar element of an opaque array: an uninterpreted function of (array, version, index)
            f = z3.Function('elem%d' % lv.ct.bits, BV64, BV64, z3.BitVecSort(lv.ct.bits))
            return CInt(f(lv.arr, lv.idx), lv.ct.bits, lv.ct.signed)
        if lv.kind == 'obj':
            return CObj(lv.path, lv.ct)
        raise OutOfReach('load of lvalue kind %s' % lv.kind)

    def reinterpret(self, v, ct):
        if ct.kind == 'int' and isinstance(v, CInt):
            if v.bits != ct.bits:
                raise OutOfReach('reinterpretation changes width')
            return CInt(v.t, ct.bits, ct.signed)
        return v

    def store(self, st, lv, v):
        if lv.kind == 'var':
            st.store[lv.key] = v
        elif lv.kind == 'field':
            if lv.ct.kind == 'obj':
                self.havoc_obj(st, lv.path + '.' + lv.name)
            else:
                st.objs.setdefault(lv.path, {})[lv.name] = v
        elif lv.kind == 'mem':
            self.write_mem(st, lv.addr, lv.ct, v)
        elif lv.kind == 'elem':
            # element of an opaque output array (std::vector storage): bounds by capacity obligation, value not tracked
            if lv.cap is not None:
                self.oblige(st, 'array.write.in_capacity', z3.UGT(lv.cap, z3.BitVecVal(0, 64)), 'safety')
            if lv.ct.kind == 'obj':
                self.havoc_obj(st, self.elem_path(st, lv.base_path, lv.idx))
        elif lv.kind == 'obj':
            self.havoc_obj(st, lv.path)
        else:
            raise OutOfReach('store to lvalue kind %s' % lv.kind)

    def fresh_value(self, ct, hint):
        if ct.kind == 'int':
            return CInt(fresh(hint, z3.BitVecSort(ct.bits)), ct.bits, ct.signed)
        if ct.kind == 'bool':
            return CBool(fresh(hint, z3.BoolSort()))
        if ct.kind == 'ptr':
            return CPtr(fresh(hint, BV64), ct.elem)
        if ct.kind == 'obj':
            return CObj(hint, ct)
        raise OutOfReach('fresh value of %r' % ct)

    def read_mem(self, st, addr, ct, aligned_check=False):
        if ct.kind != 'int':
            raise OutOfReach('memory read of %r' % ct)
        n = ct.bits // 8
        self.region_ob(st, 'read', addr, n)
        if aligned_check and n > 1:
            self.oblige(st, 'read.aligned%d' % n, (addr & z3.BitVecVal(n - 1, 64)) == 0, 'ub')
        mem, wrap = st.mem, []
        while mem.get_id() in st.memdefs:
            # read over a callee's single-scalar write whose address differs from this one by a constant: the same
            # scalar -> the value written; disjoint bytes (modulo 2^64, decided on the constant) -> the memory before
            d = st.memdefs[mem.get_id()]
            if isinstance(d, FrameFact):
                # a callee that keeps every byte outside [lo, hi): a read entailed (by the path condition, small solver
                # query) to lie outside is a read of the memory before the call
                if self._entails_outside(st, addr, n, d.lo, d.hi):
                    mem = d.mem0
                    continue
                break
            if d.n == 0:
                mem = d.mem0
                continue
            delta = z3.simplify(addr - d.addr)
            if not z3.is_bv_value(delta):
                if self._entails_outside(st, addr, n, d.addr, d.addr + z3.BitVecVal(d.n, 64)):
                    mem = d.mem0
                    continue
                break
            k = delta.as_signed_long()
            if k == 0 and n == d.n:
                wrap.append(d.of_old)       # the scalar written there, in terms of the one the memory before holds
                mem = d.mem0
                continue
            if k >= d.n or k <= -n:
                mem = d.mem0
                continue
            break
        bs = [z3.Select(mem, addr + z3.BitVecVal(i, 64)) for i in range(n)]
        for fr in st.frames:
            # ground instances of the callees' frame conditions at the bytes read now
            for i in range(n):
                a = addr + z3.BitVecVal(i, 64)
                st.assume(z3.Implies(z3.Or(z3.ULT(a, fr.lo), z3.UGE(a, fr.hi)), z3.Select(fr.mem1, a) == z3.Select(fr.mem0, a)))
        t = bs[0] if n == 1 else z3.Concat(*reversed(bs))      # little-endian host
        for f in reversed(wrap):
            t = f(t)
        return CInt(t, ct.bits, ct.signed)

    def _entails_outside(self, st, addr, n, lo, hi):
        """does the path condition entail that the n bytes at addr lie outside [lo, hi) (no wrap-around anywhere)?
        Only a definite `unsat` of the negation counts; the read stays on the later memory otherwise."""
        end = addr + z3.BitVecVal(n, 64)
        f = z3.And(z3.ULE(addr, end), z3.ULE(lo, hi), z3.Or(z3.ULE(end, lo), z3.UGE(addr, hi)))
        s = z3.Solver()
        s.set('timeout', 400)
        s.add(*st.pc)
        s.add(z3.Not(f))
        return s.check() == z3.unsat

    def write_mem(self, st, addr, ct, v):
        if ct.kind != 'int':
            raise OutOfReach('memory write of %r' % ct)
        n = ct.bits // 8
        self.region_ob(st, 'write', addr, n)
        v = cast_int(v, ct.bits, ct.signed)
        for i in range(n):
            st.mem = z3.Store(st.mem, addr + z3.BitVecVal(i, 64), z3.Extract(8 * i + 7, 8 * i, v.t))

    def region_ob(self, st, what, addr, n):
        lo, hi = ('RLO', 'RHI') if what == 'read' else ('WLO', 'WHI')
        if lo not in st.ghost:
            raise OutOfReach('%s of byte memory in a function whose contract declares no %s region' % (what, what))
        last = addr + z3.BitVecVal(n - 1, 64)
        self.oblige(st, '%s.in_region' % what,
                    z3.And(z3.ULE(st.ghost[lo], addr), z3.ULE(addr, last), z3.ULT(last, st.ghost[hi])), 'safety')

    # ----- expression evaluation: returns list of (state, value); value may be LVal for lvalue expressions
    def rvalue(self, st, node):
        out = []
        for s, v in self.eval(st, node):
            if isinstance(v, LVal):
                v = self.load(s, v)
            out.append((s, v))
        return out

    def truth(self, v):
        if isinstance(v, CBool):
            return v.t
        if isinstance(v, CInt):
            return v.t != z3.BitVecVal(0, v.bits)
        if isinstance(v, CPtr):
            return v.addr != z3.BitVecVal(0, 64)
        if isinstance(v, tuple) and v and v[0] == 'strlit':
            return z3.BoolVal(True)         # a string literal is a non-null pointer
        raise OutOfReach('truth value of %r' % (v,))

    def eval(self, st, node):
        k = node.get('kind')
        m = getattr(self, 'e_' + k, None)
        if m is None:
            raise OutOfReach('expression kind %s' % k)
        return m(st, node)

    def kids(self, node):
        return [c for c in node.get('inner', []) if isinstance(c, dict) and 'kind' in c]

    def ntype(self, node):
        return parse_type(self, node.get('type', {}))[0]

    def e_ParenExpr(self, st, node):
        return self.eval(st, self.kids(node)[0])

    e_ExprWithCleanups = e_ParenExpr
    e_MaterializeTemporaryExpr = e_ParenExpr
    e_CXXBindTemporaryExpr = e_ParenExpr
    e_SubstNonTypeTemplateParmExpr = lambda self, st, node: self.eval(st, self.kids(node)[-1])

    def e_ConstantExpr(self, st, node):
        ct = self.ntype(node)
        if 'value' in node and ct.kind == 'int':
            return [(st, const_int(int(node['value']), ct.bits, ct.signed))]
        if 'value' in node and ct.kind == 'bool':
            return [(st, CBool(z3.BoolVal(node['value'] in ('true', '1', True))))]
        return self.eval(st, self.kids(node)[0])

    def e_IntegerLiteral(self, st, node):
        ct = self.ntype(node)
        return [(st, const_int(int(node['value']), ct.bits, ct.signed))]

    def e_StringLiteral(self, st, node):
        v = node.get('value', '""')
        if v.startswith('"') and v.endswith('"'):
            v = v[1:-1]
        return [(st, ('strlit', v))]

    def e_CharacterLiteral(self, st, node):
        ct = self.ntype(node)
        return [(st, const_int(int(node['value']), ct.bits or 8, ct.signed))]

    def e_CXXBoolLiteralExpr(self, st, node):
        return [(st, CBool(z3.BoolVal(bool(node.get('value')))))]

    def e_CXXScalarValueInitExpr(self, st, node):
        ct = self.ntype(node)
        if ct.kind == 'int':
            return [(st, const_int(0, ct.bits, ct.signed))]
        if ct.kind == 'bool':
            return [(st, CBool(z3.BoolVal(False)))]
        raise OutOfReach('value-initialisation of %r' % ct)

    def e_UnaryExprOrTypeTraitExpr(self, st, node):
        if node.get('name') != 'sizeof':
            raise OutOfReach(node.get('name'))
        if 'argType' in node:
            ct, _ = parse_type(self, node['argType'])
        else:
            ct = self.ntype(self.kids(node)[0])
        return [(st, const_int(ct.size(self), 64, False))]

    def e_DeclRefExpr(self, st, node):
        ref = node['referencedDecl']
        rk = ref.get('kind')
        if rk == 'EnumConstantDecl':
            v, signed = self.enum_constant(ref['id'])
            return [(st, CInt(z3.BitVecVal(v, 32), 32, signed))]
        if rk in ('ParmVarDecl', 'VarDecl'):
            ct, _ = parse_type(self, ref.get('type', {}))
            env = self.fn_stack[-1]['env']
            if ref['id'] not in env:
                raise OutOfReach('variable %s not bound' % ref.get('name'))
            return [(st, env[ref['id']])]
        if rk in A.FUNC_KINDS:
            return [(st, ('fn', ref['id'], ref))]
        raise OutOfReach('reference to %s' % rk)

    def e_CXXThisExpr(self, st, node):
        env = self.fn_stack[-1]['env']
        if 'this' not in env:
            raise OutOfReach('this')
        return [(st, env['this'])]

    def e_MemberExpr(self, st, node):
        out = []
        base_node = self.kids(node)[0]
        ct = self.ntype(node)
        for s, b in self.eval(st, base_node):
            if isinstance(b, LVal) and b.kind == 'rawobj':
                out.append((s, self.raw_member(s, b.addr, b.ct, node, ct)))
                continue
            if isinstance(b, LVal):
                b = self.load(s, b) if b.ct.kind != 'obj' else CObj(self._lv_path(b, s), b.ct)
            if node.get('isArrow') and isinstance(b, CPtr) and b.arr is None and not getattr(b, 'obj_path', None) \
                    and b.elem.kind == 'obj' and self.raw_offsets is not None:
                # pointer into byte memory typed as a raw (packed) struct: payload->field
                out.append((s, self.raw_member(s, b.addr, b.elem, node, ct)))
                continue
            if node.get('isArrow'):
                if isinstance(b, CPtr) and b.arr is not None:
                    b = CObj(self.elem_path(s, b.base_path, b.arr[1]), b.elem)
                elif isinstance(b, CPtr) and getattr(b, 'obj_path', None):
                    b = CObj(b.obj_path, b.elem)
                else:
                    raise OutOfReach('-> on a pointer that is not an object pointer')
            if not isinstance(b, CObj):
                raise OutOfReach('member of non-object')
            name = node.get('name')
            if ct.kind == 'obj' and ct.name == '<bound member function type>':
                out.append((s, ('method', b, name, node.get('referencedMemberDecl'))))
            else:
                out.append((s, LVal('field', ct, path=b.path, name=name)))
        return out

    raw_offsets = None      # {(record name, field name): byte offset} measured by g++ for the raw (packed) structs

    def raw_member(self, st, addr, rec_ct, node, field_ct):
        """lvalue of `field` of the raw struct at byte address addr (layout: offsets measured by g++, listed as such)"""
        rec = _strip_cv(rec_ct.name or '')
        name = node.get('name')
        off = self.raw_offsets.get((rec, name))
        if off is None and ('anonymous' in rec or 'unnamed' in rec):
            off = 0             # an arm inside the anonymous union of a raw union struct: all arms start the union
        if off is None and not name:
            off = self.raw_offsets.get((rec, ''))       # the anonymous union member itself
        if off is None:
            raise OutOfReach('offsetof(%s, %s) not in the measured layout table' % (rec, name))
        a = addr + z3.BitVecVal(off, 64)
        if field_ct.kind == 'int':
            return LVal('mem', field_ct, addr=a, aligned_check=False)
        if field_ct.kind == 'arr':
            return LVal('rawarr', field_ct, addr=a)
        if field_ct.kind == 'obj':
            return LVal('rawobj', field_ct, addr=a)
        raise OutOfReach('raw member of type %r' % field_ct)

    def _lv_path(self, lv, st):
        if lv.kind == 'var':
            return lv.key
        if lv.kind == 'field':
            return lv.path + '.' + lv.name
        if lv.kind == 'obj':
            return lv.path
        if lv.kind == 'elem':
            return self.elem_path(st, lv.base_path, lv.idx)
        raise OutOfReach('path of lvalue kind %s' % lv.kind)

    def e_ImplicitCastExpr(self, st, node):
        ck = node.get('castKind')
        sub = self.kids(node)[0]
        ct = self.ntype(node)
        if ck == 'LValueToRValue':
            return self.rvalue(st, sub)
        if ck in ('NoOp', 'FunctionToPointerDecay', 'ConstructorConversion', 'UserDefinedConversion',
                  'DerivedToBase', 'UncheckedDerivedToBase'):
            return self.eval(st, sub)
        if ck == 'BaseToDerived':
            # static_cast<T*>(this) in message<T>: same object, seen as the derived class
            out = []
            for s, v in self.rvalue(st, sub):
                if not (isinstance(v, CPtr) and getattr(v, 'obj_path', None)):
                    raise OutOfReach('BaseToDerived of a pointer without object provenance')
                p = CPtr(v.addr, ct.elem)
                p.obj_path = v.obj_path
                out.append((s, p))
            return out
        if ck == 'ArrayToPointerDecay':
            if sub.get('kind') == 'StringLiteral':
                return self.eval(st, sub)
            out = []
            for s, v in self.eval(st, sub):
                if isinstance(v, LVal) and v.kind == 'rawarr':
                    out.append((s, CPtr(v.addr, v.ct.elem)))        # member array of a raw struct: its first element
                else:
                    raise OutOfReach('array decay')
            return out
        out = []
        if ck == 'LValueBitCast':
            for s, v in self.eval(st, sub):
                if not isinstance(v, LVal):
                    raise OutOfReach('LValueBitCast of non-lvalue')
                if v.ct.kind != 'int' or ct.kind != 'int' or v.ct.bits != ct.bits:
                    raise OutOfReach('LValueBitCast between %r and %r' % (v.ct, ct))
                nv = LVal(v.kind, ct, **{k: x for k, x in v.__dict__.items() if k not in ('kind', 'ct')})
                out.append((s, nv))
            return out
        for s, v in self.rvalue(st, sub):
            if ck == 'IntegralCast':
                out.append((s, cast_int(v, ct.bits, ct.signed)))
            elif ck in ('IntegralToBoolean', 'PointerToBoolean', 'MemberPointerToBoolean'):
                out.append((s, CBool(self.truth(v))))
            elif ck == 'BitCast':
                if not isinstance(v, CPtr):
                    raise OutOfReach('BitCast of non-pointer')
                out.append((s, CPtr(v.addr, ct.elem, None, None)))
            elif ck == 'NullToPointer':
                out.append((s, CPtr(z3.BitVecVal(0, 64), ct.elem)))
            elif ck == 'PointerToIntegral':
                out.append((s, CInt(v.addr, 64, ct.signed)))
            elif ck == 'IntegralToPointer':
                out.append((s, CPtr(cast_int(v, 64, False).t, ct.elem)))
            else:
                raise OutOfReach('cast kind %s' % ck)
        return out

    e_CXXFunctionalCastExpr = e_ImplicitCastExpr
    e_CStyleCastExpr = e_ImplicitCastExpr
    e_CXXStaticCastExpr = e_ImplicitCastExpr
    e_CXXReinterpretCastExpr = e_ImplicitCastExpr
    e_CXXConstCastExpr = e_ImplicitCastExpr

    def e_UnaryOperator(self, st, node):
        op = node.get('opcode')
        sub = self.kids(node)[0]
        ct = self.ntype(node)
        out = []
        if op in ('++', '--'):
            for s, lv in self.eval(st, sub):
                old = self.load(s, lv)
                one = 1 if op == '++' else -1
                if isinstance(old, CPtr):
                    new = self.ptr_add(s, old, const_int(one, 64, True))
                else:
                    new = self.arith(s, '+', old, const_int(one, old.bits, old.signed), node)
                self.store(s, lv, new)
                out.append((s, old if node.get('isPostfix') else lv))
            return out
        if op == '*':
            for s, p in self.rvalue(st, sub):
                out.append((s, self.deref(s, p, ct)))
            return out
        if op == '&':
            for s, lv in self.eval(st, sub):
                if not isinstance(lv, LVal):
                    raise OutOfReach('& of non-lvalue')
                if lv.kind in ('rawobj', 'rawarr'):
                    out.append((s, CPtr(lv.addr, lv.ct)))
                elif lv.ct.kind == 'obj':
                    p = CPtr(fresh('addrof', BV64), lv.ct)
                    p.obj_path = self._lv_path(lv, s)
                    out.append((s, p))
                elif lv.kind == 'mem':
                    out.append((s, CPtr(lv.addr, lv.ct)))
                else:
                    p = CPtr(fresh('addrof', BV64), lv.ct)
                    p.scalar_lv = lv
                    out.append((s, p))
            return out
        for s, v in self.rvalue(st, sub):
            if op == '!':
                out.append((s, CBool(z3.Not(self.truth(v)))))
            elif op == '~':
                out.append((s, CInt(~v.t, v.bits, v.signed)))
            elif op == '-':
                if v.signed:
                    self.oblige(s, 'neg.no_overflow', v.t != z3.BitVecVal(1 << (v.bits - 1), v.bits), 'ub')
                out.append((s, CInt(-v.t, v.bits, v.signed)))
            elif op == '+':
                out.append((s, v))
            else:
                raise OutOfReach('unary %s' % op)
        return out

    def deref(self, st, p, ct):
        if not isinstance(p, CPtr):
            raise OutOfReach('dereference of non-pointer')
        if getattr(p, 'scalar_lv', None) is not None:
            return p.scalar_lv
        if getattr(p, 'obj_path', None):
            return LVal('obj', p.elem, path=p.obj_path)
        if p.arr is not None:
            return LVal('elem', p.elem, arr=p.arr[0], idx=p.arr[1], base_path=p.base_path, cap=p.cap)
        if p.elem.kind == 'int':
            return LVal('mem', p.elem, addr=p.addr, aligned_check=True)
        if p.elem.kind == 'obj' and self.raw_offsets is not None:
            return LVal('rawobj', p.elem, addr=p.addr)
        raise OutOfReach('dereference of %r pointer without provenance' % p.elem)

    def ptr_add(self, st, p, n):
        n64 = cast_int(n, 64, n.signed)
        if p.arr is not None:
            q = CPtr(p.addr + n64.t * z3.BitVecVal(max(1, self._elem_size(p.elem)), 64), p.elem,
                     (p.arr[0], p.arr[1] + n64.t), None if p.cap is None else p.cap - n64.t)
            q.base_path = p.base_path
            return q
        sz = self._elem_size(p.elem)
        return CPtr(p.addr + n64.t * z3.BitVecVal(sz, 64), p.elem)

    def _elem_size(self, ct):
        if ct.kind == 'void':
            return 1
        return ct.size(self)

    def arith(self, st, op, a, b, node):
        bits, signed = a.bits, a.signed
        x, y = a.t, b.t
        if op in ('+', '-', '*') and signed:
            f = {'+': (z3.BVAddNoOverflow, z3.BVAddNoUnderflow), '-': (z3.BVSubNoOverflow, z3.BVSubNoUnderflow),
                 '*': (z3.BVMulNoOverflow, z3.BVMulNoUnderflow)}[op]
            if op == '-':
                ok = z3.And(f[0](x, y), f[1](x, y, True))
            else:
                ok = z3.And(f[0](x, y, True), f[1](x, y))
            self.oblige(st, 'signed%s.no_overflow' % op, ok, 'ub', node.get('range', {}).get('begin', {}).get('line'))
        if op == '+':
            return CInt(x + y, bits, signed)
        if op == '-':
            return CInt(x - y, bits, signed)
        if op == '*':
            return CInt(x * y, bits, signed)
        if op in ('/', '%'):
            self.oblige(st, 'div.nonzero', y != z3.BitVecVal(0, bits), 'ub')
            if signed:
                self.oblige(st, 'div.no_overflow', z3.Not(z3.And(x == z3.BitVecVal(1 << (bits - 1), bits),
                                                              y == z3.BitVecVal(-1, bits))), 'ub')
                return CInt(x / y if op == '/' else z3.SRem(x, y), bits, signed)
            return CInt(z3.UDiv(x, y) if op == '/' else z3.URem(x, y), bits, signed)
        if op == '&':
            return CInt(x & y, bits, signed)
        if op == '|':
            return CInt(x | y, bits, signed)
        if op == '^':
            return CInt(x ^ y, bits, signed)
        raise OutOfReach('arith %s' % op)

    def shift(self, st, op, a, b):
        amount = cast_int(b, a.bits, False)
        self.oblige(st, 'shift.amount', z3.ULT(amount.t, z3.BitVecVal(a.bits, a.bits)), 'ub')
        if b.signed:
            self.oblige(st, 'shift.nonneg', b.t >= 0, 'ub')
        if op == '<<':
            if a.signed:
                # C++11: left shift of a negative value / into the sign bit is UB
                wide = z3.ZeroExt(a.bits, a.t) << z3.ZeroExt(a.bits, amount.t)
                self.oblige(st, 'shl.signed', z3.And(a.t >= 0, z3.ULT(wide, z3.BitVecVal(1 << (a.bits - 1), 2 * a.bits))),
                            'ub')
            return CInt(a.t << amount.t, a.bits, a.signed)
        return CInt((a.t >> amount.t) if a.signed else z3.LShR(a.t, amount.t), a.bits, a.signed)

    def compare(self, op, a, b):
        if isinstance(a, CPtr) and isinstance(b, CPtr):
            x, y, signed = a.addr, b.addr, False
        elif isinstance(a, CBool) or isinstance(b, CBool):
            x, y = self.truth(a), self.truth(b)
            if op == '==':
                return CBool(x == y)
            if op == '!=':
                return CBool(x != y)
            raise OutOfReach('ordering of bools')
        else:
            x, y, signed = a.t, b.t, a.signed
        if op == '==':
            return CBool(x == y)
        if op == '!=':
            return CBool(x != y)
        f = {'<': (z3.ULT, lambda p, q: p < q), '<=': (z3.ULE, lambda p, q: p <= q),
             '>': (z3.UGT, lambda p, q: p > q), '>=': (z3.UGE, lambda p, q: p >= q)}[op]
        return CBool(f[1](x, y) if signed else f[0](x, y))

    def e_BinaryOperator(self, st, node):
        op = node.get('opcode')
        l, r = self.kids(node)
        out = []
        if op == '=':
            for s1, lv in self.eval(st, l):
                for s2, v in self.rvalue(s1, r):
                    self.store(s2, lv, v)
                    out.append((s2, lv))
            return out
        if op in ('&&', '||'):
            for s1, a in self.rvalue(st, l):
                ta = self.truth(a)
                # short circuit: the right operand is evaluated only on one branch
                s_eval, s_skip = s1.copy(), s1.copy()
                s_eval.assume(ta if op == '&&' else z3.Not(ta))
                s_skip.assume(z3.Not(ta) if op == '&&' else ta)
                if self.feasible(s_skip):
                    out.append((s_skip, CBool(z3.BoolVal(op == '||'))))
                if self.feasible(s_eval):
                    for s2, b in self.rvalue(s_eval, r):
                        out.append((s2, CBool(self.truth(b))))
            return out
        if op == ',':
            for s1, _ in self.rvalue(st, l):
                out.extend(self.eval(s1, r))
            return out
        for s1, a in self.rvalue(st, l):
            for s2, b in self.rvalue(s1, r):
                out.append((s2, self.binop(s2, op, a, b, node)))
        return out

    def binop(self, st, op, a, b, node):
        if op in ('<', '>', '<=', '>=', '==', '!='):
            return self.compare(op, a, b)
        if isinstance(a, CPtr) and isinstance(b, CPtr) and op == '-':
            sz = self._elem_size(a.elem)
            d = a.addr - b.addr
            if sz != 1:
                d = d / z3.BitVecVal(sz, 64)
            return CInt(d, 64, True)
        if isinstance(a, CPtr) and op in ('+', '-'):
            return self.ptr_add(st, a, b if op == '+' else CInt(-cast_int(b, 64, b.signed).t, 64, True))
        if isinstance(b, CPtr) and op == '+':
            return self.ptr_add(st, b, a)
        if op in ('<<', '>>'):
            return self.shift(st, op, a, b)
        if isinstance(a, CBool):
            a = cast_int(a, 32, True)
        if isinstance(b, CBool):
            b = cast_int(b, 32, True)
        if a.bits != b.bits:
            raise OutOfReach('operands of %s have different widths (%d, %d)' % (op, a.bits, b.bits))
        return self.arith(st, op, a, b, node)

    def e_CompoundAssignOperator(self, st, node):
        op = node.get('opcode')[:-1]
        l, r = self.kids(node)
        out = []
        for s1, lv in self.eval(st, l):
            for s2, b in self.rvalue(s1, r):
                a = self.load(s2, lv)
                if isinstance(a, CPtr):
                    v = self.ptr_add(s2, a, b if op == '+' else CInt(-cast_int(b, 64, b.signed).t, 64, True))
                else:
                    # the computation type is given by clang
                    cct, _ = parse_type(self, node.get('computeResultType', node.get('type', {})))
                    aa = cast_int(a, cct.bits, cct.signed) if cct.kind == 'int' else a
                    bb = cast_int(b, cct.bits, cct.signed) if cct.kind == 'int' and op not in ('<<', '>>') else b
                    v = self.shift(s2, op, aa, bb) if op in ('<<', '>>') else self.arith(s2, op, aa, bb, node)
                    v = cast_int(v, a.bits, a.signed)
                self.store(s2, lv, v)
                out.append((s2, lv))
        return out

    def e_ConditionalOperator(self, st, node):
        c, a, b = self.kids(node)
        out = []
        for s1, cv in self.rvalue(st, c):
            t = self.truth(cv)
            sa, sb = s1.copy(), s1.copy()
            sa.assume(t)
            sb.assume(z3.Not(t))
            if self.feasible(sa):
                out.extend(self.rvalue(sa, a))
            if self.feasible(sb):
                out.extend(self.rvalue(sb, b))
        return out

    def e_ArraySubscriptExpr(self, st, node):
        base, idx = self.kids(node)
        ct = self.ntype(node)
        out = []
        for s1, p in self.rvalue(st, base):
            for s2, i in self.rvalue(s1, idx):
                q = self.ptr_add(s2, p, i)
                lv = self.deref(s2, q, ct)
                if lv.kind == 'mem':
                    lv.aligned_check = False if ct.bits == 8 else True
                out.append((s2, lv))
        return out

    def e_CXXDefaultArgExpr(self, st, node):
        raise OutOfReach('default argument outside a call')

    # ----- object expressions (optional<T> temporaries): evaluated to a small description
    def e_CXXConstructExpr(self, st, node):
        ct = self.ntype(node)
        args = self.kids(node)
        if ct.kind == 'obj' and (ct.name or '').endswith('indent_t') and len(args) == 1:
            # prophy::detail::indent_t(level): a one-field value object
            out = []
            for s, v in self.rvalue(st, args[0]):
                if isinstance(v, CObj):
                    out.append((s, v))          # copy construction
                    continue
                path = 'indent_t!%d' % next(_counter)
                s.objs[path] = {'level': cast_int(v, 32, True)}        # indent_t(int level_): level(level_)
                out.append((s, CObj(path, ct)))
            return out
        if ct.kind == 'obj' and 'optional<' in ct.name:
            if not args:
                return [(st, ('optional', z3.BoolVal(False)))]
            out = []
            for s, v in self.eval(st, args[0]):
                if isinstance(v, tuple) and v and v[0] == 'optional':
                    out.append((s, v))
                elif isinstance(v, LVal) and v.ct.kind == 'obj' and 'optional<' in v.ct.name:
                    out.append((s, ('optional', self.obj_attr(s, self._lv_path(v, s), 'engaged', z3.BoolSort()))))
                else:
                    out.append((s, ('optional', z3.BoolVal(True))))
            return out
        if not args:
            return [(st, ('object', ct))]
        if len(args) == 1 and 'iterator' in (ct.name or ''):
            return self.eval(st, args[0])          # copy of v.begin() / v.end()
        if len(args) == 1 and 'pair<' in (ct.name or ''):
            # copy of a std::pair value (bytes): the copy is only read, so it may share the source's attributes
            out = []
            for s, v in self.eval(st, args[0]):
                if isinstance(v, LVal) and v.ct.kind == 'obj':
                    out.append((s, CObj(self._lv_path(v, s), ct)))
                elif isinstance(v, CObj):
                    out.append((s, CObj(v.path, ct)))
                else:
                    out.append((s, ('object', ct)))
            return out
        # copy / conversion construction of other class types: value not tracked
        return [(st, ('object', ct))]

    e_CXXTemporaryObjectExpr = e_CXXConstructExpr

    # ----- calls
    def e_CallExpr(self, st, node):
        kids = self.kids(node)
        out = []
        for s, callee in self.eval(st, kids[0]):
            out.extend(self.call(s, callee, kids[1:], node))
        return out

    e_CXXMemberCallExpr = e_CallExpr

    def e_CXXOperatorCallExpr(self, st, node):
        kids = self.kids(node)
        out = []
        for s, callee in self.eval(st, kids[0]):
            if not (isinstance(callee, tuple) and callee[0] == 'fn'):
                raise OutOfReach('operator call')
            name = callee[2].get('name')
            out.extend(self.operator_call(s, name, callee, kids[1:], node))
        return out

    def operator_call(self, st, name, callee, argn, node):
        out = []
        if name == 'operator=':
            for s1, lv in self.eval(st, argn[0]):
                if not (isinstance(lv, LVal) and lv.ct.kind == 'obj'):
                    raise OutOfReach('operator= on non-object')
                path = self._lv_path(lv, s1)
                for s2, v in self.eval(s1, argn[1]):
                    self.havoc_obj(s2, path)
                    if isinstance(v, tuple) and v[0] == 'optional':
                        self.set_attr(s2, path, 'engaged', v[1])
                    out.append((s2, lv))
            return out
        if name == 'operator*':
            for s1, lv in self.eval(st, argn[0]):
                if isinstance(lv, LVal) and lv.ct.kind == 'obj' and 'optional<' in lv.ct.name:
                    path = self._lv_path(lv, s1)
                    eng = self.obj_attr(s1, path, 'engaged', z3.BoolSort())
                    self.oblige(s1, 'optional.deref.engaged', eng, 'ub')
                    ct = self.ntype(node)
                    out.append((s1, LVal('field', ct, path=path, name='value')))
                else:
                    raise OutOfReach('operator* on %r' % (lv,))
            return out
        if name == 'operator<<':
            return self.stream_insert(st, callee, argn, node)
        if name == 'operator!':
            for s1, lv in self.eval(st, argn[0]):
                if isinstance(lv, LVal) and lv.ct.kind == 'obj' and 'optional<' in lv.ct.name:
                    eng = self.obj_attr(s1, self._lv_path(lv, s1), 'engaged', z3.BoolSort())
                    out.append((s1, CBool(z3.Not(eng))))
                else:
                    raise OutOfReach('operator! on %r' % (lv,))
            return out
        raise OutOfReach('operator call %s' % name)

    # ----- std::ostream (assumed contracts): sticky flags and fill, width consumed by the next insertion
    def is_stream(self, ct):
        n = (ct.name or '') if ct is not None and ct.kind == 'obj' else ''
        return 'ostream' in n or 'ios_base' in n or 'basic_ios' in n

    def stream_attrs(self, st, path):
        fl = self.obj_attr(st, path, 'flags', z3.BitVecSort(32))
        fi = self.obj_attr(st, path, 'fill', z3.BitVecSort(8))
        w = self.obj_attr(st, path, 'width', BV64)
        return fl, fi, w

    def stream_insert(self, st, callee, argn, node):
        """out << v for the std:: overloads (declarations outside the dump); prophy's own overloads go through their
        contracts / bodies"""
        fn = self.ix.decl(callee[1])
        if fn is not None and (self.contract_for(fn) is not None or self.ix.has_body(fn)):
            c = self.contract_for(fn)
            if c is not None and not (self.current and self.current[2] is fn):
                return self.call_by_contract(st, fn, c, argn, node)
            return self.inline(st, fn, argn, node)
        sig = callee[2].get('type', {}).get('qualType', '')
        ptypes = _split_params(sig)
        vtype = ptypes[-1].strip() if ptypes else ''
        out = []
        for s1, lv in self.eval(st, argn[0]):
            if isinstance(lv, CObj) and self.is_stream(lv.ct):
                lv = LVal('obj', lv.ct, path=lv.path)
            if not (isinstance(lv, LVal) and self.is_stream(lv.ct)):
                raise OutOfReach('operator<< on %r' % (lv,))
            path = self._lv_path(lv, s1)
            for s2, v in self.rvalue(s1, argn[1]):
                fl, fi, w = self.stream_attrs(s2, path)
                self.assumed.add('std::ostream (assumed contract): flags and fill are sticky, width applies to the next '
                                 'insertion and is then reset to 0; std::hex sets the number base in the flags')
                if isinstance(v, tuple) and v[0] == 'fn':
                    mname = v[2].get('name')
                    if mname not in ('hex', 'dec', 'oct'):
                        raise OutOfReach('stream manipulator %s' % mname)
                    f = z3.Function('setbase_' + mname, z3.BitVecSort(32), z3.BitVecSort(32))
                    self.set_attr(s2, path, 'flags', f(fl))
                    out.append((s2, lv))
                    continue
                if isinstance(v, tuple) and v[0] == 'strlit':
                    entry = ('str', v[1])
                elif isinstance(v, CPtr):
                    entry = ('cstr', v.addr)
                elif isinstance(v, CInt):
                    entry = ('char', v.t) if vtype == 'char' else ('num', v.t, v.bits, v.signed)
                elif isinstance(v, CBool):
                    entry = ('bool', v.t)
                else:
                    raise OutOfReach('insertion of %r' % (v,))
                s2.log.append((path, entry, w, fi, fl))
                self.set_attr(s2, path, 'width', z3.BitVecVal(0, 64))
                out.append((s2, lv))
        return out

    def stream_method(self, st, obj, name, argn, node):
        path = obj.path
        fl, fi, w = self.stream_attrs(st, path)
        key = {'flags': 'flags', 'fill': 'fill', 'width': 'width'}.get(name)
        if key is None:
            raise OutOfReach('stream member %s' % name)
        old = {'flags': fl, 'fill': fi, 'width': w}[key]
        bits = {'flags': 32, 'fill': 8, 'width': 64}[key]
        out = []
        if not argn:
            return [(st, CInt(old, bits, key == 'width'))]
        for s1, v in self.rvalue(st, argn[0]):
            self.set_attr(s1, path, key, cast_int(v, bits, False).t)
            out.append((s1, CInt(old, bits, key == 'width')))
        return out

    def call(self, st, callee, argn, node):
        if isinstance(callee, tuple) and callee[0] == 'method' and self.is_stream(callee[1].ct):
            return self.stream_method(st, callee[1], callee[2], argn, node)
        if isinstance(callee, tuple) and callee[0] == 'method':
            mfn = self.ix.decl(callee[3]) if len(callee) > 3 and callee[3] else None
            tn = callee[1].ct.name or ''
            library = 'optional<' in tn or 'vector<' in tn or 'array<' in tn       # built-in models (assumed contracts)
            if mfn is not None and mfn.get('kind') in A.FUNC_KINDS and callee[2] != 'get_byte_size' and not library:
                # a member function whose declaration is in the dump (message<T>::encode<E> ...): contract or body
                this = CPtr(fresh('this', BV64), callee[1].ct)
                this.obj_path = callee[1].path
                c = self.contract_for(mfn)
                if c is not None:
                    return self.call_by_contract(st, mfn, c, argn, node, this=this)
                if self.ix.has_body(mfn):
                    return self.inline(st, mfn, argn, node, this=this)
            return self.method_call(st, callee[1], callee[2], argn, node)
        if not (isinstance(callee, tuple) and callee[0] == 'fn'):
            raise OutOfReach('indirect call')
        fn = self.ix.decl(callee[1])
        ref = callee[2]
        if fn is None:
            return self.external_call(st, ref, argn, node)
        c = self.contract_for(fn)
        if c is not None and not (self.current and self.current[2] is fn):
            return self.call_by_contract(st, fn, c, argn, node)
        if c is not None and self.current and self.current[2] is fn:
            raise OutOfReach('recursive call of the function under verification')
        if not self.ix.has_body(fn):
            return self.external_call(st, ref, argn, node)
        return self.inline(st, fn, argn, node)

    def external_call(self, st, ref, argn, node):
        name = ref.get('name')
        if name in ('min', 'max'):
            out = []
            for s1, a in self.rvalue(st, argn[0]):
                for s2, b in self.rvalue(s1, argn[1]):
                    c = self.compare('<', a, b).t
                    lo = z3.If(c, a.t, b.t) if name == 'min' else z3.If(c, b.t, a.t)
                    out.append((s2, CInt(lo, a.bits, a.signed)))
            self.assumed.add('std::%s(a, b) (assumed contract: the smaller / larger argument)' % name)
            return out
        if name == 'make_pair':
            out = []
            for s1, a in self.rvalue(st, argn[0]):
                for s2, b in self.rvalue(s1, argn[1]):
                    path = 'pair!%d' % next(_counter)
                    s2.objs[path] = {'first': a, 'second': b}
                    out.append((s2, CObj(path, self.ntype(node))))
            return out
        if name == 'accumulate':
            # std::accumulate(v.begin(), v.end(), size_t(), byte_size()) -- the ghost sum of element sizes
            out = []
            for s1, b in self.eval(st, argn[0]):
                if isinstance(b, tuple) and b[0] == 'iter':
                    n = self.vec_size(s1, b[1])
                    total = self.sumsize(s1, b[1], n)
                    info = self.type_info(self.vector_elem(b[3])) if len(b) > 3 else None
                    # type invariant of the ghost sum: below 2^48 (environment), and -- every element size being a
                    # multiple of the element alignment and at least the minimal encoding -- so is the sum
                    s1.assume(z3.ULT(total, z3.BitVecVal(1 << 48, 64)))
                    if info is not None:
                        s1.assume((total & z3.BitVecVal(info['align'] - 1, 64)) == 0)
                        s1.assume(z3.UGE(total, n * z3.BitVecVal(max(0, info['min_size']), 64)))
                    out.append((s1, CInt(total, 64, False)))
                else:
                    raise OutOfReach('std::accumulate over %r' % (b,))
            self.assumed.add('std::accumulate(v.begin(), v.end(), size_t(), byte_size()) == sum of get_byte_size() of the '
                             'elements (assumed contract, ghost function sumsize)')
            return out
        raise OutOfReach('call of %s without body or contract' % name)

    def sumsize(self, st, path, n):
        return self._sumsize_fn()(self.arr_id(st, path), n)

    def method_call(self, st, obj, name, argn, node):
        tn = obj.ct.name or ''
        path = obj.path
        out = []
        if 'vector<' in tn or tn.startswith('prophy::array<') or tn.startswith('array<') or 'array<' in tn:
            is_vec = 'vector<' in tn
            if name == 'size':
                if is_vec:
                    self.assumed.add('std::vector<T>::size() (assumed contract: the ghost attribute size, < 2^48)')
                    sz = self.vec_size(st, path)
                    st.assume(z3.ULT(sz, z3.BitVecVal(1 << 48, 64)))
                    return [(st, CInt(sz, 64, False))]
                raise OutOfReach('array::size')
            if name == 'data':
                self.assumed.add('std::vector<T>::data() / prophy::array::data() (assumed contract: valid for size() elements)')
                ct = self.ntype(node)
                if st.objs.get(path, {}).get('bytebuf'):
                    return [(st, CPtr(st.objs[path]['data'], ct.elem))]        # the output buffer: byte memory
                p = CPtr(self.obj_attr(st, path, 'data', BV64), ct.elem, (self.arr_id(st, path), z3.BitVecVal(0, 64)),
                         self.vec_size(st, path) if is_vec else None)
                p.base_path = path
                return [(st, p)]
            if name == 'resize' and is_vec:
                for s1, n in self.rvalue(st, argn[0]):
                    n64 = cast_int(n, 64, False)
                    self.alloc_ob(s1, path, n64.t, obj.ct)
                    self.havoc_obj(s1, path)
                    self.set_attr(s1, path, 'size', n64.t)
                    out.append((s1, None))
                self.assumed.add('std::vector<T>::resize(n) (assumed contract: size() == n afterwards, allocates n*sizeof(T))')
                return out
            if name == 'push_back' and is_vec:
                for s1, _ in self.eval(st, argn[0]):
                    sz = self.vec_size(s1, path)
                    self.alloc_ob(s1, path, sz + 1, obj.ct)
                    arr = self.arr_id(s1, path)
                    keep = {k: dict(v) for k, v in s1.objs.items() if k.startswith(path + '[')}
                    self.set_attr(s1, path, 'size', sz + 1)
                    self.havoc_obj(s1, self.elem_path(s1, path, sz))
                    out.append((s1, None))
                self.assumed.add('std::vector<T>::push_back (assumed contract: size() grows by one, amortised allocation)')
                return out
            if name == 'pop_back' and is_vec:
                sz = self.vec_size(st, path)
                self.oblige(st, 'pop_back.nonempty', sz != 0, 'ub')
                self.set_attr(st, path, 'size', sz - 1)
                return [(st, None)]
            if name == 'back' and is_vec:
                sz = self.vec_size(st, path)
                self.oblige(st, 'back.nonempty', sz != 0, 'ub')
                ct = self.ntype(node)
                return [(st, LVal('elem', ct, arr=self.arr_id(st, path), idx=sz - 1, base_path=path, cap=None))]
            if name in ('begin', 'end'):
                return [(st, ('iter', path, name, obj.ct))]
        if 'optional<' in tn:
            if name.startswith('operator bool') or name == 'is_initialized':
                self.assumed.add('prophy::optional<T>: conversion to bool yields the ghost attribute `engaged` (assumed contract)')
                return [(st, CBool(self.obj_attr(st, path, 'engaged', z3.BoolSort())))]
        if name == 'get_byte_size':
            return [(st, CInt(self.gbs_of(st, obj), 64, False))]
        if name in ('encode', 'decode'):
            # message<T>::encode<E>(void*) etc: resolved through the member's declaration when it is in the dump
            raise OutOfReach('member %s without resolved declaration' % name)
        raise OutOfReach('method %s of %s' % (name, tn))

    def gbs_of(self, st, obj):
        """ghost: the value get_byte_size() returns for the object; a constant for fixed types"""
        fixed = self.fixed_size_of(obj.ct)
        if fixed is not None:
            return z3.BitVecVal(fixed, 64)
        known = 'gbs' in st.objs.get(obj.path, {})
        g = self.gbs(st, obj.path)
        info = self.type_info(obj.ct)
        if info is not None and (not known or obj.path in st.elems):
            # type invariant of a generated dynamic struct's size (proved on T::get_byte_size, contracts/cxx_gen.py):
            # a multiple of the alignment, at least the minimal encoding, far from overflow
            st.assume((g & z3.BitVecVal(info['align'] - 1, 64)) == 0)
            st.assume(z3.UGE(g, z3.BitVecVal(max(0, info['min_size']), 64)))
            st.assume(z3.ULT(g, z3.BitVecVal(1 << 48, 64)))
        return g

    def fixed_size_of(self, ct):
        info = self.type_info(ct)
        if info and info.get('fixed_size') is not None and info['fixed_size'] >= 0:
            return info['fixed_size']
        return None

    def type_info(self, ct):
        if ct.kind != 'obj':
            return None
        name = _strip_cv(ct.name)
        t = getattr(self, 'types', {})
        return t.get(name) or t.get(name.split('::')[-1])

    def alloc_ob(self, st, path, n, vct):
        """allocation proportionality (C07): a request of n elements must be covered by the remaining input"""
        f = st.ghost.get('ALLOC')
        if f is not None:
            self.oblige(st, 'alloc.proportional', f(n, vct), 'safety')

    # ----- call by contract
    def canon(self, fn, contract=None):
        """parameter declaration -> name used by contracts: the contract's own (positional) names when it declares
        them, so that renaming or un-naming a parameter in the source does not disturb the contract"""
        names = {}
        c = contract if contract is not None else self.contract_for(fn)
        for i, p in enumerate(self.ix.params(fn)):
            if c is not None and c.params and i < len(c.params):
                names[p['id']] = c.params[i]
            else:
                names[p['id']] = p.get('name') or '#%d' % i
        return names

    def bind_params(self, st, fn, argn, contract=None):
        """evaluate arguments against the callee's parameters; returns list of (state, {name: (param node, value|LVal)})"""
        params = self.ix.params(fn)
        cn = self.canon(fn, contract)
        results = [(st, {})]
        for i, p in enumerate(params):
            pct, pref = parse_type(self, p.get('type', {}))
            nxt = []
            for s, acc in results:
                if i < len(argn) and argn[i].get('kind') != 'CXXDefaultArgExpr':
                    vals = self.eval(s, argn[i]) if pref else self.rvalue(s, argn[i])
                else:
                    dflt = [c for c in p.get('inner', []) if isinstance(c, dict) and 'kind' in c]
                    if not dflt:
                        raise OutOfReach('missing argument %s' % p.get('name'))
                    vals = self.rvalue(s, dflt[0])
                for s2, v in vals:
                    if pref and not isinstance(v, LVal):
                        # temporary bound to a const reference
                        key = 'tmp!%d' % next(_counter)
                        s2.store[key] = v
                        v = LVal('var', pct, key=key)
                    a2 = dict(acc)
                    a2[cn[p['id']]] = (p, v)
                    nxt.append((s2, a2))
            results = nxt
        return results

    def arg_values(self, st, bound):
        out = {}
        for name, (p, v) in bound.items():
            if isinstance(v, LVal):
                out[name] = self.load(st, v) if v.ct.kind != 'obj' else CObj(self._lv_path(v, st), v.ct)
            else:
                out[name] = v
        return out

    def call_by_contract(self, st, fn, c, argn, node, this=None):
        q = self.ix.qualname(fn)
        out = []
        for s, bound in self.bind_params(st, fn, argn, c):
            self.trace_member_call(s, fn, bound)
            a0 = self.arg_values(s, bound)
            a0['__fn'] = fn
            if this is not None:
                a0['this'] = this
            for label, f in c.requires(self, s, a0):
                self.oblige(s, 'call(%s).requires.%s' % (c.name, label), f, 'pre',
                            node.get('range', {}).get('begin', {}).get('line'))
                s.assume(f)         # assert, then assume
            s0 = s.copy()
            # havoc what the callee may modify
            for name in c.modifies:
                if name == 'mem':
                    s.mem = fresh('mem', z3.ArraySort(BV64, z3.BitVecSort(8)))
                    continue
                p, v = bound[name]
                if isinstance(v, LVal):
                    if v.ct.kind == 'obj':
                        self.havoc_obj(s, self._lv_path(v, s))
                    else:
                        self.store(s, v, self.fresh_value(v.ct, '%s.%s' % (c.name, name)))
                elif isinstance(v, CPtr) and v.arr is not None:
                    # output array: elements havocked
                    for k in list(s.objs.keys()):
                        if k.startswith(v.base_path + '['):
                            del s.objs[k]
                    na = fresh('arr', BV64)
                    s.objs.setdefault(v.base_path, {})['arr'] = na
                    s.assume(self._sumsize_fn()(na, z3.BitVecVal(0, 64)) == 0)
            rct, _ = parse_qual(self, self.ix.signature(fn).split('(')[0])
            ret = None if rct.kind == 'void' else self.fresh_value(rct, '%s.ret' % c.name)
            if self.is_stream(rct):
                # `std::ostream& f(std::ostream& out, ...)` returns the stream it was given
                for name, (p, v) in bound.items():
                    if isinstance(v, LVal) and self.is_stream(v.ct):
                        ret = LVal('obj', v.ct, path=self._lv_path(v, s))
                        break
            a1 = self.arg_values(s, bound)
            a1['__fn'] = fn
            if this is not None:
                a1['this'] = this
            for label, f in c.ensures(self, s0, a0, s, a1, ret):
                if isinstance(f, FrameFact):
                    s.frames.append(f)      # used through ground instances at the addresses read later (read_mem)
                    s.memdefs.setdefault(f.mem1.get_id(), f)
                elif isinstance(f, MemDef):
                    s.assume(f.formula())
                    s.memdefs[f.mem1.get_id()] = f
                else:
                    s.assume(f)
            if c.effect:
                c.effect(self, s0, a0, s, a1, ret)
            out.append((s, ret))
        return out

    # ----- inlining
    TRACED = ('do_encode', 'do_decode', 'do_decode_resize', 'do_decode_in_place', 'do_decode_greedy')

    def trace_member_call(self, st, fn, bound):
        """generated struct codecs call one do_encode / do_decode* per member, in declaration order: the cursor at each
        such call (made directly by the function under verification) is recorded for the layout obligations (C03)"""
        if len(self.fn_stack) == 1 and self.current:
            callee = self.ix.qualname(fn)
            st.calls.append(callee)
            # frame on the byte order (C19/C03): a function instantiated for endianness E hands E, and nothing else, to
            # every callee that takes an endianness (also inside loop bodies, hence checked at the call)
            own, e = endianness_of(self.current[0]), endianness_of(callee)
            if own is not None and e is not None:
                self.oblige(st, 'endianness.passed_on(%s)' % callee.split('::')[-1][:40], z3.BoolVal(e == own), 'post')
        if len(self.fn_stack) != 1 or fn.get('name') not in self.TRACED:
            return
        for key in ('data', 'pos'):
            if key in bound:
                p, v = bound[key]
                if isinstance(v, LVal):
                    v = self.load(st, v)
                if isinstance(v, CPtr):
                    st.trace.append((fn.get('name'), v.addr))
                return

    def inline(self, st, fn, argn, node, this=None):
        if len(self.fn_stack) > self.inline_depth:
            raise OutOfReach('inline depth exceeded at %s' % self.ix.qualname(fn))
        out = []
        for s, bound in self.bind_params(st, fn, argn):
            self.trace_member_call(s, fn, bound)
            env = {}
            for name, (p, v) in bound.items():
                pct, pref = parse_type(self, p.get('type', {}))
                if pref:
                    env[p['id']] = v
                else:
                    key = '%s!%d' % (name, next(_counter))
                    if pct.kind == 'obj' and isinstance(v, CObj):
                        env[p['id']] = LVal('obj', pct, path=v.path)
                    else:
                        s.store[key] = v
                        env[p['id']] = LVal('var', pct, key=key)
            if this is not None:
                env['this'] = this
            frame = {'env': env, 'fn': fn}
            self.fn_stack.append(frame)
            try:
                saved_ret = s.ret
                s.ret = None
                for s2, flow in self.exec_stmt(s, self.ix.body(fn)):
                    r = s2.ret
                    s2.ret = saved_ret
                    if isinstance(r, LVal):
                        r = self.load(s2, r) if r.ct.kind != 'obj' else r
                    out.append((s2, r))
            finally:
                self.fn_stack.pop()
        return out

    # ----- feasibility
    def feasible(self, st):
        s = z3.Solver()
        s.set('timeout', 2000)
        s.add(*st.pc)
        return s.check() != z3.unsat

    # ----- statements: return list of (state, flow) with flow in next|return|break|continue
    def exec_stmt(self, st, node):
        k = node.get('kind')
        m = getattr(self, 's_' + k, None)
        if m is None:
            # expression statement
            return [(s, 'next') for s, _ in self.eval(st, node)]
        return m(st, node)

    def s_CompoundStmt(self, st, node):
        states = [(st, 'next')]
        for c in self.kids(node):
            nxt = []
            for s, flow in states:
                if flow != 'next':
                    nxt.append((s, flow))
                else:
                    nxt.extend(self.exec_stmt(s, c))
            states = nxt
        return states

    def s_NullStmt(self, st, node):
        return [(st, 'next')]

    def s_DeclStmt(self, st, node):
        states = [st]
        for d in self.kids(node):
            if d.get('kind') != 'VarDecl':
                continue            # local enum / typedef declarations
            ct, ref = parse_type(self, d.get('type', {}))
            init = [c for c in self.kids(d)]
            nxt = []
            for s in states:
                env = self.fn_stack[-1]['env']
                # one storage key per declaration and frame: the frame's environment is shared by all paths through the
                # function, so every path must find the variable under the same key
                keys = self.fn_stack[-1].setdefault('keys', {})
                key = keys.setdefault(d['id'], '%s!%d' % (d.get('name'), next(_counter)))
                if ref:
                    for s2, v in self.eval(s, init[0]):
                        env[d['id']] = v
                        nxt.append(s2)
                    continue
                if ct.kind == 'obj':
                    env[d['id']] = LVal('obj', ct, path=key)
                    s.objs[key] = {}
                    ctor = init[0] if init else None
                    while ctor is not None and ctor.get('kind') in ('ExprWithCleanups', 'CXXBindTemporaryExpr'):
                        ctor = self.kids(ctor)[0]
                    cargs = self.kids(ctor) if ctor is not None and ctor.get('kind') == 'CXXConstructExpr' else []
                    cargs = [c for c in cargs if c.get('kind') != 'CXXDefaultArgExpr']
                    if 'vector<unsigned char' in (ct.name or '') and len(cargs) == 1:
                        # std::vector<uint8_t> data(n): a zero-filled byte buffer of n bytes from the default allocator.
                        # Assumed contract: 16-byte aligned storage, valid for n bytes; it becomes the writable region.
                        for s2, n in self.rvalue(s, cargs[0]):
                            n64 = cast_int(n, 64, False)
                            base = fresh('buf', BV64)
                            s2.assume((base & z3.BitVecVal(15, 64)) == 0)
                            s2.assume(z3.ULT(base, z3.BitVecVal(1 << 62, 64)))
                            s2.objs[key] = {'size': n64.t, 'data': base, 'bytebuf': True}
                            s2.ghost.setdefault('WLO', base)
                            s2.ghost.setdefault('WHI', base + n64.t)
                            self.assumed.add('std::vector<uint8_t>(n) (assumed contract: n zero bytes at a 16-byte aligned '
                                             'address below 2^62)')
                            nxt.append(s2)
                        continue
                    nxt.append(s)
                    continue
                env[d['id']] = LVal('var', ct, key=key)
                if init:
                    for s2, v in self.rvalue(s, init[0]):
                        s2.store[key] = v
                        nxt.append(s2)
                else:
                    s.store[key] = self.fresh_value(ct, key + '.uninit')
                    nxt.append(s)
            states = nxt
        return [(s, 'next') for s in states]

    def s_ReturnStmt(self, st, node):
        kids = self.kids(node)
        if not kids:
            st.ret = None
            return [(st, 'return')]
        out = []
        for s, v in self.rvalue(st, kids[0]):
            s.ret = v
            out.append((s, 'return'))
        return out

    def s_IfStmt(self, st, node):
        kids = self.kids(node)
        cond, then = kids[0], kids[1]
        els = kids[2] if len(kids) > 2 else None
        out = []
        for s, cv in self.rvalue(st, cond):
            t = self.truth(cv)
            sa, sb = s.copy(), s.copy()
            sa.assume(t)
            sb.assume(z3.Not(t))
            if self.feasible(sa):
                out.extend(self.exec_stmt(sa, then))
            if self.feasible(sb):
                if els is not None:
                    out.extend(self.exec_stmt(sb, els))
                else:
                    out.append((sb, 'next'))
        return out

    def s_BreakStmt(self, st, node):
        return [(st, 'break')]

    def s_SwitchStmt(self, st, node):
        kids = self.kids(node)
        cond, body = kids[0], kids[1]
        items = self.kids(body)
        # flatten "case X: stmt" nesting into a label list
        labels, stmts = [], []
        for it in items:
            while it.get('kind') in ('CaseStmt', 'DefaultStmt'):
                ks = self.kids(it)
                if it.get('kind') == 'CaseStmt':
                    v = A.const_value(ks[0])
                    if v is None:
                        raise OutOfReach('non-constant case label')
                    labels.append((v, len(stmts)))
                    it = ks[1]
                else:
                    labels.append((None, len(stmts)))
                    it = ks[0]
            stmts.append(it)
        out = []
        for s, cv in self.rvalue(st, cond):
            taken = []
            for v, start in labels:
                if v is None:
                    continue
                sv = s.copy()
                sv.assume(cv.t == z3.BitVecVal(v, cv.bits))
                taken.append(cv.t != z3.BitVecVal(v, cv.bits))
                if self.feasible(sv):
                    out.extend(self._run_switch(sv, stmts, start))
            sd = s.copy()
            for f in taken:
                sd.assume(f)
            if self.feasible(sd):
                dflt = [start for v, start in labels if v is None]
                if dflt:
                    out.extend(self._run_switch(sd, stmts, dflt[0]))
                else:
                    out.append((sd, 'next'))
        return out

    def _run_switch(self, st, stmts, start):
        states = [(st, 'next')]
        for c in stmts[start:]:
            nxt = []
            for s, flow in states:
                if flow != 'next':
                    nxt.append((s, flow))
                else:
                    nxt.extend(self.exec_stmt(s, c))
            states = nxt
        return [(s, 'next' if flow == 'break' else flow) for s, flow in states]

    def s_WhileStmt(self, st, node):
        kids = self.kids(node)
        cond, body = kids[0], kids[1]
        fn = self.fn_stack[-1]['fn']
        q = self.ix.qualname(fn)
        ordinal = self.fn_stack[-1].setdefault('loops', 0)
        self.fn_stack[-1]['loops'] = ordinal + 1
        spec = None
        c = self.contract_for(fn)
        if c is not None:
            spec = c.loops.get(ordinal)
        if spec is None:
            raise OutOfReach('loop %d of %s has no invariant' % (ordinal, q))
        env = self.fn_stack[-1]['env']
        names = self._env_names(fn, env)
        # 1. invariant holds on entry
        for label, f in spec.invariant(self, st, names(st)):
            self.oblige(st, 'loop%d.inv.entry.%s' % (ordinal, label), f, 'inv')
        # 2. havoc everything the body may assign
        s = st.copy()
        for lv in self._assigned_lvals(body, env):
            if lv.ct.kind == 'obj':
                self.havoc_obj(s, self._lv_path(lv, s))
            else:
                old = s.store.get(lv.key) if lv.kind == 'var' else None
                nv = self.fresh_value(lv.ct, 'loop%d' % ordinal)
                if isinstance(old, CPtr) and old.arr is not None:
                    # a pointer walking an array keeps its provenance; index and remaining capacity become unknown
                    nv = CPtr(nv.addr, old.elem, (old.arr[0], fresh('idx', BV64)), fresh('cap', BV64))
                    nv.base_path = old.base_path
                self.store(s, lv, nv)
        s.log = s.log + [('loop', ordinal)]         # insertions made by earlier iterations: not tracked individually
        for name in (spec.modifies or ()):
            if name == 'mem':
                s.mem = fresh('mem', z3.ArraySort(BV64, z3.BitVecSort(8)))
        for label, f in spec.invariant(self, s, names(s)):
            s.assume(f)
        out = []
        v_head = spec.variant(self, s, names(s)) if spec.variant else None      # at the loop head, before the condition
        for s1, cv in self.rvalue(s, cond):
            t = self.truth(cv)
            s_in, s_out = s1.copy(), s1.copy()
            s_in.assume(t)
            s_out.assume(z3.Not(t))
            if self.feasible(s_in):
                if spec.lemmas:
                    for item in spec.lemmas(self, s_in, names(s_in)):
                        if len(item) == 3:
                            # an arithmetic lemma: proved on its own (small query), then used
                            text, premises, concl = item
                            self.obligations.append(Obligation('%s:loop%d.lemma.%s' % (self.current[0], ordinal, text), 'lemma',
                                                               concl, premises))
                            s_in.assume(z3.Implies(z3.And(*premises), concl))
                        else:
                            text, f = item
                            s_in.assume(f)
                            self.assumed.add('axiom (ghost function): ' + text)
                v0 = v_head     # `while (n--)`: the condition itself changes n; the variant is measured head to head
                key = '%s#loop%d.body' % (q, ordinal)
                self.covers[key] = 'sat'
                for s2, flow in self.exec_stmt(s_in, body):
                    if flow in ('next', 'continue'):
                        for label, f in spec.invariant(self, s2, names(s2)):
                            self.oblige(s2, 'loop%d.inv.preserved.%s' % (ordinal, label), f, 'inv')
                        if v0 is not None:
                            self.oblige(s2, 'loop%d.variant.decreases' % ordinal,
                                        z3.ULT(spec.variant(self, s2, names(s2)), v0), 'variant')
                    elif flow == 'break':
                        out.append((s2, 'next'))
                    else:
                        out.append((s2, flow))
            if self.feasible(s_out):
                out.append((s_out, 'next'))
        return out

    def _env_names(self, fn, env):
        """name -> value accessor for invariants: parameters and locals by source name"""
        byname = {}
        cn = self.canon(fn)
        for nid, lv in env.items():
            d = self.ix.decl(nid) if nid != 'this' else None
            if d is not None and d.get('name'):
                byname[d['name']] = lv
        for nid, lv in env.items():
            if nid in cn:
                byname[cn[nid]] = lv            # the contract's name for a parameter wins

        def names(st):
            cx = self

            class N(dict):
                def __missing__(self, k):
                    lv = byname[k]
                    if isinstance(lv, LVal):
                        return cx.load(st, lv) if lv.ct.kind != 'obj' else CObj(cx._lv_path(lv, st), lv.ct)
                    return lv
            return N()
        return names

    def _assigned_lvals(self, body, env):
        """variables (by declaration) syntactically assigned in the loop body, incl. passed by non-const reference"""
        found = {}

        def target(n):
            while n.get('kind') in ('ParenExpr', 'ImplicitCastExpr', 'CXXReinterpretCastExpr', 'MaterializeTemporaryExpr',
                                    'UnaryOperator') and self.kids(n):
                if n.get('kind') == 'UnaryOperator' and n.get('opcode') != '*':
                    break
                n = self.kids(n)[0]
            if n.get('kind') == 'DeclRefExpr' and n['referencedDecl'].get('kind') in ('ParmVarDecl', 'VarDecl'):
                return n['referencedDecl']['id']
            return None

        def walk(n):
            if not isinstance(n, dict):
                return
            k = n.get('kind')
            ks = self.kids(n)
            if k in ('BinaryOperator',) and n.get('opcode') == '=' or k == 'CompoundAssignOperator':
                t = target(ks[0])
                if t:
                    found[t] = True
            if k == 'UnaryOperator' and n.get('opcode') in ('++', '--'):
                t = target(ks[0])
                if t:
                    found[t] = True
            if k in ('CallExpr', 'CXXMemberCallExpr', 'CXXOperatorCallExpr'):
                callee = ks[0]
                fnref = None
                c0 = callee
                while c0.get('kind') in ('ImplicitCastExpr', 'ParenExpr') and self.kids(c0):
                    c0 = self.kids(c0)[0]
                if c0.get('kind') == 'DeclRefExpr':
                    fnref = c0['referencedDecl']
                sig = (fnref or {}).get('type', {}).get('qualType', '')
                ptypes = _split_params(sig)
                args = ks[1:]
                if k == 'CXXOperatorCallExpr' and fnref and fnref.get('kind') == 'CXXMethodDecl':
                    # first argument is the object
                    t = target(args[0]) if args else None
                    if t and 'const' not in sig.split(')')[-1]:
                        found[t] = True
                    args = args[1:]
                for a, pt in zip(args, ptypes):
                    pt = pt.strip()
                    if pt.endswith('&') and not pt.startswith('const '):
                        t = target(a)
                        if t:
                            found[t] = True
                if k == 'CXXMemberCallExpr':
                    me = ks[0]
                    if me.get('kind') == 'MemberExpr' and me.get('name') in ('resize', 'push_back', 'pop_back'):
                        t = target(self.kids(me)[0])
                        if t:
                            found[t] = True
            for c in ks:
                walk(c)
        walk(body)
        return [env[t] for t in found if t in env and isinstance(env[t], LVal)]


def _split_params(sig):
    """'bool (unsigned int &, const uint8_t *&, const uint8_t *)' -> parameter type strings"""
    if '(' not in sig:
        return []
    inner = sig[sig.index('(') + 1: sig.rindex(')')]
    out, depth, cur = [], 0, ''
    for ch in inner:
        if ch in '<(':
            depth += 1
        elif ch in '>)':
            depth -= 1
        if ch == ',' and depth == 0:
            out.append(cur)
            cur = ''
        else:
            cur += ch
    if cur.strip():
        out.append(cur)
    return out


# --------------------------------------------------------------------------- verifying one function against its contract

def verify_function(cx, fn, contract, timeout_ms=20000):
    """symbolically execute fn's body from the contract's precondition; returns result dict in the shape vf.cli expects"""
    t0 = time.time()
    q = cx.ix.qualname(fn)
    cx.current = (q, contract, fn)
    cx.obligations = []
    cx.covers = {}
    st = State()
    st.mem = fresh('mem0', z3.ArraySort(BV64, z3.BitVecSort(8)))
    env = {}
    bound = {}
    cn = cx.canon(fn, contract)
    for p in cx.ix.params(fn):
        ct, ref = parse_type(cx, p.get('type', {}))
        pname = cn[p['id']]
        key = '%s!%d' % (pname, next(_counter))
        if ct.kind == 'obj':
            lv = LVal('obj', ct, path=pname)
            st.objs[pname] = {}
        else:
            lv = LVal('var', ct, key=key)
            st.store[key] = cx.fresh_value(ct, pname)
        env[p['id']] = lv
        bound[pname] = (p, lv)
    rec = cx.ix.owner_record(fn)
    if fn.get('kind') == 'CXXMethodDecl' and rec is not None and not fn.get('storageClass') == 'static':
        tname = rec.get('name')
        env['this'] = _this_ptr(cx, st, rec)
    frame = {'env': env, 'fn': fn}
    result = {'contract': q, 'status': 'ok', 'file': _file_of(cx, fn),
              'line': fn.get('loc', {}).get('line') or fn.get('range', {}).get('begin', {}).get('line'),
              'paths': 0, 'obligations': [], 'covers': {}, 'solver_time': 0.0, 'props': list(contract.props)}
    try:
        a0 = cx.arg_values(st, bound)
        a0['__fn'] = fn
        if 'this' in env:
            a0['this'] = env['this']
        if contract.setup:
            contract.setup(cx, st, a0)
        for label, f in contract.requires(cx, st, a0):
            st.assume(f)
        s0 = st.copy()
        result['covers']['requires'] = 'sat' if cx.feasible(st) else 'unsat'
        cx.fn_stack.append(frame)
        try:
            finals = cx.exec_stmt(st, cx.ix.body(fn))
        finally:
            cx.fn_stack.pop()
        for s, flow in finals:
            result['paths'] += 1
            ret = s.ret
            if isinstance(ret, LVal):
                ret = cx.load(s, ret)
            a1 = cx.arg_values(s, bound)
            a1['__fn'] = fn
            if 'this' in env:
                a1['this'] = env['this']
            for label, f in contract.ensures(cx, s0, a0, s, a1, ret):
                if isinstance(f, (FrameFact, MemDef)):
                    f = f.formula()
                cx.oblige(s, 'ensures.%s' % label, f, 'post')
                s.assume(f)         # assert, then assume: later clauses may rely on earlier ones (each is proved)
        result['covers'].update(cx.covers)
        result['covers']['exit'] = 'sat' if finals else 'unsat'
    except OutOfReach as e:
        return {'contract': q, 'status': 'out_of_reach', 'reason': str(e), 'obligations': [], 'props': list(contract.props)}
    finally:
        cx.current = None
    # discharge
    for ob in cx.obligations:
        r = discharge(ob, timeout_ms)
        result['solver_time'] += ob.time_s
        result['obligations'].append({'name': ob.name, 'kind': ob.kind, 'verdict': ob.verdict, 'backend': ob.backend,
                                      'time_s': round(ob.time_s, 3), 'model': ob.model, 'line': ob.line})
    result['wall'] = time.time() - t0
    result['sha256'] = None
    return result


import re as _re

_E_FUNC = _re.compile(r'(?:^|::)(?:encode_int|decode_int|do_encode|do_decode|do_decode_resize|do_decode_in_place|'
                      r'do_decode_greedy|encode|decode)<([012])[,>]')
_E_CLASS = _re.compile(r'(?:^|::)(?:decoder|encoder|decoder_greedy)<([012]),')


def endianness_of(qualname):
    """the prophy::endianness template argument (0 native, 1 little, 2 big) of a codec function, or None"""
    depth, cut = 0, 0
    for i, ch in enumerate(qualname):
        if ch == '<':
            depth += 1
        elif ch == '>':
            depth -= 1
        elif ch == ':' and depth == 0 and qualname[i:i + 2] == '::':
            cut = i + 2
    last = qualname[cut:]           # the function's own name with its template arguments
    if last in ('encode', 'decode') and 'message<' in qualname and 'message_impl<' not in qualname:
        return '0'                  # message<T>::encode(void*) / decode(...) without <E>: the native convenience overloads
    m = _E_FUNC.search('::' + last)
    if m:
        return m.group(1)
    m = _E_CLASS.search(qualname)
    return m.group(1) if m else None


def _file_of(cx, fn):
    f = cx.ix.file_of_id.get(fn.get('id'))
    if f:
        return f
    r = fn.get('range', {}).get('begin', {})
    return r.get('file') or r.get('includedFrom', {}).get('file') or '?'


def _this_ptr(cx, st, rec):
    name = rec.get('name')
    ct = CT('obj', name=name)
    p = CPtr(fresh('this', BV64), ct)
    p.obj_path = 'self'
    st.objs['self'] = {}
    return p


def discharge(ob, timeout_ms):
    """portfolio: z3 (3 s) -> /usr/bin/cvc5 on the same query (64-bit cursor arithmetic that z3's bit-blaster does not
    finish is routinely decided by cvc5 in under a second) -> z3 with the full budget"""
    t0 = time.time()
    s = z3.Solver()
    s.set('timeout', min(1500, timeout_ms))
    s.add(*ob.pc)
    s.add(z3.Not(ob.formula))
    text = s.sexpr()          # before check(): afterwards z3 appends model-converter lines that are not SMT-LIB
    r = s.check()
    ob.backend = 'z3'
    if r == z3.unknown and z3.is_and(ob.formula) and ob.formula.num_args() > 1:
        # first a short race on the whole conjunction (most are pure cursor arithmetic, decided at once)
        c, which = _cvc5_race(text, [(['--solve-bv-as-int=sum'], min(3000, timeout_ms), 'cvc5-intblast'),
                                     ([], min(3000, timeout_ms), 'cvc5')])
        if c == 'unsat':
            ob.verdict, ob.backend, ob.time_s = 'proved', which, time.time() - t0
            return ob
    if r == z3.unknown and z3.is_and(ob.formula) and ob.formula.num_args() > 1:
        # a conjunction: each conjunct on its own through the same portfolio (the conjuncts of a region condition are
        # typically decided by different back ends; assuming the proved ones for the next slows the integer translation)
        pc, used = list(ob.pc), set()
        for c in ob.formula.children():
            sub = Obligation(ob.name, ob.kind, c, pc, ob.line)
            sub.frames = getattr(ob, 'frames', None)
            discharge(sub, timeout_ms)
            used.add(sub.backend)
            if sub.verdict != 'proved':
                ob.verdict, ob.backend, ob.model = sub.verdict, sub.backend, sub.model
                break
        else:
            ob.verdict, ob.backend = 'proved', 'split:' + '+'.join(sorted(used))
        ob.time_s = time.time() - t0
        return ob
    if r == z3.unknown:
        # cvc5's exact translation of bit-vectors to integers with mod/div ("int-blasting"): cursor arithmetic with
        # rounding to multiples of 2/4/8 becomes linear integer arithmetic and is usually decided at once
        # the two cvc5 configurations race (queries mixing byte memory with cursor arithmetic are decided by the default
        # configuration in ~20 s, pure cursor arithmetic by the integer translation in milliseconds)
        c, which = _cvc5_race(text, [(['--solve-bv-as-int=sum'], min(25000, timeout_ms), 'cvc5-intblast'),
                                     ([], min(25000, timeout_ms), 'cvc5')])
        if c == 'unsat':
            r, ob.backend = z3.unsat, which
        if r == z3.unknown:
            s.set('timeout', timeout_ms)
            r = s.check()
            if r == z3.unknown and c == 'sat' and not getattr(ob, 'frames', None):
                ob.time_s = time.time() - t0
                ob.verdict, ob.backend, ob.model = 'refuted', 'cvc5', {'note': 'cvc5 reports sat; no model extracted'}
                return ob
    if r == z3.sat and getattr(ob, 'frames', None):
        # callees' frame conditions reach the query only as ground instances at the addresses read; a counter-model may
        # merely violate an instance that was not generated, so it is confirmed against the quantified conditions
        # (no definite answer there: undecided, never a refutation)
        # the frame conditions are array properties (forall x. x < lo or x >= hi -> mem1[x] = mem0[x]); instantiating
        # them at every index term of the query (and at the region bounds) decides them (Bradley/Manna/Sipma index-set
        # instantiation), so a model that survives is a genuine counter-model
        # a universally quantified goal (a loop's own frame invariant) is negated to an existential one: it is
        # skolemised first, so that its witness is among the index terms
        neg = z3.Not(ob.formula)
        try:
            g = z3.Goal()
            g.add(neg)
            sk = [f for sub in z3.Tactic('nnf')(g) for f in sub]
        except z3.Z3Exception:
            sk = [neg]
        s = z3.Solver()
        s.add(*ob.pc)
        s.add(*sk)
        idx = _index_terms(list(ob.pc) + sk)
        for fr in ob.frames:
            for a in list(idx.values()) + [fr.lo - 1, fr.hi]:
                s.add(z3.Implies(z3.Or(z3.ULT(a, fr.lo), z3.UGE(a, fr.hi)), z3.Select(fr.mem1, a) == z3.Select(fr.mem0, a)))
        s.set('timeout', timeout_ms)
        r = s.check()
        if r == z3.unsat:
            ob.backend = 'z3+frames'
    ob.time_s = time.time() - t0
    if r == z3.unsat:
        ob.verdict = 'proved'
    elif r == z3.sat:
        ob.verdict = 'refuted'
        m = s.model()
        ob.model = {str(d): str(m[d]) for d in m.decls()[:40]}
    else:
        ob.verdict = 'unknown'
    return ob


def _index_terms(formulas):
    """the terms used as array indices (select / store) in the formulas: {ast id: term}"""
    out, seen, todo = {}, set(), list(formulas)
    while todo:
        t = todo.pop()
        if t.get_id() in seen:
            continue
        seen.add(t.get_id())
        if z3.is_quantifier(t):
            continue
        if z3.is_app(t):
            k = t.decl().kind()
            if k in (z3.Z3_OP_SELECT, z3.Z3_OP_STORE):
                i = t.arg(1)
                out[i.get_id()] = i
            todo.extend(t.children())
    return out


def _cvc5_race(text, configs):
    """run several cvc5 configurations on the same query at once; the first definite answer wins"""
    import os
    import subprocess
    import tempfile
    fd, path = tempfile.mkstemp(suffix='.smt2', prefix='cxxvc-')
    procs = []
    try:
        with os.fdopen(fd, 'w') as f:
            f.write('(set-logic ALL)\n' + text + '\n(check-sat)\n')
        for opts, tmo, name in configs:
            procs.append((subprocess.Popen(['/usr/bin/cvc5', '--lang=smt2', '--tlimit=%d' % tmo] + list(opts) + [path],
                                           stdout=subprocess.PIPE, stderr=subprocess.DEVNULL), name))
        deadline = time.time() + max(t for _, t, _ in configs) / 1000.0 + 10
        answer, who = 'unknown', None
        pending = list(procs)
        while pending and time.time() < deadline:
            for p, name in list(pending):
                if p.poll() is not None:
                    pending.remove((p, name))
                    out = (p.stdout.read() or b'').decode('utf-8', 'replace').strip().splitlines()
                    a = out[0].strip() if out else 'unknown'
                    if a in ('sat', 'unsat'):
                        return a, name
            time.sleep(0.02)
        return answer, who
    except Exception:
        return 'unknown', None
    finally:
        for p, _ in procs:
            if p.poll() is None:
                p.kill()
        try:
            os.unlink(path)
        except OSError:
            pass


def _cvc5(text, timeout_ms, options=()):
    import os
    import subprocess
    import tempfile
    fd, path = tempfile.mkstemp(suffix='.smt2', prefix='cxxvc-')
    try:
        with os.fdopen(fd, 'w') as f:
            f.write('(set-logic ALL)\n' + text + '\n(check-sat)\n')
        p = subprocess.run(['/usr/bin/cvc5', '--lang=smt2', '--tlimit=%d' % timeout_ms] + list(options) + [path],
                           stdout=subprocess.PIPE,
                           stderr=subprocess.PIPE, timeout=timeout_ms / 1000.0 + 10)
        out = p.stdout.decode('utf-8', 'replace').strip().splitlines()
        return out[0].strip() if out else 'unknown'
    except Exception:
        return 'unknown'
    finally:
        try:
            os.unlink(path)
        except OSError:
            pass
