"""
vf/effects.py -- frame / effect contract for C20 (a proved *sufficient condition* for determinism):
every function of the prophyc tool chain between `main` and `_write_file`
  (E1) reads no ambient source of nondeterminism (time, random, id(), hash(), os.environ, os.getcwd, os.listdir, glob, uuid ...),
       os.path.abspath being allowed (used as a cache key only);
  (E2) lets no value of set type reach an order-sensitive consumer (iteration, list()/tuple()/join()/enumerate()/zip(), indexing
       by position, str()/repr(), unpacking); sets may be tested for membership, measured, grown, compared, or passed to sorted();
  (E3) dict iteration is insertion-ordered (CPython >= 3.7) -- allowed;
  (E4) writes no state that is shared by the inputs of one run: no rebinding of a `global`, no store into / mutating method call on an
       object bound to a module-level name (a module-level cache would make the output for one file depend on the files before it).
       The same for a mutable container assigned in a class body and changed through self / cls without the instance having its own.
       State kept on objects that live for the whole run (the parser, the file processor) is not covered by E4: see the stand-in.
Under CPython's semantics (hash randomisation only affects set iteration order; dicts are insertion-ordered) this implies that the
generated text is a function of the input files and options.  The check is an abstract interpretation of each function body over the
two-point lattice {not-a-set, maybe-a-set} for local names, attributes and call results (intraprocedural; attribute / parameter
set-ness is declared where a set is stored into it).  Obligations: one per function and clause; a violated one names the expression.
"""
import ast
import hashlib
import os

FORBIDDEN_CALLS = {
    'time.time', 'time.monotonic', 'time.perf_counter', 'time.clock', 'datetime.now', 'datetime.datetime.now', 'datetime.utcnow',
    'random.random', 'random.randint', 'random.choice', 'random.shuffle', 'random.sample', 'uuid.uuid1', 'uuid.uuid4',
    'os.getcwd', 'os.getpid', 'os.listdir', 'os.scandir', 'os.walk', 'glob.glob', 'os.urandom', 'id', 'hash', 'os.getenv',
    'tempfile.mkdtemp', 'tempfile.mkstemp', 'socket.gethostname', 'getpass.getuser', 'platform.node',
}
FORBIDDEN_ATTRS = {'os.environ'}
SET_MAKERS = {'set', 'frozenset'}
SET_METHODS_RETURNING_SET = {'union', 'intersection', 'difference', 'symmetric_difference', 'copy'}
ORDER_SENSITIVE_CALLS = {'list', 'tuple', 'enumerate', 'zip', 'iter', 'next', 'str', 'repr', 'map', 'filter', 'reversed', 'dict'}
ORDER_FREE_CALLS = {'sorted', 'len', 'bool', 'any', 'all', 'sum', 'min', 'max', 'set', 'frozenset', 'isinstance'}


def dotted(node):
    if isinstance(node, ast.Name):
        return node.id
    if isinstance(node, ast.Attribute):
        b = dotted(node.value)
        return b + '.' + node.attr if b else None
    return None


class FnCheck(ast.NodeVisitor):
    def __init__(self, set_attrs, set_funcs=None):
        self.sets = set()            # local names that may hold a set
        self.set_attrs = set_attrs   # attribute names (self.x) that may hold a set, program-wide
        self.set_funcs = set_funcs if set_funcs is not None else set()     # names of functions that may return a set, program-wide
        self.fn_stack = []
        self.bad_effects, self.bad_order = [], []

    # ---- which expressions may be sets
    def maybe_set(self, e):
        if isinstance(e, (ast.Set, ast.SetComp)):
            return True
        if isinstance(e, ast.Name):
            return e.id in self.sets
        if isinstance(e, ast.Attribute):
            return e.attr in self.set_attrs
        if isinstance(e, ast.Call):
            d = dotted(e.func)
            if d in SET_MAKERS:
                return True
            if d and d.split('.')[-1] in self.set_funcs:
                return True
            if isinstance(e.func, ast.Attribute) and e.func.attr in SET_METHODS_RETURNING_SET and self.maybe_set(e.func.value):
                return True
            if isinstance(e.func, ast.Attribute) and e.func.attr == 'keys':
                return False
        if isinstance(e, ast.BinOp) and isinstance(e.op, (ast.Sub, ast.BitOr, ast.BitAnd, ast.BitXor)):
            return self.maybe_set(e.left) or self.maybe_set(e.right)
        if isinstance(e, ast.IfExp):
            return self.maybe_set(e.body) or self.maybe_set(e.orelse)
        if isinstance(e, ast.BoolOp):
            return any(self.maybe_set(v) for v in e.values)
        return False

    def order(self, e, why):
        if self.maybe_set(e):
            self.bad_order.append('line %d: a set reaches %s: %s' % (e.lineno, why, ast.unparse(e)[:80]))

    # ---- visitors
    def visit_Assign(self, node):
        self.generic_visit(node)
        if self.maybe_set(node.value):
            for t in node.targets:
                if isinstance(t, ast.Name):
                    self.sets.add(t.id)
                elif isinstance(t, ast.Attribute):
                    self.set_attrs.add(t.attr)
        else:
            for t in node.targets:
                if isinstance(t, ast.Name):
                    self.sets.discard(t.id)
        for t in node.targets:
            if isinstance(t, (ast.Tuple, ast.List)):
                self.order(node.value, 'tuple unpacking')

    def visit_AugAssign(self, node):
        self.generic_visit(node)

    def visit_For(self, node):
        self.order(node.iter, 'a for loop')
        self.generic_visit(node)

    def visit_comprehension(self, node):
        self.order(node.iter, 'a comprehension')
        self.generic_visit(node)

    def visit_Starred(self, node):
        self.order(node.value, '* unpacking')
        self.generic_visit(node)

    def visit_Subscript(self, node):
        self.generic_visit(node)

    def visit_JoinedStr(self, node):
        for v in node.values:
            if isinstance(v, ast.FormattedValue):
                self.order(v.value, 'an f-string')
        self.generic_visit(node)

    def visit_Call(self, node):
        d = dotted(node.func)
        if d in FORBIDDEN_CALLS or (d and d.split('.')[-1] in ('getcwd', 'listdir', 'urandom', 'getpid') and d.startswith('os')):
            self.bad_effects.append('line %d: call of %s' % (node.lineno, d))
        if d in ORDER_SENSITIVE_CALLS:
            for a in node.args:
                self.order(a, '%s()' % d)
        elif isinstance(node.func, ast.Attribute) and node.func.attr in ('join', 'extend', 'format', 'writelines', 'write'):
            for a in node.args:
                self.order(a, '.%s()' % node.func.attr)
        elif isinstance(node.func, ast.Attribute) and node.func.attr == 'pop' and self.maybe_set(node.func.value) and not node.args:
            self.bad_order.append('line %d: set.pop() picks an arbitrary element: %s' % (node.lineno, ast.unparse(node)[:80]))
        self.generic_visit(node)

    def visit_BinOp(self, node):
        if isinstance(node.op, ast.Mod) and isinstance(node.left, ast.Constant) and isinstance(node.left.value, str):
            self.order(node.right, '% formatting')
        self.generic_visit(node)

    def visit_Attribute(self, node):
        d = dotted(node)
        if d in FORBIDDEN_ATTRS:
            self.bad_effects.append('line %d: read of %s' % (node.lineno, d))
        self.generic_visit(node)

    def visit_Return(self, node):
        if node.value is not None and self.maybe_set(node.value) and self.fn_stack:
            self.set_funcs.add(self.fn_stack[-1])
        self.generic_visit(node)

    def visit_Yield(self, node):
        self.generic_visit(node)

    def visit_FunctionDef(self, node):
        # nested functions share the enclosing scope's set-typed names (closures)
        self.fn_stack.append(node.name)
        self.generic_visit(node)
        self.fn_stack.pop()

    def visit_Lambda(self, node):
        self.generic_visit(node)


MUTATORS = {'append', 'extend', 'insert', 'pop', 'remove', 'clear', 'update', 'setdefault', 'add', 'discard', 'popitem', 'sort', 'reverse',
            '__setitem__', '__delitem__'}


def module_level_names(tree):
    """names bound by module-level statements (assignments, imports excluded: modules and functions are not data)"""
    out = set()
    for s in tree.body:
        targets = []
        if isinstance(s, ast.Assign):
            targets = s.targets
        elif isinstance(s, (ast.AnnAssign, ast.AugAssign)):
            targets = [s.target]
        for t in targets:
            for n in ast.walk(t):
                if isinstance(n, ast.Name):
                    out.add(n.id)
    return out


def global_writes(fn, mod_names):
    """(E4) sites where a function body changes state that outlives the call and is shared by all inputs of a run: rebinding a
    `global`, storing into / deleting from / calling a mutating method on an object bound to a module-level name (unless the
    function rebinds that name locally)"""
    local = set()
    declared_global = set()
    for n in ast.walk(fn):
        if isinstance(n, ast.Global):
            declared_global.update(n.names)
    for n in ast.walk(fn):
        if isinstance(n, ast.Name) and isinstance(n.ctx, ast.Store) and n.id not in declared_global:
            local.add(n.id)
        elif isinstance(n, ast.arg):
            local.add(n.arg)
    shared = lambda e: isinstance(e, ast.Name) and e.id in mod_names and e.id not in local
    sites = []
    for n in ast.walk(fn):
        if isinstance(n, ast.Name) and isinstance(n.ctx, (ast.Store, ast.Del)) and n.id in declared_global:
            sites.append('line %d: rebinds the global %s' % (n.lineno, n.id))
        elif isinstance(n, (ast.Subscript, ast.Attribute)) and isinstance(n.ctx, (ast.Store, ast.Del)) and shared(n.value):
            sites.append('line %d: stores into module-level %s' % (n.lineno, n.value.id))
        elif isinstance(n, ast.Call) and isinstance(n.func, ast.Attribute) and n.func.attr in MUTATORS and shared(n.func.value):
            sites.append('line %d: %s.%s() changes module-level state' % (n.lineno, n.func.value.id, n.func.attr))
    return sites


def class_level_mutables(tree):
    """{class name: names assigned in the class body to a fresh mutable container (set() / [] / {} / dict() / list() ...)}: one
    object shared by every instance, i.e. by every file handled in a run, unless an instance rebinds the attribute"""
    out = {}
    for c in ast.walk(tree):
        if not isinstance(c, ast.ClassDef):
            continue
        names = set()
        for s in c.body:
            if isinstance(s, ast.Assign):
                v = s.value
                mutable = isinstance(v, (ast.List, ast.Dict, ast.Set, ast.ListComp, ast.DictComp, ast.SetComp)) or (
                    isinstance(v, ast.Call) and dotted(v.func) in ('set', 'list', 'dict', 'defaultdict', 'collections.defaultdict', 'OrderedDict'))
                if mutable:
                    for t in s.targets:
                        if isinstance(t, ast.Name):
                            names.add(t.id)
        rebound = set()
        for n in ast.walk(c):
            if isinstance(n, ast.Attribute) and isinstance(n.ctx, ast.Store) and isinstance(n.value, ast.Name) and n.value.id == 'self':
                rebound.add(n.attr)          # an instance attribute of that name is bound somewhere: the instance has its own
        if names - rebound:
            out[c.name] = names - rebound
    return out


def class_state_writes(fn, shared_names):
    """(E4, class level) sites in a method where a container that lives on the class is changed through `self` / `cls`"""
    sites = []
    own = lambda e: isinstance(e, ast.Attribute) and isinstance(e.value, ast.Name) and e.value.id in ('self', 'cls') and e.attr in shared_names
    for n in ast.walk(fn):
        if isinstance(n, ast.Call) and isinstance(n.func, ast.Attribute) and n.func.attr in MUTATORS and own(n.func.value):
            sites.append('line %d: %s.%s.%s() changes a container shared by all instances' % (n.lineno, n.func.value.value.id, n.func.value.attr, n.func.attr))
        elif isinstance(n, ast.Subscript) and isinstance(n.ctx, (ast.Store, ast.Del)) and own(n.value):
            sites.append('line %d: stores into %s.%s, a container shared by all instances' % (n.lineno, n.value.value.id, n.value.attr))
    return sites


def functions_of(tree):
    out = []

    def walk(node, prefix):
        for ch in ast.iter_child_nodes(node):
            if isinstance(ch, ast.FunctionDef):
                out.append((prefix + ch.name, ch))
            elif isinstance(ch, ast.ClassDef):
                walk(ch, prefix + ch.name + '.')
            elif not isinstance(ch, (ast.FunctionDef, ast.Lambda)):
                walk(ch, prefix)
    walk(tree, '')
    return out


SCOPE = ['prophyc/__init__.py', 'prophyc/__main__.py', 'prophyc/options.py', 'prophyc/file_processor.py', 'prophyc/model.py', 'prophyc/calc.py',
         'prophyc/patch.py', 'prophyc/six.py', 'prophyc/parsers/prophy.py', 'prophyc/parsers/isar.py',
         'prophyc/generators/base.py', 'prophyc/generators/python.py', 'prophyc/generators/cpp.py', 'prophyc/generators/cpp_full.py',
         'prophyc/generators/prophy.py', 'prophyc/generators/word_wrap.py']


def check_determinism(repo):
    """returns a list of function results in the format of vf.contract.FunctionResult.to_json()"""
    results = []
    set_attrs, set_funcs = set(), set()
    parsed = []
    for rel in SCOPE:
        path = os.path.join(repo, rel)
        if not os.path.exists(path):
            results.append({'contract': rel, 'status': 'out_of_reach', 'reason': 'file missing', 'obligations': [], 'props': ['C20']})
            continue
        src = open(path, encoding='utf-8').read()
        tree = ast.parse(src, path)
        parsed.append((rel, src, tree))
    # two passes so that attributes found to hold sets in one function are known in all
    for _ in range(3):
        for rel, src, tree in parsed:
            for q, fn in functions_of(tree):
                c = FnCheck(set_attrs, set_funcs)
                c.visit(fn)
    for rel, src, tree in parsed:
        # module level statements (class attributes, constants) as one pseudo function
        for q, fn in functions_of(tree) + [('<module>', ast.Module(body=[s for s in tree.body if not isinstance(s, (ast.FunctionDef, ast.ClassDef))],
                                                                 type_ignores=[]))]:
            c = FnCheck(set_attrs, set_funcs)
            c.visit(fn)
            shared_writes = global_writes(fn, module_level_names(tree)) if q != '<module>' else []
            if q != '<module>' and '.' in q:
                shared_writes += class_state_writes(fn, class_level_mutables(tree).get(q.split('.')[0], set()))
            seg = ast.get_source_segment(src, fn) if q != '<module>' else ''
            name = '%s:%s' % (rel.replace('/', '.')[:-3], q)
            obs = [{'name': name + '/effect.no-ambient-nondeterminism', 'kind': 'effect', 'line': getattr(fn, 'lineno', None),
                    'verdict': 'refuted' if c.bad_effects else 'proved', 'backend': 'effect-check', 'time_s': 0.0,
                    'model': {'sites': c.bad_effects} if c.bad_effects else None},
                   {'name': name + '/effect.no-set-order-reaches-output', 'kind': 'effect', 'line': getattr(fn, 'lineno', None),
                    'verdict': 'refuted' if c.bad_order else 'proved', 'backend': 'effect-check', 'time_s': 0.0,
                    'model': {'sites': c.bad_order} if c.bad_order else None},
                   {'name': name + '/effect.no-state-shared-between-inputs-is-written', 'kind': 'effect', 'line': getattr(fn, 'lineno', None),
                    'verdict': 'refuted' if shared_writes else 'proved', 'backend': 'effect-check', 'time_s': 0.0,
                    'model': {'sites': shared_writes} if shared_writes else None}]
            results.append({'contract': name, 'props': ['C20'], 'file': rel, 'qualname': q, 'line': getattr(fn, 'lineno', None),
                            'sha256': hashlib.sha256((seg or '').encode()).hexdigest(), 'status': 'ok', 'reason': None, 'obligations': obs,
                            'paths': 1, 'covers': {'requires': 'sat'}, 'solver_time': 0.0, 'wall': 0.0, 'trusted': [], 'notes': []})
    return results


def check_shared_state(repo):
    """C16: the per-file outputs of one run must not depend on which other files the run handled before -- only clause E4 of the
    determinism check (no function writes state shared between inputs), reported under C16"""
    out = []
    for r in check_determinism(repo):
        obs = [dict(o, name=o['name'].replace('/effect.', '/per-file-output.')) for o in r.get('obligations', [])
               if o['name'].endswith('no-state-shared-between-inputs-is-written')]
        if r.get('status') == 'ok' and not obs:
            continue
        r = dict(r, props=['C16'], obligations=obs)
        out.append(r)
    return out
