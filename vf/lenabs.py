"""
vf/lenabs.py -- refutation by length abstraction for obligations over byte sequences.

z3's and cvc5's sequence solvers rarely find models of "two encodings differ" (they go unknown),
while almost every wrong padding / size changes the *length*.  Each sequence term is mapped to
its length (an integer term), sequence equalities to length equalities; the resulting LIA+UF query
is decided at once.  A model is a refutation *candidate* (contents are abstracted away); it is
reported with backend 'z3-length'.
"""
import z3

_cache_counter = [0]


class LenAbs(object):
    def __init__(self):
        self.side = []
        self.ufs = {}
        self.fresh_bools = 0

    def L(self, t):
        k = t.decl().kind() if z3.is_app(t) else None
        if k == z3.Z3_OP_SEQ_CONCAT:
            return z3.Sum([self.L(c) for c in t.children()])
        if k == z3.Z3_OP_SEQ_EMPTY:
            return z3.IntVal(0)
        if k == z3.Z3_OP_SEQ_UNIT:
            return z3.IntVal(1)
        if k == z3.Z3_OP_SEQ_EXTRACT:
            s, o, l = t.children()
            ls, o2, l2 = self.L(s), self.T(o), self.T(l)
            return z3.If(z3.Or(o2 < 0, o2 > ls, l2 <= 0), 0, z3.If(l2 < ls - o2, l2, ls - o2))
        if k == z3.Z3_OP_ITE:
            c, a, b = t.children()
            return z3.If(self.T(c), self.L(a), self.L(b))
        if z3.is_app(t) and t.decl().name().startswith('rep_') and t.num_args() == 1:
            n = self.T(t.arg(0))
            return z3.If(n >= 0, n, 0)
        # uninterpreted constant / function application / variable of sequence sort
        if z3.is_app(t):
            d = t.decl()
            key = d.name()
            args = [self.T(a) if not z3.is_seq(a) else self.L(a) for a in t.children()]
            f = self.ufs.get(key)
            if f is None:
                f = z3.Function('len!' + key, *([a.sort() for a in args] + [z3.IntSort()]))
                self.ufs[key] = f
            r = f(*args) if args else f()
            self.side.append(r >= 0)
            return r
        raise ValueError('cannot abstract %s' % t)

    def T(self, t):
        """translate a Bool/Int/other term, replacing sequence sub-terms by lengths"""
        if z3.is_quantifier(t):
            raise ValueError('quantifier')
        if not z3.is_app(t):
            return t
        k = t.decl().kind()
        if k == z3.Z3_OP_SEQ_LENGTH:
            return self.L(t.arg(0))
        ch = t.children()
        if k in (z3.Z3_OP_EQ, z3.Z3_OP_DISTINCT) and ch and z3.is_seq(ch[0]):
            ls = [self.L(c) for c in ch]
            return (ls[0] == ls[1]) if k == z3.Z3_OP_EQ else z3.Distinct(*ls)
        if any(z3.is_seq(c) for c in ch):
            if z3.is_bool(t):
                self.fresh_bools += 1
                return z3.Bool('absb!%d' % self.fresh_bools)
            if z3.is_int(t):
                self.fresh_bools += 1
                return z3.Int('absi!%d' % self.fresh_bools)
            raise ValueError('cannot abstract %s' % t.decl())
        if not ch:
            return t
        new = [self.T(c) for c in ch]
        return t.decl()(*new)


def mentions_seq(t, depth=0):
    if z3.is_quantifier(t):
        return mentions_seq(t.body(), depth + 1)
    if z3.is_seq(t):
        return True
    if depth > 50:
        return False
    return any(mentions_seq(c, depth + 1) for c in t.children())


def length_refute(pc, goal, timeout_ms=8000):
    if not mentions_seq(goal):
        return None
    la = LenAbs()
    s = z3.Solver()
    s.set('timeout', timeout_ms)
    try:
        for c in pc:
            if z3.is_quantifier(c):
                continue
            s.add(la.T(c))
        s.add(z3.Not(la.T(goal)))
    except ValueError:
        return None
    for c in la.side:
        s.add(c)
    if s.check() == z3.sat:
        m = s.model()
        out = {}
        for d in m.decls():
            if d.arity() == 0:
                out[d.name()] = str(m[d])[:80]
        out['note'] = 'length abstraction: the two byte strings have different lengths in this model'
        return out
    return None


# ---------------------------------------------------------------------------------------------------
# small-scope refutation for byte-sequence obligations: every uninterpreted sequence term has length
# <= BOUND and every fill `b * n` has n <= BOUND and is expanded exactly; the query is then decided by
# z3's sequence solver at once.  A model is a genuine counterexample of the VC (in that scope).

BOUND = 12


def _collect(t, seqs, reps, depth=0):
    if z3.is_quantifier(t) or depth > 60:
        return
    if z3.is_app(t) and z3.is_seq(t):
        k = t.decl().kind()
        if k == z3.Z3_OP_UNINTERPRETED:
            if t.decl().name().startswith('rep_') and t.num_args() == 1:
                reps[str(t)] = t
            else:
                seqs[str(t)] = t
    for c in t.children():
        _collect(c, seqs, reps, depth + 1)


def bounded_seq_refute(pc, goal, axioms=(), timeout_ms=10000):
    if not mentions_seq(goal):
        return None
    seqs, reps = {}, {}
    for c in pc:
        _collect(c, seqs, reps)
    _collect(goal, seqs, reps)
    s = z3.Solver()
    s.set('timeout', timeout_ms)
    for a in axioms:
        if not z3.is_quantifier(a):
            s.add(a)
    for c in pc:
        s.add(c)
    s.add(z3.Not(goal))
    for t in seqs.values():
        s.add(z3.Length(t) <= BOUND)
    for t in reps.values():
        n = t.arg(0)
        byte = int(t.decl().name()[4:], 16)
        unit = z3.Unit(z3.BitVecVal(byte, 8))
        s.add(n <= BOUND)
        exp = z3.Empty(t.sort())
        cases = exp
        acc = []
        for k in range(BOUND, 0, -1):
            pass
        cur = z3.Empty(t.sort())
        expansion = cur
        chain = None
        vals = [z3.Empty(t.sort())]
        for k in range(1, BOUND + 1):
            vals.append(z3.Concat(vals[-1], unit) if k > 1 else unit)
        e = vals[BOUND]
        for k in range(BOUND - 1, -1, -1):
            e = z3.If(n <= k, vals[k], e)
        s.add(t == e)
    if s.check() == z3.sat:
        m = s.model()
        out = {}
        for d in m.decls():
            if d.arity() == 0:
                out[d.name()] = str(m[d])[:80]
        out['note'] = 'small-scope refutation: all byte strings of length <= %d, fills expanded exactly' % BOUND
        return out
    return None
