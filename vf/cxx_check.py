"""
vf/cxx_check.py -- entry points used by vf.cli (`static` checkers of a property): CxxVC on the C++ headers and on the
prophyc-generated C++ of a schema family.  Each returns per-function results in the shape the CLI aggregates.
"""
import os
import time
from concurrent.futures import ProcessPoolExecutor

from . import cxx_run as R
from specs import family as F, wire as W


def _tier():
    return os.environ.get('VERIF_TIER', 'quick')


def _seed():
    return int(os.environ.get('VERIF_SEED', '0'))


def _budget():
    return 30000 if _tier() == 'quick' else 90000


def header(repo, prop):
    t0 = time.time()
    try:
        res = R.check_header(repo, prop, timeout_ms=_budget(), jobs=int(os.environ.get('VERIF_JOBS', '16')))
    except Exception as e:
        return [{'contract': 'c++ header driver', 'status': 'error', 'reason': repr(e)[-1500:], 'obligations': [], 'props': [prop]}]
    for r in res:
        r['layer'] = 'header'
    return res


def pool_types():
    return [t for n, t in F.POOL.t.items() if isinstance(t, (W.Struct, W.Union)) and getattr(t, 'name', None) == n]


# every member kind once, in the combinations the layout rules distinguish (deterministic part of the family)
PROBES = [
    ('P0', [('plain', 'u8', 0), ('dynamic', 'u16', 0), ('plain', 'u32', 0)]),
    ('P1', [('optional', 'u64', 0), ('limited', 'u16', 2), ('plain', 'D1', 0), ('ext', 'u32', 0)]),
    ('P2', [('plain', 'U8', 0), ('fixed', 'F16', 2), ('plain', 'E', 0), ('greedy', 'u16', 0)]),
    ('P3', [('dynamic', 'D1', 0), ('bdynamic', 'byte', 0), ('plain', 'u64', 0)]),
    ('P4', [('optional', 'F16', 0), ('optional', 'u8', 0), ('dynamic', 'E', 0), ('plain', 'i16', 0)]),
    ('P5', [('ext', 'D8', 0), ('blimited', 'byte', 5), ('plain', 'DD', 0), ('bgreedy', 'byte', 0)]),
    ('P6', [('limited', 'F64', 2), ('optional', 'FO8', 0), ('fixed', 'U12', 3), ('plain', 'G16', 0)]),
    ('P7', [('bext', 'byte', 0), ('plain', 'i64', 0), ('dynamic', 'U4', 0), ('greedy', 'D1', 0)]),
    ('P8', [('bfixed', 'byte', 3), ('plain', 'TF64', 0), ('dynamic', 'FL', 0)]),
    ('KF0', [('optional', 'FL', 0), ('plain', 'u8', 0)]),       # recorded finding: optional of a vector-holding struct
]


def family(seed, tier):
    rng = F.rng_for(seed, 'cxxvc')
    items = [F.build_struct(n, ks, True) for n, ks in list(F.CXX_PROBES) + [PROBES[-1]]]
    items += [F.build_union('PU0', ['u8', 'F64', 'E']), F.build_union('PU1', ['u64', 'F12']), F.build_union('PU2', ['u16'])]
    n = 10 if tier == 'quick' else 60
    items += F.sample_structs(rng, n, 4, with_floats=False, prefix='R', distinct_sizers=True)
    return items


def _unit(args):
    repo, name, text, types, prop, budget, es = args
    os.environ.setdefault('VERIF_JOBS', '1')
    try:
        if prop == 'C18':
            only = lambda q: q.endswith('::print')
        else:
            only = lambda q: ('get_byte_size' in q) or any(('code<%s>' % e) in q for e in es)
        res = R.check_generated_unit(repo, name, text, types, pool_types(), prop, budget, jobs=1, only=only,
                                     verify_pool=(name == 'g0'))
    except Exception as e:
        return [{'contract': 'c++ generated unit %s' % name, 'status': 'error', 'reason': repr(e)[-1500:], 'obligations': [],
                 'props': [prop]}]
    for r in res:
        r['layer'] = 'generated'
        r['schema'] = text
    if prop == 'C05':
        # the same encoders without the precondition "an array has no more elements than its sizer type can count":
        # only for structs with 8/16-bit sizers; refutations here are the recorded finding (known_findings.json)
        from contracts import cxx_gen as G
        narrow = [t for t in types if any(size <= 2 for _, _, size in G.narrow_sizers(t))]
        if narrow:
            try:
                res2 = R.check_generated_unit(repo, name, text, narrow, pool_types(), prop, budget, jobs=1,
                                              restrict_sizers=False, verify_pool=False,
                                              only=lambda q: 'encode<%s>' % es[0] in q)
            except Exception as e:
                res2 = [{'contract': 'c++ generated unit %s [any array length]' % name, 'status': 'error',
                         'reason': repr(e)[-1500:], 'obligations': [], 'props': [prop]}]
            for r in res2:
                r['layer'] = 'generated'
                r['contract'] += ' [any array length]'
                for o in r.get('obligations', []):
                    o['name'] = 'any-array-length:' + o['name']
            res = res + res2
    return res


def generated(repo, prop):
    tier, seed = _tier(), _seed()
    items = family(seed, tier)
    es = ('0', '1') if tier == 'quick' else ('0', '1', '2')
    jobs = int(os.environ.get('VERIF_JOBS', '16'))
    chunk = max(1, (len(items) + jobs - 1) // jobs)
    units = []
    for k in range(0, len(items), chunk):
        part = items[k:k + chunk]
        units.append((repo, 'g%d' % (k // chunk), F.Pool.TEXT + ''.join(t for t, _ in part), [s for _, s in part], prop,
                      _budget(), es))
    out = []
    with ProcessPoolExecutor(max_workers=jobs) as ex:
        for res in ex.map(_unit, units):
            out.extend(res)
    return out


def C07(repo):
    return header(repo, 'C07') + generated(repo, 'C07')


def C05(repo):
    return header(repo, 'C05') + generated(repo, 'C05')


def C03(repo):
    return header(repo, 'C03') + generated(repo, 'C03')


def C19(repo):
    return header(repo, 'C19') + generated(repo, 'C19')


def _swap_unit(args):
    repo, name, text, types, budget = args
    from contracts import cxx_swap as S
    try:
        res = R.check_swap_unit(repo, name, text, types, pool_types(), budget, jobs=1, verify_pool=(name == 'g0'))
    except Exception as e:
        return [{'contract': 'c++ raw swap unit %s' % name, 'status': 'error', 'reason': repr(e)[-1500:], 'obligations': [],
                 'props': ['C09']}]
    tagged = set(t.name for t in types + pool_types() if S.overaligned_part(t))
    for r in res:
        r['layer'] = 'generated'
        r['schema'] = text
        for n in tagged:
            if r['contract'].endswith('swap<%s>' % n):
                # recorded finding (known_findings.json): reported under its own name, nothing else is masked
                for o in r.get('obligations', []):
                    o['name'] = 'part-overalign:' + o['name']
    return res


def C09(repo):
    tier, seed = _tier(), _seed()
    items = family(seed, tier)
    jobs = int(os.environ.get('VERIF_JOBS', '16'))
    chunk = max(1, (len(items) + jobs - 1) // jobs)
    units = []
    for k in range(0, len(items), chunk):
        part = items[k:k + chunk]
        units.append((repo, 'g%d' % (k // chunk), F.Pool.TEXT + ''.join(t for t, _ in part), [s for _, s in part], _budget()))
    out = []
    with ProcessPoolExecutor(max_workers=jobs) as ex:
        for res in ex.map(_swap_unit, units):
            out.extend(res)
    return out


def C18(repo):
    try:
        res = R.check_print_header(repo, timeout_ms=_budget(), jobs=int(os.environ.get('VERIF_JOBS', '16')))
    except Exception as e:
        res = [{'contract': 'c++ printer driver', 'status': 'error', 'reason': repr(e)[-1500:], 'obligations': [],
                'props': ['C18']}]
    for r in res:
        r['layer'] = 'header'
    return res + generated(repo, 'C18')
