"""
vf/speclib.py -- use of the executable spec (specs/wire.py) inside contracts: the *same text* is
executed symbolically by the PyVC interpreter in pure mode (conditionals become ite-terms, no
forks, no obligations), so the SMT oracle and the replay oracle cannot drift apart.
"""
import os

import z3

from .pyvc import load_module, SInt, SBool, Closure, Env, OutOfSubset

SPEC_WIRE = os.path.join(os.path.dirname(os.path.dirname(os.path.abspath(__file__))), 'specs', 'wire.py')


def spec_call(vm, fname, *args, **kw):
    module = load_module(kw.get('module', SPEC_WIRE))
    env = vm.module_env(module)
    fn = env.get(fname)
    vm.pure += 1
    vm.no_oblige = getattr(vm, 'no_oblige', 0) + 1
    try:
        return vm.call_closure(fn, list(args), {})
    finally:
        vm.pure -= 1
        vm.no_oblige -= 1


def spec_int(vm, fname, *args):
    return vm.as_int(spec_call(vm, fname, *args))
