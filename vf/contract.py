"""
vf/contract.py -- sidecar contracts, loop annotations, the per-function verification driver and the
discharge of obligations (z3, then cvc5 on z3's unknowns).
"""
import ast
import hashlib
import json
import os
import subprocess
import tempfile
import time

import z3

from . import pyvc
from .pyvc import (SInt, SBool, SOpt, STruth, SRef, SOptRef, SSeq, SBytes, SStr, Sym, OutOfSubset, PathEnd, PyRaise, Env,
                   Closure, Path, Ref, load_module)
from . import interp as I

QUICK_TIMEOUT_MS = int(os.environ.get('VERIF_Z3_TIMEOUT_MS', '20000'))


class LoopAnn(object):
    """annotation of one loop (keyed by ordinal in source order inside the function under contract)"""

    def __init__(self, invariant, index='k', modifies=(), variant=None, locals_=None, havoc_skip=(), unfold=None,
                 extra_havoc=()):
        self.invariant, self.index, self.modifies, self.variant = invariant, index, tuple(modifies), variant
        self.unfold = unfold        # fn(vm, env, k) -> ground instances of spec-function definitions at k
        self.locals_ = locals_ or {}
        self.havoc_skip = set(havoc_skip)
        self.extra_havoc = tuple(extra_havoc)
        self.ordinal = None

    def _assigned_names(self, node):
        names = set()
        for n in ast.walk(ast.Module(body=node.body, type_ignores=[])):
            if isinstance(n, ast.Name) and isinstance(n.ctx, ast.Store):
                names.add(n.id)
        if isinstance(node, ast.For):
            for n in ast.walk(node.target):
                if isinstance(n, ast.Name):
                    names.add(n.id)
        return names

    def havoc(self, vm, node, env):
        for name in sorted(self._assigned_names(node) | set(self.extra_havoc)):
            if name in self.havoc_skip:
                continue
            kind = self.locals_.get(name)
            frame = env
            try:
                cur = env.get(name)
            except KeyError:
                if kind is None:
                    continue
                cur = None
            new = fresh_like(vm, name, cur, kind)
            if new is not NotImplemented:
                env.set_nonlocal(name, new)
        for attr in self.modifies:
            sort = vm.heap_sorts.get(attr)
            vm.path.heap[attr] = vm.fresh('H_%s' % attr, z3.ArraySort(Ref, sort))
            if (attr + '#none') in vm.heap_sorts:
                vm.path.heap[attr + '#none'] = vm.fresh('H_%s#none' % attr, z3.ArraySort(Ref, z3.BoolSort()))

    def check_inv(self, vm, env, k, tag):
        for label, goal in self.invariant(vm, env, k):
            vm.oblige('loop%s.inv.%s/%s' % (self.ordinal, tag, label), goal, 'inv', vm.cur_line)

    def assume_inv(self, vm, env, k):
        for label, goal in self.invariant(vm, env, k):
            vm.assume(goal)

    def run_for(self, vm, node, env, it, rc):
        if not isinstance(it, SSeq):
            it = vm.contract.as_sseq(vm, it)
        n = it.length
        vm.path.stored_before_loop = set(getattr(vm.path, 'stored', set()))
        self.check_inv(vm, env, z3.IntVal(0), 'init')
        choice = vm.choose(2)
        pre_stored = set(getattr(vm.path, 'stored', set()))
        self.havoc(vm, node, env)
        k = vm.fresh(self.index)
        vm.path.ghost[self.index] = k
        if choice == 0:
            vm.assume(z3.And(0 <= k, k < n))
            if vm.check_sat([]) == z3.unsat:
                raise PathEnd()
            self.assume_inv(vm, env, k)
            if self.unfold:
                for fact in self.unfold(vm, env, k):
                    vm.assume(fact)
            vm.path.stored = set()
            vm.assign_target(node.target, it.elem(k), env)
            try:
                try:
                    vm.exec_block(node.body, env, rc)
                except I._Continue:
                    pass
            except I._Break:
                vm.path.stored |= pre_stored
                return
            extra = vm.path.stored - set(self.modifies) - set(a + '#none' for a in self.modifies)
            if extra:
                vm.oblige('loop%s.frame:%s' % (self.ordinal, ','.join(sorted(extra))), False, 'frame', vm.cur_line)
            vm.cover('loop%s.body' % self.ordinal)
            self.check_inv(vm, env, k + 1, 'preserve')
            raise PathEnd()
        vm.assume(k == n)
        self.assume_inv(vm, env, k)
        vm.path.stored = pre_stored | set(self.modifies)
        vm.exec_block(node.orelse, env, rc)

    def run_while(self, vm, node, env, rc):
        self.check_inv(vm, env, None, 'init')
        choice = vm.choose(2)
        pre_stored = set(getattr(vm.path, 'stored', set()))
        self.havoc(vm, node, env)
        self.assume_inv(vm, env, None)
        c = vm.truthy(vm.eval(node.test, env, I.TRUTH))
        if choice == 0:
            vm.assume(I._b(c))
            v0 = self.variant(vm, env) if self.variant else None
            try:
                try:
                    vm.exec_block(node.body, env, rc)
                except I._Continue:
                    pass
            except I._Break:
                return
            vm.cover('loop%s.body' % self.ordinal)
            self.check_inv(vm, env, None, 'preserve')
            if v0 is not None:
                v1 = self.variant(vm, env)
                vm.oblige('loop%s.variant.decrease' % self.ordinal, z3.And(v0 >= 0, v1 < v0), 'variant', vm.cur_line)
            raise PathEnd()
        vm.assume(z3.Not(I._b(c)))
        vm.path.stored = pre_stored | set(self.modifies)
        vm.exec_block(node.orelse, env, rc)


def fresh_like(vm, name, cur, kind=None):
    if callable(kind):
        return kind(vm, name)
    if kind == 'int' or (kind is None and isinstance(cur, (SInt, int)) and not isinstance(cur, bool)):
        return SInt(vm.fresh(name))
    if kind == 'bool' or (kind is None and isinstance(cur, (SBool, bool))):
        return SBool(vm.fresh(name, z3.BoolSort()))
    if kind == 'opt' or (kind is None and isinstance(cur, SOpt)):
        return SOpt(vm.fresh(name + '#none', z3.BoolSort()), vm.fresh(name))
    if kind == 'bytes' or (kind is None and isinstance(cur, (SBytes, bytes))):
        return SBytes(vm.fresh(name, pyvc.ByteSeq))
    if isinstance(kind, tuple) and kind[0] == 'ref':
        return vm.fresh_ref(name, kind[1], exact=kind[2] if len(kind) > 2 else False)
    if kind is None and isinstance(cur, SRef):
        return SRef(vm.fresh(name, Ref), cur.cls, False)
    if kind is None and isinstance(cur, tuple):
        return tuple(fresh_like(vm, '%s_%d' % (name, i), c) for i, c in enumerate(cur))
    if kind is None and isinstance(cur, Sym):
        raise OutOfSubset('cannot havoc loop-assigned local %r of kind %s' % (name, type(cur).__name__))
    if kind is None:
        raise OutOfSubset('cannot havoc loop-assigned local %r (value %r); give its kind in the loop annotation' % (name, cur))
    raise OutOfSubset('unknown havoc kind %r' % (kind,))


class Contract(object):
    """sidecar contract of one function.  Subclass or instantiate with callbacks."""

    registry = []

    def __init__(self, relpath, qualname, props, setup, post=None, loops=None, shapes=None, raises=None,
                 modifies=None, callees=None, name=None, module_overrides=None, hooks=None, notes=None,
                 case_split=None, trusted=None):
        self.relpath, self.qualname, self.props = relpath, qualname, list(props)
        self.setup, self.post = setup, post
        self.loops = dict(loops or {})
        for o, ann in self.loops.items():
            ann.ordinal = o
        self.shapes = dict(shapes or {})
        self.raises = raises            # fn(vm, exc_class, exc_args) -> list of (label, goal) | None (=never)
        self.modifies = modifies
        self.callees = dict(callees or {})
        self.name = name or ('%s:%s' % (relpath.replace('/', '.')[:-3], qualname))
        self.module_overrides = dict(module_overrides or {})
        self.hooks = dict(hooks or {})
        self.notes = list(notes or [])
        self.case_split = case_split
        self.trusted = list(trusted or [])
        self.loop_ordinals = {}
        self._rep_fns = {}
        self._strs = {}
        Contract.registry.append(self)

    # ---- helpers used by the interpreter
    def loop_annotation(self, vm, node, ordinal):
        if ordinal is None:
            return None
        return self.loops.get(ordinal)

    def callee_contract(self, clo):
        return self.callees.get(clo.qualname)

    def rep_fn(self, byte):
        if byte not in self._rep_fns:
            self._rep_fns[byte] = z3.Function('rep_%02x' % byte, z3.IntSort(), pyvc.ByteSeq)
        return self._rep_fns[byte]

    def rep_axioms(self):
        """b * n: length n (n >= 0) and every byte is b"""
        out = []
        n, i = z3.Ints('rep_n rep_i')
        for byte, f in self._rep_fns.items():
            out.append(z3.ForAll([n], z3.Implies(n >= 0, z3.Length(f(n)) == n), patterns=[f(n)]))
            out.append(z3.ForAll([n], z3.Implies(n > 0, z3.SubSeq(f(n), 0, 1) == z3.Unit(z3.BitVecVal(byte, 8))), patterns=[f(n)]))
            out.append(f(0) == z3.Empty(pyvc.ByteSeq))
        return out

    def str_const(self, s):
        if s not in self._strs:
            self._strs[s] = z3.Const('str_%s' % hashlib.md5(s.encode()).hexdigest()[:8] + '_' + ''.join(
                c if c.isalnum() else '_' for c in s)[:24], pyvc.StrSort)
        return self._strs[s]

    def str_distinct_axiom(self):
        cs = list(self._strs.values())
        return z3.Distinct(*cs) if len(cs) > 1 else None

    def format_hook(self, vm, fmt, args, kwargs):
        return fmt.format(*args, **kwargs)

    def as_sseq(self, vm, it):
        hook = vm.hooks.get('iterate')
        if hook:
            r = hook(vm, it)
            if isinstance(r, SSeq):
                return r
            if r is not NotImplemented and hasattr(r, 'seq'):
                return r.seq
        if isinstance(it, I.GenCall):
            seq = vm.gencall_as_sseq(it)
            if seq is not None:
                return seq
        items = vm.iterate(it)
        return SSeq(z3.IntVal(len(items)), lambda i: _pick(items, i), 'list')


def _pick(items, i):
    i = z3.simplify(i)
    if z3.is_int_value(i):
        return items[i.as_long()]
    raise OutOfSubset('symbolic index into concrete list')


# ------------------------------------------------------------------------------------ driver

class FunctionResult(object):
    def __init__(self, contract):
        self.contract = contract.name
        self.props = contract.props
        self.file = contract.relpath
        self.qualname = contract.qualname
        self.line = None
        self.sha256 = None
        self.status = 'ok'          # ok | out_of_reach | error
        self.reason = None
        self.obligations = []       # dicts
        self.paths = 0
        self.covers = {}
        self.solver_time = 0.0
        self.wall = 0.0
        self.trusted = contract.trusted
        self.notes = contract.notes

    def to_json(self):
        return self.__dict__


class VM(I.Interp):
    def __init__(self, contract):
        I.Interp.__init__(self, contract)
        self.hooks.update(contract.hooks)
        self.cover_points = {}
        for attr, kind in contract.shapes.items():
            self.declare_shape(attr, kind)

    def declare_shape(self, attr, kind):
        if kind == 'opt':
            self.heap_sorts[attr] = z3.IntSort()
            self.heap_sorts[attr + '#none'] = z3.BoolSort()
        elif kind == 'int':
            self.heap_sorts[attr] = z3.IntSort()
        elif kind in ('bool', 'truth'):
            self.heap_sorts[attr] = z3.BoolSort()
        elif kind == 'str':
            self.heap_sorts[attr] = pyvc.StrSort
        elif isinstance(kind, tuple) and kind[0] == 'ref':
            self.heap_sorts[attr] = Ref
        elif isinstance(kind, tuple) and kind[0] == 'optref':
            self.heap_sorts[attr] = Ref
            self.heap_sorts[attr + '#none'] = z3.BoolSort()

    def known_classes(self):
        out = []
        for m in pyvc._module_cache.values():
            out.extend(m.classes.values())
        return out

    def cover(self, label):
        if str(self.cover_points.get(label, '')).startswith('sat'):
            return
        r = self.check_sat([], timeout=1500, ground_only=False)
        if r == z3.unknown and self.check_sat([], timeout=3000) == z3.sat:
            r = 'sat(ground part)'
        cur = self.cover_points.get(label)
        if r == z3.sat:
            self.cover_points[label] = 'sat'
        elif r == 'sat(ground part)' and cur != 'sat':
            self.cover_points[label] = r
        elif cur is None:
            self.cover_points[label] = str(r)

    def e_Yield(self, node, env, ctx):
        v = self.eval(node.value, env) if node.value is not None else None
        h = self.hooks.get('yield')
        if h is None:
            raise OutOfSubset('yield outside a consumed generator')
        h(v)
        return None


def verify_function(contract, timeout_ms=None, want_models=True):
    t_start = time.time()
    res = FunctionResult(contract)
    timeout_ms = timeout_ms or QUICK_TIMEOUT_MS
    try:
        module = load_module(contract.relpath)
        fnode, chain = module.find(contract.qualname)
    except (KeyError, OSError, SyntaxError) as e:
        res.status, res.reason = 'out_of_reach', 'binding failed: %s' % e
        return res
    seg = module.segment(fnode)
    res.line = fnode.lineno
    res.sha256 = hashlib.sha256(seg.encode('utf-8')).hexdigest()
    # loop ordinals in source order within the function (nested defs included: they are inlined)
    loops = sorted([(n.lineno, n.col_offset) for n in ast.walk(fnode) if isinstance(n, (ast.For, ast.While))])
    contract.loop_ordinals = {pos: i for i, pos in enumerate(loops)}
    for o in list(contract.loops):
        if isinstance(o, tuple):
            # loop of an inlined callee: key (qualname in the same module | 'relpath::qualname', ordinal)
            qn, idx = o
            try:
                cmod = load_module(qn.split('::')[0]) if '::' in qn else module
                cnode, _ = cmod.find(qn.split('::')[-1])
            except (KeyError, OSError, SyntaxError) as e:
                res.status, res.reason = 'out_of_reach', 'binding of inlined callee failed: %s' % e
                return res
            cl = sorted([(n.lineno, n.col_offset) for n in ast.walk(cnode) if isinstance(n, (ast.For, ast.While))])
            if idx >= len(cl):
                res.status, res.reason = 'out_of_reach', 'loop annotation %r has no loop' % (o,)
                return res
            contract.loop_ordinals[cl[idx]] = o
            contract.loops[o].ordinal = '%s#%d' % (qn.split('.')[-1], idx)
        elif o >= len(loops) and o in getattr(contract, 'optional_loops', ()):
            del contract.loops[o]       # an inner loop the code may express without a loop (list.extend): nothing to annotate
        elif o >= len(loops):
            res.status, res.reason = 'out_of_reach', 'loop annotation %d has no loop (function has %d loops)' % (o, len(loops))
            return res
    vm = VM(contract)
    pending = [[]]
    try:
        while pending:
            prefix = pending.pop()
            vm.path = Path()
            vm.path.stored = set()
            vm._prefix = prefix
            vm._pending = []
            vm.call_depth = 0
            vm.pure = 0
            vm.lengths = []
            res.paths += 1
            if res.paths > vm.max_paths:
                raise OutOfSubset('path explosion (> %d paths)' % vm.max_paths)
            try:
                _run_path(vm, contract, module, fnode, chain)
            except PathEnd:
                pass
            pending.extend(vm._pending)
    except OutOfSubset as e:
        res.status, res.reason = 'out_of_reach', 'out of subset: %s' % e
        # obligations met before the code left the subset sit on feasible path prefixes: one that is *refuted* is a genuine
        # refutation and is reported (tagged); proved ones prove nothing about the whole function and are not counted
        try:
            axioms = [a for a in [contract.str_distinct_axiom()] if a is not None] + list(contract.rep_axioms())
            for i, ob in enumerate(vm.obligations):
                if ob.kind not in ('post', 'call'):
                    continue
                discharge(ob, axioms, min(timeout_ms, 10000), contract, want_models)
                if ob.verdict == 'refuted':
                    res.obligations.append({'name': '%s/%s#%d [met before the function left the verified subset]' % (contract.name, ob.name, i),
                                            'kind': ob.kind, 'line': ob.line, 'verdict': ob.verdict, 'backend': ob.backend,
                                            'time_s': round(ob.time, 4), 'model': ob.model})
        except Exception:
            pass
        res.wall = time.time() - t_start
        return res
    except RecursionError:
        res.status, res.reason = 'out_of_reach', 'engine recursion limit'
        return res
    res.covers = dict(vm.cover_points)
    # discharge
    extra_axioms = []
    d = contract.str_distinct_axiom()
    if d is not None:
        extra_axioms.append(d)
    extra_axioms.extend(contract.rep_axioms())
    names = {}
    for ob in vm.obligations:
        c = names.get(ob.name, 0)
        names[ob.name] = c + 1
        ob.full_name = '%s/%s#%d' % (contract.name, ob.name, c)
    for ob in vm.obligations:
        discharge(ob, extra_axioms, timeout_ms, contract, want_models)
        res.obligations.append({'name': ob.full_name, 'kind': ob.kind, 'line': ob.line, 'verdict': ob.verdict,
                                'backend': ob.backend, 'time_s': round(ob.time, 4), 'model': ob.model})
        res.solver_time += ob.time
    res.solver_time += vm.solver_time
    res.wall = time.time() - t_start
    return res


def _run_path(vm, contract, module, fnode, chain):
    env = vm.module_env(module)
    state = contract.setup(vm, module, env)
    # state: dict(args=[...], kwargs={}, closure_env={name: value}, self=...)
    closure_env = Env(env, state.get('closure_env', {}))
    clo = Closure(fnode, closure_env, fnode.name)
    clo.kind = 'inst'
    vm.cover('requires')
    try:
        result = vm.call_closure(clo, state.get('args', []), state.get('kwargs', {}))
    except PyRaise as e:
        vm.cover('exit.raise.%s' % e.exc_class.name)
        goals = contract.raises(vm, state, e.exc_class, e.exc_args) if contract.raises else None
        if goals is None:
            vm.oblige('raises.%s:not-allowed' % e.exc_class.name, False, 'raises', vm.cur_line)
        else:
            for label, goal in goals:
                vm.oblige('raises.%s/%s' % (e.exc_class.name, label), goal, 'raises', vm.cur_line)
        return
    vm.cover('exit.return')
    if contract.modifies is not None:
        extra = set(a for a in vm.path.stored if not a.endswith('#none')) - set(contract.modifies)
        if extra:
            vm.oblige('frame:%s' % ','.join(sorted(extra)), False, 'frame', vm.cur_line)
    if contract.post:
        for label, goal in contract.post(vm, state, result):
            vm.oblige('post.%s' % label, goal, 'post', vm.cur_line)


def discharge(ob, axioms, timeout_ms, contract, want_models=True):
    """portfolio: z3 (short budget) -> cvc5 -> ground small-scope refutation (cvc5, z3) -> z3 (full budget).
    proved = unsat from z3 or cvc5 on the full (quantified) query; refuted = sat on the full query, or
    sat on the ground-instantiated small-scope query (backend *-ground)"""
    t0 = time.time()

    def mk(timeout):
        s = z3.Solver()
        s.set('timeout', timeout)
        for a in axioms:
            s.add(a)
        for c in ob.pc:
            s.add(c)
        s.add(z3.Not(ob.goal))
        return s

    short = min(4000, timeout_ms)
    s = mk(short)
    r = s.check()
    ob.backend = 'z3'
    if r == z3.unknown and (contract.case_split or getattr(ob, 'split_terms', None)):
        v = _case_split(ob, axioms, timeout_ms, contract)
        if v == 'unsat':
            r = z3.unsat
            ob.backend = 'z3+split'
    if r == z3.unknown and timeout_ms > 15000:
        # a second, longer z3 attempt before the refutation portfolio: under load (16 workers) a query that needs
        # 2-3 s unloaded can miss the short budget; true obligations should not pay for the refuters
        s = mk(15000)
        r = s.check()
    if r == z3.unknown:
        v = _cvc5(s, min(timeout_ms, 8000))
        if v == 'unsat':
            r, ob.backend = z3.unsat, 'cvc5'
        elif v == 'sat':
            ob.verdict, ob.backend = 'refuted', 'cvc5'
            ob.model = {'note': 'cvc5 found the negated obligation satisfiable'}
            ob.time = time.time() - t0
            return
    if r == z3.unknown:
        from .lenabs import length_refute
        m = length_refute(ob.pc, ob.goal)
        if m is not None:
            ob.verdict, ob.model, ob.backend = 'refuted', m, 'z3-length'
            ob.time = time.time() - t0
            return
        from .lenabs import bounded_seq_refute
        m = bounded_seq_refute(ob.pc, ob.goal, axioms)
        if m is not None:
            ob.verdict, ob.model, ob.backend = 'refuted', m, 'z3-seq-bounded'
            ob.time = time.time() - t0
            return
    if r == z3.unknown:
        m = ground_refute(ob, axioms, timeout_ms)
        if m is not None:
            ob.verdict, ob.model = 'refuted', m
            ob.backend = m.pop('backend', 'z3-ground')
            ob.time = time.time() - t0
            return
    if r == z3.unknown and timeout_ms > short:
        s = mk(timeout_ms)
        r = s.check()
        ob.backend = 'z3'
    if r == z3.unsat:
        ob.verdict = 'proved'
    elif r == z3.sat:
        ob.verdict = 'refuted'
        if want_models:
            ob.model = model_summary(s.model())
    else:
        ob.verdict = 'unknown'
    ob.time = time.time() - t0


def _case_split(ob, axioms, timeout_ms, contract):
    """prove under each combination of values of small-domain terms named by the contract"""
    import itertools
    splits = list(getattr(ob, 'split_terms', None) or [])
    if contract.case_split:
        splits += list(contract.case_split(ob) or [])
    if not splits:
        return None
    splits = splits[:3]
    terms = [t for t, _ in splits]
    for combo in itertools.product(*[vals for _, vals in splits]):
        s = z3.Solver()
        s.set('timeout', timeout_ms)
        for a in axioms:
            s.add(a)
        for c in ob.pc:
            s.add(c)
        for t, v in zip(terms, combo):
            s.add(t == v)
        s.add(z3.Not(ob.goal))
        r = s.check()
        if r == z3.sat:
            return 'sat'
        if r != z3.unsat:
            return None
    # also need: the terms take no other value
    s = z3.Solver()
    s.set('timeout', timeout_ms)
    for c in ob.pc:
        s.add(c)
    s.add(z3.Not(z3.And(*[z3.Or(*[t == v for v in vals]) for t, vals in splits])))
    if s.check() != z3.unsat:
        return None
    return 'unsat'


def _cvc5(solver, timeout_ms, values=None):
    """run /usr/bin/cvc5 on the solver's assertions; returns 'sat' / 'unsat' / None, or
    (verdict, {name: value}) when `values` (names of Int constants) is given"""
    try:
        text = solver.to_smt2()
    except Exception:
        return None
    text = '(set-logic ALL)\n' + text
    if values:
        text += '\n(get-value (%s))\n' % ' '.join('|%s|' % v if not v.isidentifier() else v for v in values)
    fd, path = tempfile.mkstemp(suffix='.smt2', prefix='vf-')
    try:
        with os.fdopen(fd, 'w') as f:
            f.write(text)
        cmd = ['/usr/bin/cvc5', '--lang=smt2', '--strings-exp', '--tlimit=%d' % timeout_ms]
        if values:
            cmd.append('--produce-models')
        p = subprocess.run(cmd + [path], capture_output=True, text=True, timeout=timeout_ms / 1000.0 + 10)
        out = p.stdout.strip().splitlines()
        if out and out[0] in ('unsat', 'sat'):
            if values:
                return out[0], ' '.join(out[1:])[:1500]
            return out[0]
    except Exception:
        return None
    finally:
        try:
            os.unlink(path)
        except OSError:
            pass
    return None


def model_summary(m, limit=60):
    out = {}
    for d in m.decls()[:limit]:
        if d.arity() == 0:
            try:
                out[d.name()] = str(m[d])[:200]
            except Exception:
                pass
    return out


def _int_consts(t, acc, depth=0):
    if depth > 40:
        return
    if z3.is_quantifier(t):
        _int_consts(t.body(), acc, depth + 1)
        return
    if z3.is_const(t) and t.decl().kind() == z3.Z3_OP_UNINTERPRETED and t.sort() == z3.IntSort():
        acc[t.decl().name()] = t
    for c in t.children():
        _int_consts(c, acc, depth + 1)


def _instantiate(q, terms):
    """all instances of a top-level universal quantifier over Int variables at the given terms"""
    import itertools
    nv = q.num_vars()
    if any(q.var_sort(i) != z3.IntSort() for i in range(nv)):
        return None
    out = []
    pool = terms if nv == 1 else terms[:8]
    for combo in itertools.product(pool, repeat=nv):
        # de Bruijn: variable 0 is the innermost (last declared)
        out.append(z3.substitute_vars(q.body(), *reversed(combo)))
    return out


def _has_var(t, depth=0):
    if z3.is_var(t):
        return True
    if depth > 30:
        return True
    return any(_has_var(c, depth + 1) for c in t.children())


def _index_terms(t, acc, depth=0):
    """ground Int arguments of uninterpreted unary functions (sequence element / spec functions)"""
    if depth > 60:
        return
    if z3.is_quantifier(t):
        _index_terms(t.body(), acc, depth + 1)
        return
    if z3.is_app(t) and t.decl().kind() == z3.Z3_OP_UNINTERPRETED and t.num_args() == 1 \
            and t.arg(0).sort() == z3.IntSort() and not _has_var(t.arg(0)):
        acc[str(t.arg(0))] = t.arg(0)
    for c in t.children():
        _index_terms(c, acc, depth + 1)


def ground_refute(ob, axioms, timeout_ms):
    idx = {}
    for c in ob.pc:
        _index_terms(c, idx)
    _index_terms(ob.goal, idx)
    terms = {'0': z3.IntVal(0)}
    for k in sorted(idx):
        t = idx[k]
        terms[str(t)] = t
        if z3.is_const(t) and not z3.is_int_value(t):
            for d in (t - 1, t + 1):
                terms[str(z3.simplify(d))] = d
    # skolemise a universally quantified goal by hand so that its witness is an instantiation term
    neg_goal = z3.Not(ob.goal)
    if z3.is_quantifier(ob.goal) and ob.goal.is_forall():
        sks = [z3.Const('sk!%d' % i, ob.goal.var_sort(i)) for i in range(ob.goal.num_vars())]
        neg_goal = z3.Not(z3.substitute_vars(ob.goal.body(), *reversed(sks)))
        pre_terms = {}
        for sk in sks:
            if sk.sort() == z3.IntSort():
                for d in (sk, sk + 1, sk - 1):
                    pre_terms[str(d)] = d
        pre_terms.update(terms)
        terms = pre_terms
    bound = getattr(ob, 'lengths', None) or []
    for i in range(0, 4):
        terms.setdefault(str(i), z3.IntVal(i))
    terms = list(terms.values())[:18]
    s = z3.Solver()
    for ln in bound:
        s.add(ln <= 3)          # small-scope refutation: sequences of length <= 3
    for a in axioms:
        s.add(a)
    for c in ob.pc:
        if z3.is_quantifier(c) and c.is_forall():
            inst = _instantiate(c, terms)
            if inst is None:
                continue
            for i in inst:
                if z3.is_quantifier(i) and i.is_forall():
                    inner = _instantiate(i, terms)
                    for ii in (inner or []):
                        s.add(ii)
                else:
                    s.add(i)
        else:
            s.add(c)
    s.add(neg_goal)
    # z3 is unstable on these ground queries (same query: 48 s / timeout); cvc5 decides them in < 1 s
    names = [d.name() for d in _decl_consts(s)][:40]
    v = _cvc5(s, min(max(timeout_ms, 8000), 20000), values=names)
    if v and v[0] == 'sat':
        return {'backend': 'cvc5-ground', 'values': v[1],
                'note': 'small-scope (sequence lengths <= 3) ground-instantiated refutation at %d index terms' % len(terms)}
    if v and v[0] == 'unsat':
        return None
    s.set('timeout', min(max(timeout_ms, 8000), 20000))
    r = s.check()
    if r == z3.sat:
        m = model_summary(s.model())
        m['note'] = 'small-scope ground-instantiated refutation at %d index terms' % len(terms)
        m['backend'] = 'z3-ground'
        return m
    return None


def _decl_consts(solver):
    seen = {}
    for a in solver.assertions():
        acc = {}
        _int_consts(a, acc)
        seen.update(acc)
    return [seen[k].decl() for k in sorted(seen)]
