"""
vf/builtins.py -- the builtin table of PyVC: hand-written contracts for CPython builtins
(= assumptions, listed in the evidence; cross-checked against CPython by vf/selftest.py).
"""
import ast

import z3

from .pyvc import (Sym, SInt, SBool, SOpt, STruth, SFloatQuot, SRef, SOptRef, SSeq, SBytes, SStr, Closure, ClassInfo,
                   Env, OutOfSubset, PathEnd, PyRaise, BoundMethod)
from . import interp as I


def _b(t):
    return z3.BoolVal(t) if isinstance(t, bool) else t


def sym_fold_source(vm, arg):
    """if arg is a generator expression / sequence over an SSeq of symbolic length, return
    (seq, elem_fn) where elem_fn(j) evaluates the element for index term j in pure mode"""
    if isinstance(arg, I.GenCall):
        arg = vm.gencall_as_sseq(arg)
        if arg is None:
            return None
    if isinstance(arg, SSeq):
        n = z3.simplify(arg.length)
        if z3.is_int_value(n):
            return None
        return arg, (lambda j: arg.elem(j)), None
    if isinstance(arg, I.LazyGen):
        gens = arg.node.generators
        if len(gens) != 1:
            return None
        saved_pure = vm.pure
        it = vm.eval(gens[0].iter, arg.env)
        if isinstance(it, I.GenCall):
            it = vm.gencall_as_sseq(it)
        if not isinstance(it, SSeq):
            return None
        n = z3.simplify(it.length)
        if z3.is_int_value(n):
            return None
        g = gens[0]

        def elem(j, what='elt'):
            e2 = Env(arg.env)
            vm.assign_target(g.target, it.elem(j), e2)
            vm.pure += 1
            saved = len(vm.path.pc)
            vm.path.pc.append(z3.And(0 <= j, j < it.length))     # obligations inside hold for in-range j
            try:
                if what == 'elt':
                    return vm.eval(arg.node.elt, e2)
                conds = [_b(vm.truthy(vm.eval(c, e2, I.TRUTH))) for c in g.ifs]
                return z3.And(*conds) if conds else z3.BoolVal(True)
            finally:
                vm.pure -= 1
                del vm.path.pc[saved:]                            # assumptions made inside do not leak

        return it, (lambda j: elem(j, 'elt')), ((lambda j: elem(j, 'if')) if g.ifs else None)
    return None


def call_builtin(vm, name, args, kwargs, ctx):
    f = globals().get('b_' + name)
    if f is None:
        raise OutOfSubset('builtin %s' % name)
    return f(vm, args, kwargs, ctx)


def b_len(vm, args, kwargs, ctx):
    x = args[0]
    if isinstance(x, SSeq):
        return SInt(x.length)
    if isinstance(x, SBytes):
        return SInt(z3.Length(x.t))
    if isinstance(x, I.LazyGen):
        raise PyRaise(I.ExcClass('TypeError'))
    if hasattr(x, 'sym_len'):
        return x.sym_len(vm)
    if isinstance(x, SRef):
        hook = vm.hooks.get('len')
        if hook:
            r = hook(vm, x)
            if r is not NotImplemented:
                return r
        cls = x.cls
        if isinstance(cls, ClassInfo) and cls.lookup('__len__'):
            return vm.call_closure(cls.lookup('__len__')[1], [x], {})
        raise OutOfSubset('len of object')
    if isinstance(x, Sym):
        raise OutOfSubset('len of %r' % (x,))
    return len(x)


def _minmax(vm, args, kwargs, is_max):
    if len(args) == 1 and kwargs.get('key') is not None and isinstance(args[0], I.GenCall) and not isinstance(args[0], SSeq):
        s = vm.gencall_as_sseq(args[0])
        if s is not None:
            args = [s]
    if len(args) == 1 and kwargs.get('key') is not None and isinstance(args[0], SSeq):
        # max(seq, key=f) over a sequence of symbolic length: some element whose key no other element's key exceeds
        # (CPython returns the first such; which one is left open, so every choice is covered)
        seq, key = args[0], kwargs['key']
        n = seq.length
        vm.oblige('noexc.ValueError:%s-of-empty' % ('max' if is_max else 'min'), n > 0, 'noexc', vm.cur_line)
        vm.assume(n > 0)
        w, j = vm.fresh('w'), vm.fresh('j')
        vm.assume(z3.And(0 <= w, w < n))
        kw = vm.under(z3.BoolVal(True), lambda: vm.as_int(vm.call(key, [seq.elem(w)], {})))
        kj = vm.under(z3.And(0 <= j, j < n), lambda: vm.as_int(vm.call(key, [seq.elem(j)], {})))
        vm.assume(z3.ForAll([j], z3.Implies(z3.And(0 <= j, j < n), (kj <= kw) if is_max else (kj >= kw)), patterns=_patterns(kj, j)))
        return seq.elem(w)
    if len(args) == 1:
        src = sym_fold_source(vm, args[0])
        if src:
            seq, elem, cond = src
            if cond is not None:
                raise OutOfSubset('filtered max/min over symbolic sequence')
            n = seq.length
            vm.oblige('noexc.ValueError:%s-of-empty' % ('max' if is_max else 'min'), n > 0, 'noexc', vm.cur_line)
            vm.assume(n > 0)
            r = vm.fresh('max' if is_max else 'min')
            j = vm.fresh('j')
            e = vm.under(z3.And(0 <= j, j < n), lambda: vm.as_int(elem(j)))
            bound = (e <= r) if is_max else (e >= r)
            vm.assume(z3.ForAll([j], z3.Implies(z3.And(0 <= j, j < n), bound), patterns=_patterns(e, j)))
            w = vm.fresh('w')
            vm.assume(z3.And(0 <= w, w < n))
            ew = vm.under(z3.BoolVal(True), lambda: vm.as_int(elem(w)))
            vm.assume(ew == r)
            return SInt(r)
        items = list(vm.iterate(args[0]))
    else:
        items = list(args)
    if not items:
        vm.oblige('noexc.ValueError:%s-of-empty' % ('max' if is_max else 'min'), False, 'noexc', vm.cur_line)
        raise PyRaise(I.ExcClass('ValueError'))
    if not any(isinstance(x, Sym) for x in items):
        return max(items) if is_max else min(items)
    acc = vm.as_int(items[0])
    for x in items[1:]:
        y = vm.as_int(x)
        acc = z3.If(y > acc, y, acc) if is_max else z3.If(y < acc, y, acc)
    return SInt(acc)


def _patterns(e, j):
    """a usable e-matching pattern for a body over bound index j, or none"""
    try:
        cands = []

        def visit(t):
            if z3.is_app(t) and t.num_args() > 0 and t.decl().kind() in (z3.Z3_OP_UNINTERPRETED, z3.Z3_OP_SELECT):
                if _mentions(t, j):
                    cands.append(t)
                    return
            for c in t.children():
                visit(c)

        visit(e)
        if cands:
            return [cands[0]]
    except Exception:
        pass
    return []


def _mentions(t, j):
    if t.eq(j):
        return True
    return any(_mentions(c, j) for c in t.children())


def b_max(vm, args, kwargs, ctx):
    return _minmax(vm, args, kwargs, True)


def b_min(vm, args, kwargs, ctx):
    return _minmax(vm, args, kwargs, False)


def _seq_pick(vm, i, old_len, old_elem, new):
    return vm.merge(i < old_len, old_elem(i), new)


def b_sum(vm, args, kwargs, ctx):
    if isinstance(args[0], I.GenCall) and vm.gencall_as_sseq(args[0]) is None:
        # sum(<generator function call>): run the generator body, accumulating the yields in the
        # ghost local __acc__ (loops inside are annotated and mention __acc__ in their invariants)
        gc = args[0]
        gc.env.set('__acc__', args[1] if len(args) > 1 else 0)
        old = vm.hooks.get('yield')
        vm.hooks['yield'] = lambda v: gc.env.set('__acc__', vm.binop(ast.Add(), gc.env.get('__acc__'), v))
        try:
            try:
                vm.exec_block(gc.clo.node.body, gc.env)
            except I._Return:
                pass
        finally:
            if old is None:
                vm.hooks.pop('yield', None)
            else:
                vm.hooks['yield'] = old
        return gc.env.get('__acc__')
    src = sym_fold_source(vm, args[0])
    if src:
        seq, elem, cond = src
        hook = vm.hooks.get('sum')
        if hook:
            r = hook(vm, seq, elem, cond)
            if r is not NotImplemented:
                return r
        raise OutOfSubset('sum over a sequence of symbolic length (no fold lemma in the contract)')
    items = list(vm.iterate(args[0]))
    acc = args[1] if len(args) > 1 else 0
    for x in items:
        acc = vm.binop(ast.Add(), acc, x)
    return acc


def _anyall(vm, args, is_any):
    src = sym_fold_source(vm, args[0])
    if src:
        seq, elem, cond = src
        n = seq.length
        j = vm.fresh('j')
        body = vm.under(z3.And(0 <= j, j < n), lambda: _b(vm.truthy(elem(j))))
        if cond is not None:
            c = cond(j)
            body = z3.And(c, body) if is_any else z3.Implies(c, body)
        rng = z3.And(0 <= j, j < n)
        if is_any:
            return SBool(z3.Exists([j], z3.And(rng, body)))
        return SBool(z3.ForAll([j], z3.Implies(rng, body)))
    items = vm.iterate(args[0])
    terms = []
    for x in items:
        t = vm.truthy(x)
        if isinstance(t, bool):
            if t == is_any:
                return is_any
            continue
        terms.append(t)
    if not terms:
        return not is_any
    return SBool(z3.Or(*terms) if is_any else z3.And(*terms))


def b_any(vm, args, kwargs, ctx):
    return _anyall(vm, args, True)


def b_all(vm, args, kwargs, ctx):
    return _anyall(vm, args, False)


def b_abs(vm, args, kwargs, ctx):
    x = args[0]
    if isinstance(x, Sym):
        t = vm.as_int(x)
        return SInt(z3.If(t < 0, -t, t))
    return abs(x)


def b_bool(vm, args, kwargs, ctx):
    if not args:
        return False
    t = vm.truthy(args[0])
    return t if isinstance(t, bool) else SBool(t)


def b_int(vm, args, kwargs, ctx):
    if not args:
        return 0
    x = args[0]
    if isinstance(x, SFloatQuot):
        # int(a / b): exact when |a| < 2**53 (double has 53 mantissa bits) -- obligation; then it is
        # truncation toward zero
        lim = 2 ** 53
        vm.oblige('float.exact:int(a/b) operands below 2**53', z3.And(x.num < lim, x.num > -lim, x.den < lim, x.den > -lim),
                  'noexc', vm.cur_line)
        q = x.num / x.den   # Euclidean
        r = x.num % x.den
        same_sign = z3.Or(x.num >= 0, r == 0)
        trunc = z3.If(same_sign, q, z3.If(x.den > 0, q + 1, q - 1))
        return SInt(trunc)
    if isinstance(x, (SInt, SBool)):
        return SInt(vm.as_int(x))
    if isinstance(x, SOpt):
        vm.oblige('noexc.TypeError:int(None)', z3.Not(x.isnone), 'noexc', vm.cur_line)
        vm.assume(z3.Not(x.isnone))
        return SInt(x.val)
    if isinstance(x, Sym):
        hook = vm.hooks.get('int')
        if hook:
            r = hook(vm, args)
            if r is not NotImplemented:
                return r
        raise OutOfSubset('int(%r)' % (x,))
    try:
        return int(*args)
    except ValueError:
        vm.oblige('noexc.ValueError:int()', False, 'noexc', vm.cur_line)
        raise PyRaise(I.ExcClass('ValueError'))
    except TypeError:
        vm.oblige('noexc.TypeError:int()', False, 'noexc', vm.cur_line)
        raise PyRaise(I.ExcClass('TypeError'))


def b_str(vm, args, kwargs, ctx):
    x = args[0] if args else ''
    if isinstance(x, Sym):
        hook = vm.hooks.get('str')
        if hook:
            r = hook(vm, x)
            if r is not NotImplemented:
                return r
        raise OutOfSubset('str(%r)' % (x,))
    if isinstance(x, I.ExcInstance):
        return str(x.args[0]) if x.args else ''
    return str(x)


def b_repr(vm, args, kwargs, ctx):
    if isinstance(args[0], Sym):
        raise OutOfSubset('repr of symbolic')
    return repr(args[0])


def class_of(vm, x):
    if isinstance(x, bool):
        return 'bool'
    if isinstance(x, int):
        return 'int'
    if isinstance(x, str):
        return 'str'
    if isinstance(x, bytes):
        return 'bytes'
    if isinstance(x, float):
        return 'float'
    if isinstance(x, tuple):
        return 'tuple'
    if isinstance(x, list):
        return 'list'
    if isinstance(x, dict):
        return 'dict'
    if isinstance(x, set):
        return 'set'
    if x is None:
        return 'NoneType'
    if isinstance(x, SInt):
        return 'int'
    if isinstance(x, SBool):
        return 'bool'
    if isinstance(x, SBytes):
        return 'bytes'
    if isinstance(x, SStr):
        return 'str'
    if isinstance(x, SFloatQuot):
        return 'float'
    return None


PY_TYPES = {'int': ('int', 'bool'), 'bool': ('bool',), 'str': ('str',), 'bytes': ('bytes',), 'float': ('float',),
            'tuple': ('tuple',), 'list': ('list',), 'dict': ('dict',), 'set': ('set',), 'long': ('int', 'bool'),
            'object': None}


def b_isinstance(vm, args, kwargs, ctx):
    x, c = args
    hook = vm.hooks.get('isinstance')
    if hook:
        r = hook(vm, x, c)
        if r is not NotImplemented:
            return r
    cs = c if isinstance(c, tuple) else (c,)
    cs = [vm.resolve_lazy(k) for k in cs]
    flat = []
    for k in cs:
        if isinstance(k, tuple):
            flat.extend(vm.resolve_lazy(q) for q in k)
        else:
            flat.append(k)
    if isinstance(x, SOptRef):
        inner = b_isinstance(vm, [SRef(x.t, x.cls, False), c], kwargs, ctx)
        return SBool(z3.And(z3.Not(x.isnone), _b(vm.truthy(inner))))
    if isinstance(x, SOpt):
        if any(isinstance(k, I.Builtin) and k.name in ('int', 'long') for k in flat):
            return SBool(z3.Not(x.isnone))
        return False
    if isinstance(x, SRef):
        terms = []
        for k in flat:
            if isinstance(k, ClassInfo):
                if isinstance(x.cls, ClassInfo) and x.exact:
                    if x.cls.is_subclass(k):
                        return True
                    continue
                if isinstance(x.cls, ClassInfo) and x.cls.is_subclass(k):
                    return True
                subs = [c2 for c2 in vm.known_classes() if c2.is_subclass(k)]
                terms.append(z3.Or(*[vm.clsid(x.t) == vm.class_id(c2) for c2 in subs]) if subs else z3.BoolVal(False))
            elif isinstance(k, I.Builtin):
                if k.name == 'object':
                    return True
                continue
            else:
                raise OutOfSubset('isinstance against %r' % (k,))
        if not terms:
            return False
        return SBool(z3.Or(*terms))
    cn = class_of(vm, x)
    if cn is None:
        if isinstance(x, (Closure, ClassInfo, BoundMethod)):
            return False
        raise OutOfSubset('isinstance of %r' % (x,))
    for k in flat:
        if isinstance(k, I.Builtin):
            allowed = PY_TYPES.get(k.name, ())
            if allowed is None or cn in allowed:
                return True
        elif isinstance(k, (ClassInfo, I.ExcClass)):
            continue
        else:
            raise OutOfSubset('isinstance against %r' % (k,))
    return False


def b_issubclass(vm, args, kwargs, ctx):
    hook = vm.hooks.get('issubclass')
    if hook:
        r = hook(vm, args[0], args[1])
        if r is not NotImplemented:
            return r
    x, c = args
    cs = c if isinstance(c, tuple) else (c,)
    if isinstance(x, ClassInfo):
        return any(isinstance(k, ClassInfo) and x.is_subclass(k) for k in cs)
    raise OutOfSubset('issubclass(%r, ...)' % (x,))


def b_range(vm, args, kwargs, ctx):
    if any(isinstance(a, Sym) for a in args):
        if len(args) == 1:
            n = vm.as_int(args[0])
            n = z3.If(n < 0, z3.IntVal(0), n)
            return SSeq(n, lambda i: SInt(i), 'range')
        if len(args) == 2:
            lo, hi = vm.as_int(args[0]), vm.as_int(args[1])
            n = z3.If(hi > lo, hi - lo, z3.IntVal(0))
            return SSeq(n, lambda i: SInt(lo + i), 'range')
        raise OutOfSubset('range with symbolic step')
    return range(*args)


b_xrange = b_range


def b_enumerate(vm, args, kwargs, ctx):
    it = args[0]
    start = args[1] if len(args) > 1 else kwargs.get('start', 0)
    if isinstance(it, SSeq):
        s = vm.as_int(start)
        return SSeq(it.length, lambda i: (SInt(z3.simplify(s + i)), it.elem(i)), 'enumerate')
    items = vm.iterate(it)
    if isinstance(items, SSeq):          # an abstract iterable whose `iterate` hook yields a sequence of symbolic length
        s, seq = vm.as_int(start), items
        return SSeq(seq.length, lambda i: (SInt(z3.simplify(s + i)), seq.elem(i)), 'enumerate')
    return [(vm.binop(ast.Add(), start, i) if isinstance(start, Sym) else start + i, x)
            for i, x in enumerate(items)]


def b_zip(vm, args, kwargs, ctx):
    if any(isinstance(a, SSeq) and not z3.is_int_value(z3.simplify(a.length)) for a in args):
        seqs = [a if isinstance(a, SSeq) else _as_sseq(vm, a) for a in args]
        n = seqs[0].length
        for s in seqs[1:]:
            n = z3.If(s.length < n, s.length, n)
        return SSeq(n, lambda i: tuple(s.elem(i) for s in seqs), 'zip')
    return list(zip(*[vm.iterate(a) for a in args]))


def _as_sseq(vm, a):
    items = list(vm.iterate(a))
    raise OutOfSubset('zip of symbolic and concrete sequences')


def b_reversed(vm, args, kwargs, ctx):
    it = args[0]
    if isinstance(it, SSeq):
        n = it.length
        return SSeq(n, lambda i: it.elem(n - 1 - i), 'reversed')
    return list(reversed(vm.iterate(it)))


def b_list(vm, args, kwargs, ctx):
    if not args:
        return []
    x = args[0]
    if isinstance(x, SSeq):
        n = z3.simplify(x.length)
        if not z3.is_int_value(n):
            return x      # immutable view; mutation of it is out of subset
    if isinstance(x, I.GenCall):
        seq = vm.gencall_as_sseq(x)
        if seq is not None:
            return b_list(vm, [seq], kwargs, ctx)
        return run_generator(vm, x)
    return list(vm.iterate(x))


def b_tuple(vm, args, kwargs, ctx):
    if args and isinstance(args[0], I.LazyGen):
        node = args[0].node
        if len(node.generators) == 1 and node.generators[0].ifs and isinstance(node.elt, ast.Name) \
                and isinstance(node.generators[0].target, ast.Name) and node.elt.id == node.generators[0].target.id:
            # tuple(x for x in seq if p(x)) over a sequence of symbolic length: a filter (see Interp.e_ListComp)
            lc = ast.ListComp(elt=node.elt, generators=node.generators)
            ast.copy_location(lc, node)
            r = vm.e_ListComp(lc, args[0].env, ctx)
            if isinstance(r, I.SFilter):
                return r
            return tuple(r)
    return tuple(vm.iterate(args[0])) if args else ()


def b_set(vm, args, kwargs, ctx):
    if not args:
        return set()
    items = vm.iterate(args[0])
    if any(isinstance(i, Sym) for i in items):
        raise OutOfSubset('set of symbolic values')
    return set(items)


def b_dict(vm, args, kwargs, ctx):
    d = {}
    if args:
        src = args[0]
        if isinstance(src, dict):
            d.update(src)
        else:
            for k, v in vm.iterate(src):
                d[k] = v
    d.update(kwargs)
    return d


def b_sorted(vm, args, kwargs, ctx):
    items = vm.iterate(args[0])
    if any(isinstance(i, Sym) for i in items):
        raise OutOfSubset('sorted of symbolic values')
    return sorted(items)


def b_map(vm, args, kwargs, ctx):
    fn, it = args[0], args[1]
    if isinstance(it, SSeq) and not z3.is_int_value(z3.simplify(it.length)):
        # map over a sequence of symbolic length; it is consumed (materialised) by the caller at once, so the
        # callee's effects (a rejecting check) are modelled here -- see Interp.map_effects
        def elem(i):
            vm.pure += 1
            try:
                return vm.call(fn, [it.elem(i)], {})
            finally:
                vm.pure -= 1
        vm.map_effects(it.length, elem)
        return SSeq(it.length, elem, 'map(%s)' % it.name)
    return [vm.call(fn, [x], {}) for x in vm.iterate(it)]


def b_filter(vm, args, kwargs, ctx):
    fn, it = args
    out = []
    for x in vm.iterate(it):
        if vm.decide(vm.truthy(vm.call(fn, [x], {}))):
            out.append(x)
    return out


def b_getattr(vm, args, kwargs, ctx):
    obj, name = args[0], args[1]
    if isinstance(name, Sym):
        hook = vm.hooks.get('getattr_dyn')
        if hook:
            r = hook(vm, *args)
            if r is not NotImplemented:
                return r
        raise OutOfSubset('getattr with symbolic name')
    try:
        return vm.getattr(obj, name)
    except OutOfSubset:
        if len(args) > 2:
            # absent attribute only when the shape table knows the object cannot have it
            raise
        raise


def b_setattr(vm, args, kwargs, ctx):
    obj, name, val = args
    if isinstance(name, Sym):
        hook = vm.hooks.get('setattr_dyn')
        if hook and hook(vm, obj, name, val) is not NotImplemented:
            return None
        raise OutOfSubset('setattr with symbolic name')
    vm.setattr(obj, name, val)
    return None


def b_hasattr(vm, args, kwargs, ctx):
    obj, name = args
    hook = vm.hooks.get('hasattr')
    if hook:
        r = hook(vm, obj, name)
        if r is not NotImplemented:
            return r
    if isinstance(obj, ClassInfo):
        return obj.lookup(name) is not None
    raise OutOfSubset('hasattr')


def b_next(vm, args, kwargs, ctx):
    it = args[0]
    if isinstance(it, I.LazyGen):
        # next(<generator expression>): first element satisfying the filter
        node = it.node
        g = node.generators[0]
        if len(node.generators) == 1:
            src = vm.eval(g.iter, it.env)
            if isinstance(src, I.GenCall):
                src = vm.gencall_as_sseq(src) or src
            if isinstance(src, SSeq) and not z3.is_int_value(z3.simplify(src.length)):
                # first element of a sequence of symbolic length satisfying the filter (least index), or the default
                def pred(i):
                    e2 = Env(it.env)
                    vm.assign_target(g.target, src.elem(i), e2)
                    vm.pure += 1
                    try:
                        cs = [_b(vm.truthy(vm.eval(c, e2, I.TRUTH))) for c in g.ifs]
                        return z3.And(*cs) if cs else z3.BoolVal(True)
                    finally:
                        vm.pure -= 1
                flt = I.SFilter(vm, src, pred)
                if vm.decide(flt.nonempty):
                    e2 = Env(it.env)
                    vm.assign_target(g.target, flt.first(vm), e2)
                    return vm.eval(node.elt, e2)
                if len(args) > 1:
                    return args[1]
                raise PyRaise(I.ExcClass('StopIteration'))
            seq = vm.iterate(src)
            for item in seq:
                e2 = Env(it.env)
                vm.assign_target(g.target, item, e2)
                ok = True
                for cond in g.ifs:
                    if not vm.decide(vm.truthy(vm.eval(cond, e2, I.TRUTH))):
                        ok = False
                        break
                if ok:
                    return vm.eval(node.elt, e2)
            if len(args) > 1:
                return args[1]
            vm.oblige('noexc.StopIteration', False, 'noexc', vm.cur_line)
            raise PyRaise(I.ExcClass('StopIteration'))
    items = vm.iterate(it)
    if items:
        return items[0]
    if len(args) > 1:
        return args[1]
    vm.oblige('noexc.StopIteration', False, 'noexc', vm.cur_line)
    raise PyRaise(I.ExcClass('StopIteration'))


def b_divmod(vm, args, kwargs, ctx):
    a, b = args
    return (vm.binop(ast.FloorDiv(), a, b), vm.binop(ast.Mod(), a, b))


def b_type(vm, args, kwargs, ctx):
    x = args[0]
    if isinstance(x, SRef) and isinstance(x.cls, ClassInfo) and x.exact:
        return x.cls
    hook = vm.hooks.get('type')
    if hook:
        r = hook(vm, x)
        if r is not NotImplemented:
            return r
    raise OutOfSubset('type() of %r' % (x,))


def b_print(vm, args, kwargs, ctx):
    return None


def b_islice(vm, args, kwargs, ctx):
    it = args[0]
    lo = args[1] if len(args) > 2 else 0
    hi = args[2] if len(args) > 2 else args[1]
    return vm.slice(it if isinstance(it, (SSeq, list, tuple)) else list(vm.iterate(it)), lo, hi)


def b_iter(vm, args, kwargs, ctx):
    return args[0]


def b_float(vm, args, kwargs, ctx):
    raise OutOfSubset('float()')


def b_bytes(vm, args, kwargs, ctx):
    if not args:
        return b''
    if isinstance(args[0], (SBytes, bytes)):
        return args[0]
    raise OutOfSubset('bytes()')


def b_super(vm, args, kwargs, ctx):
    raise OutOfSubset('super()')


def run_generator(vm, gc):
    """execute a generator function body, collecting yields (eager; sound when the consumer has no
    side effects interleaved with the producer -- stated in DESIGN 3.2)"""
    out = []
    old = vm.hooks.get('yield')
    vm.hooks['yield'] = lambda v: out.append(v)
    try:
        try:
            vm.exec_block(gc.clo.node.body, gc.env)
        except I._Return:
            pass
    finally:
        if old is None:
            vm.hooks.pop('yield', None)
        else:
            vm.hooks['yield'] = old
    return out


# ------------------------------------------------------------------ methods of builtin types

def call_method(vm, obj, name, args, kwargs):
    if isinstance(obj, SSeq) and name == 'append' and getattr(obj, 'fn', None) is None:
        # in-place append on a (local, computed) sequence of symbolic length
        old_len, old_elem, new = obj.length, obj.elem, args[0]
        obj.length = old_len + 1
        obj.elem = lambda i: _seq_pick(vm, i, old_len, old_elem, new)
        return None
    if isinstance(obj, list):
        if name == 'append':
            obj.append(args[0])
            return None
        if name == 'extend':
            obj.extend(vm.iterate(args[0]))
            return None
        if name == 'insert' and not isinstance(args[0], Sym):
            obj.insert(args[0], args[1])
            return None
        if name == 'pop' and not any(isinstance(a, Sym) for a in args):
            try:
                return obj.pop(*args)
            except IndexError:
                vm.oblige('noexc.IndexError', False, 'noexc', vm.cur_line)
                raise PyRaise(I.ExcClass('IndexError'))
        if name == 'index':
            for i, x in enumerate(obj):
                if vm.decide(_b(vm.truthy(vm.equal(x, args[0])))):
                    return i
            vm.oblige('noexc.ValueError:list.index', False, 'noexc', vm.cur_line)
            raise PyRaise(I.ExcClass('ValueError'))
    if isinstance(obj, dict):
        if name == 'get':
            k = args[0]
            default = args[1] if len(args) > 1 else None
            if not isinstance(k, Sym):
                return obj.get(k, default)
            if isinstance(k, SStr):
                for kk in obj:
                    if isinstance(kk, str) and vm.decide(vm.as_str(k) == vm.as_str(kk)):
                        return obj[kk]
                return default
        if name in ('items', 'keys', 'values'):
            return list(getattr(obj, name)())
        if name == 'update':
            obj.update(args[0])
            return None
        if name == 'pop' and not isinstance(args[0], Sym):
            if args[0] in obj:
                return obj.pop(args[0])
            if len(args) > 1:
                return args[1]
            vm.oblige('noexc.KeyError', False, 'noexc', vm.cur_line)
            raise PyRaise(I.ExcClass('KeyError'))
        if name == 'setdefault' and not isinstance(args[0], Sym):
            return obj.setdefault(args[0], args[1] if len(args) > 1 else None)
        if name == 'clear':
            obj.clear()
            return None
    if isinstance(obj, set):
        if name == 'add' and not isinstance(args[0], Sym):
            obj.add(args[0])
            return None
        if name == 'update':
            obj.update(vm.iterate(args[0]))
            return None
        if name == 'pop':
            if len(obj) == 1:
                return obj.pop()
    if isinstance(obj, str) and not any(isinstance(a, Sym) for a in args) and not any(isinstance(v, Sym) for v in kwargs.values()):
        if name == 'format':
            return vm.contract.format_hook(vm, obj, args, kwargs)
        if name in ('join',):
            hook = vm.hooks.get('str_join')
            if hook:
                r = hook(vm, obj, args[0])
                if r is not NotImplemented:
                    return r
            if obj == '' and isinstance(args[0], I.GenCall) and vm.gencall_as_sseq(args[0]) is None:
                # ''.join(<generator function call>): run the generator body, concatenating the yields into the ghost
                # local __acc__ (annotated loops inside mention __acc__ in their invariants), as for sum(<generator>)
                gc = args[0]
                gc.env.set('__acc__', '')
                old = vm.hooks.get('yield')
                vm.hooks['yield'] = lambda v: gc.env.set('__acc__', vm.binop(ast.Add(), gc.env.get('__acc__'), v))
                try:
                    try:
                        vm.exec_block(gc.clo.node.body, gc.env)
                    except I._Return:
                        pass
                finally:
                    if old is None:
                        vm.hooks.pop('yield', None)
                    else:
                        vm.hooks['yield'] = old
                return gc.env.get('__acc__')
            items = vm.iterate(args[0])
            if any(isinstance(i, Sym) for i in items):
                if all(isinstance(i, (SStr, str)) for i in items):
                    # sep.join([s0, s1, ...]) of a list of known length: s0 ++ sep ++ s1 ++ ... (uninterpreted strcat)
                    out = items[0]
                    for i in items[1:]:
                        out = vm.binop(ast.Add(), vm.binop(ast.Add(), out, obj), i) if obj else vm.binop(ast.Add(), out, i)
                    return out
                raise OutOfSubset('join of symbolic strings')
            return obj.join(items)
        if name in ('split', 'startswith', 'endswith', 'replace', 'strip', 'lower', 'upper', 'isdigit', 'splitlines',
                    'rstrip', 'lstrip', 'partition', 'find', 'count', 'ljust', 'rjust', 'encode'):
            return getattr(obj, name)(*args, **kwargs)
    if isinstance(obj, str) and name == 'format':
        # formatting symbolic values: an uninterpreted function of the literal over the operands (see Interp.format_term);
        # a fresh opaque string when an operand has no string rendering in the model (diagnostic texts)
        from .pyvc import StrSort
        hook = vm.hooks.get('format')
        if hook:
            r = hook(vm, obj, args, kwargs)
            if r is not NotImplemented:
                return r
        t = vm.format_term(obj, tuple(args)) if not kwargs else None
        return SStr(t if t is not None else vm.fresh('fmt', StrSort))
    if isinstance(obj, (bytes, SBytes)):
        if name == 'ljust':
            width, fill = args[0], args[1] if len(args) > 1 else b' '
            t = vm.as_bytes(obj)
            w = vm.as_int(width)
            ln = z3.Length(t)
            padn = z3.If(w > ln, w - ln, z3.IntVal(0))
            if not isinstance(fill, bytes) or len(fill) != 1:
                raise OutOfSubset('ljust fill')
            return SBytes(z3.Concat(t, vm.zeros_like(fill, padn)))
        if name == 'join':
            hook = vm.hooks.get('bytes_join')
            if hook:
                r = hook(vm, obj, args[0])
                if r is not NotImplemented:
                    return r
            items = vm.iterate(args[0])
            if not items:
                return b''
            parts = [vm.as_bytes(i) for i in items]
            return SBytes(parts[0] if len(parts) == 1 else z3.Concat(*parts))
    hook = vm.hooks.get('method')
    if hook:
        r = hook(vm, obj, name, args, kwargs)
        if r is not NotImplemented:
            return r
    raise OutOfSubset('method %s of %r' % (name, type(obj).__name__))


def call_external(vm, name, args, kwargs):
    hook = vm.hooks.get('external')
    if hook:
        r = hook(vm, name, args, kwargs)
        if r is not NotImplemented:
            return r
    raise OutOfSubset('external function %s' % name)
