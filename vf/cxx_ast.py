"""
vf/cxx_ast.py -- clang JSON AST front-end of CxxVC.

The C++ text that is verified is the real one: a small driver translation unit (explicit instantiations of the
templates of /repo/prophy_cpp/include/prophy/detail/*.hpp, or a prophyc-generated <schema>.ppf.cpp) is handed to
    clang++ -std=c++11 -fsyntax-only -Xclang -ast-dump=json -Xclang -ast-dump-filter=<namespace>
on every run, and CxxVC walks the *instantiated* FunctionDecl / CXXMethodDecl bodies clang produced from the headers.
Nothing is re-typed by hand; the sha256 of every header that contributes a body is recorded in the evidence.

What the dump drops (clang's doing, not ours): comments, macro structure (already expanded), uninstantiated templates.
"""
import hashlib
import json
import os
import subprocess

CLANG = 'clang++'


class AstError(Exception):
    pass


def dump(source, include_dirs, filt, std='c++11'):
    cmd = [CLANG, '-std=' + std, '-fsyntax-only', '-w']
    for d in include_dirs:
        cmd += ['-I', d]
    cmd += ['-Xclang', '-ast-dump=json', '-Xclang', '-ast-dump-filter=' + filt, source]
    p = subprocess.run(cmd, stdout=subprocess.PIPE, stderr=subprocess.PIPE)
    if p.returncode != 0:
        raise AstError('clang failed: ' + p.stderr.decode('utf-8', 'replace')[-2000:])
    return p.stdout.decode('utf-8', 'replace')


def parse_docs(text):
    dec = json.JSONDecoder()
    i, docs, n = 0, [], len(text)
    while i < n:
        while i < n and text[i].isspace():
            i += 1
        if i >= n:
            break
        if text[i] != '{':
            nl = text.find('\n', i)          # "Dumping prophy::detail:" lines of the filter mode
            i = nl + 1 if nl >= 0 else n
            continue
        d, j = dec.raw_decode(text, i)
        docs.append(d)
        i = j
    return docs


FUNC_KINDS = ('FunctionDecl', 'CXXMethodDecl', 'CXXConstructorDecl', 'CXXConversionDecl', 'CXXDestructorDecl')
SCOPE_KINDS = ('NamespaceDecl', 'CXXRecordDecl', 'ClassTemplateSpecializationDecl', 'ClassTemplatePartialSpecializationDecl')


def template_args(node):
    """template arguments of a FunctionDecl instantiation / ClassTemplateSpecializationDecl as a tuple of strings"""
    out = []
    for c in node.get('inner', []):
        if c.get('kind') == 'TemplateArgument':
            if 'value' in c:
                out.append(str(c['value']))
            elif 'type' in c:
                out.append(c['type'].get('qualType'))
            elif c.get('inner'):
                # expression argument
                v = const_value(c['inner'][0])
                out.append(str(v) if v is not None else '?')
            else:
                out.append('?')
    return tuple(out)


def const_value(node):
    """integer value of a constant expression node when clang recorded / implies it, else None"""
    k = node.get('kind')
    if k in ('ConstantExpr', 'IntegerLiteral') and 'value' in node:
        try:
            return int(node['value'])
        except ValueError:
            return None
    if k == 'CXXBoolLiteralExpr':
        return 1 if node.get('value') else 0
    if k in ('ImplicitCastExpr', 'ParenExpr', 'CXXFunctionalCastExpr', 'CStyleCastExpr', 'CXXStaticCastExpr',
             'SubstNonTypeTemplateParmExpr', 'ConstantExpr'):
        inner = [c for c in node.get('inner', []) if 'kind' in c and not c['kind'].endswith('Type')]
        if inner:
            return const_value(inner[-1])
    return None


class Index(object):
    """all declarations of one dump, by id; parents; qualified names"""

    def __init__(self, docs):
        self.by_id = {}
        self.parent = {}
        self.funcs = []
        self.files = set()
        self.file_of_id = {}
        for d in docs:
            self._walk(d, None)

    def _walk(self, node, parent):
        if not isinstance(node, dict):
            return
        nid = node.get('id')
        if nid is not None:
            old = self.by_id.get(nid)
            # the same declaration may be dumped more than once (reference inside the template + the definition):
            # keep the richer node
            if old is None or len(node.get('inner', [])) > len(old.get('inner', [])):
                self.by_id[nid] = node
                self.parent[nid] = parent
        # clang prints a file name only where it changes relative to the previously printed location: track it in
        # print order (loc first, then range.begin / range.end) to attribute every declaration to its source file
        for where in (node.get('loc', {}), node.get('range', {}).get('begin', {})):
            for w in (where.get('spellingLoc', {}), where.get('expansionLoc', {}), where):
                if w.get('file'):
                    self._cur_file = w['file']
                    self.files.add(w['file'])
        if nid is not None and self.by_id.get(nid) is node:
            self.file_of_id[nid] = getattr(self, '_cur_file', None)
        end = node.get('range', {}).get('end', {})
        for w in (end.get('spellingLoc', {}), end.get('expansionLoc', {}), end):
            if w.get('file'):
                self._cur_file = w['file']
                self.files.add(w['file'])
        if node.get('kind') in FUNC_KINDS:
            self.funcs.append(node)
        for c in node.get('inner', []) or []:
            self._walk(c, node)

    def decl(self, nid):
        return self.by_id.get(nid)

    def has_body(self, fn):
        return any(c.get('kind') == 'CompoundStmt' for c in fn.get('inner', []))

    def body(self, fn):
        for c in fn.get('inner', []):
            if c.get('kind') == 'CompoundStmt':
                return c
        return None

    def params(self, fn):
        return [c for c in fn.get('inner', []) if c.get('kind') == 'ParmVarDecl']

    def scope_chain(self, node):
        chain = []
        p = self.parent.get(node.get('id'))
        if node.get('parentDeclContextId') and node['parentDeclContextId'] in self.by_id:
            # out-of-line definition (template <> void message_impl<T>::print(...) { ... }): semantic parent
            p = self.by_id[node['parentDeclContextId']]
        while p is not None:
            if p.get('kind') in SCOPE_KINDS:
                name = p.get('name', '')
                if p.get('kind') in ('ClassTemplateSpecializationDecl',):
                    name += '<%s>' % ', '.join(template_args(p))
                chain.append(name)
            p = self.parent.get(p.get('id'))
        return list(reversed(chain))

    def owner_record(self, fn):
        p = self.parent.get(fn.get('id'))
        if fn.get('parentDeclContextId') and fn['parentDeclContextId'] in self.by_id:
            p = self.by_id[fn['parentDeclContextId']]
        while p is not None:
            if p.get('kind') in ('CXXRecordDecl', 'ClassTemplateSpecializationDecl'):
                return p
            if p.get('kind') in ('FunctionTemplateDecl',):
                p = self.parent.get(p.get('id'))
                continue
            return None
        return None

    def qualname(self, fn):
        """e.g. prophy::detail::decoder<1, unsigned int, 0, 0, 0>::decode  /  prophy::detail::do_decode<1, unsigned int>"""
        name = fn.get('name', '?')
        targs = template_args(fn)
        if targs:
            name += '<%s>' % ', '.join(targs)
        chain = [c for c in self.scope_chain(fn) if c]
        return '::'.join(chain + [name])

    def signature(self, fn):
        return fn.get('type', {}).get('qualType', '')

    def instantiated_functions(self, name=None, with_body=True):
        """FunctionDecl / CXXMethodDecl nodes that are not templates themselves (no dependent types)"""
        out = []
        seen = set()
        for fn in self.funcs:
            fn = self.by_id.get(fn.get('id'), fn)
            if fn.get('id') in seen:
                continue
            seen.add(fn.get('id'))
            if name is not None and fn.get('name') != name:
                continue
            if with_body and not self.has_body(fn):
                continue
            if self.is_dependent(fn):
                continue
            out.append(fn)
        return out

    def is_dependent(self, fn):
        """a function of a template pattern (not an instantiation): its parent is a *TemplateDecl and it carries no
        TemplateArgument, or it lives in a ClassTemplateDecl's pattern record / partial specialization"""
        p = self.parent.get(fn.get('id'))
        if p is not None and p.get('kind') == 'FunctionTemplateDecl' and not template_args(fn):
            return True
        while p is not None:
            if p.get('kind') == 'ClassTemplatePartialSpecializationDecl':
                return True
            if p.get('kind') == 'CXXRecordDecl':
                pp = self.parent.get(p.get('id'))
                if pp is not None and pp.get('kind') == 'ClassTemplateDecl':
                    return True
            if p.get('kind') == 'FunctionTemplateDecl':
                # method template inside a class: dependent unless this FunctionDecl has template arguments
                pass
            p = self.parent.get(p.get('id'))
        return '<dependent type>' in json.dumps(fn.get('type', {}))


def sha256_file(path):
    h = hashlib.sha256()
    with open(path, 'rb') as f:
        h.update(f.read())
    return h.hexdigest()


def load(source, include_dirs, filt):
    text = dump(source, include_dirs, filt)
    docs = parse_docs(text)
    if not docs:
        raise AstError('empty AST dump for filter %s' % filt)
    return Index(docs)
