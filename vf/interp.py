"""
vf/interp.py -- expression/statement semantics of PyVC (see pyvc.py for the value model).
"""
import ast

import z3

from .pyvc import (StrSort, OpaqueFn, Engine, Sym, SInt, SBool, SOpt, STruth, SFloatQuot, SRef, SOptRef, SSeq, SBytes, SStr, Closure,
                   BoundMethod, ClassInfo, Env, OutOfSubset, PathEnd, PyRaise, _Return, _Break, _Continue, Ref,
                   load_module)

VALUE, TRUTH = 'value', 'truth'


class ExcClass(object):
    """exception classes known to the engine (lattice by name)"""
    PARENTS = {
        'ValueError': 'Exception', 'TypeError': 'Exception', 'KeyError': 'LookupError', 'IndexError': 'LookupError',
        'LookupError': 'Exception', 'AttributeError': 'Exception', 'AssertionError': 'Exception',
        'StopIteration': 'Exception', 'ZeroDivisionError': 'ArithmeticError', 'ArithmeticError': 'Exception',
        'OverflowError': 'ArithmeticError', 'NotImplementedError': 'RuntimeError', 'RuntimeError': 'Exception',
        'RecursionError': 'RuntimeError', 'Exception': 'BaseException', 'UnicodeDecodeError': 'ValueError',
        'struct.error': 'Exception', 'OSError': 'Exception',
    }

    def __init__(self, name, parent=None):
        self.name = name
        if parent:
            ExcClass.PARENTS.setdefault(name, parent)

    def is_sub(self, other_name):
        n = self.name
        while n is not None:
            if n == other_name:
                return True
            n = ExcClass.PARENTS.get(n)
        return False

    def __repr__(self):
        return '<exc %s>' % self.name


class Builtin(object):
    def __init__(self, name):
        self.name = name

    def __repr__(self):
        return '<builtin %s>' % self.name


BUILTIN_NAMES = ['len', 'max', 'min', 'sum', 'any', 'all', 'abs', 'int', 'str', 'bool', 'isinstance', 'issubclass',
                 'range', 'xrange', 'enumerate', 'zip', 'reversed', 'list', 'tuple', 'set', 'dict', 'sorted', 'map',
                 'getattr', 'setattr', 'hasattr', 'delattr', 'next', 'iter', 'divmod', 'type', 'repr', 'super',
                 'bytes', 'float', 'print', 'classmethod', 'staticmethod', 'property', 'object', 'filter', 'islice', 'slice']
EXC_NAMES = ['Exception', 'ValueError', 'TypeError', 'KeyError', 'IndexError', 'AttributeError', 'AssertionError',
             'StopIteration', 'NotImplementedError', 'ZeroDivisionError', 'OverflowError', 'RuntimeError', 'LookupError']


class Interp(Engine):

    def __init__(self, contract):
        Engine.__init__(self, contract)
        self.cur_line = None
        self.hooks = {}

    # ------------------------------------------------------------------ module environments
    def module_env(self, module):
        """evaluate a module's top level concretely: constants, classes, functions"""
        if getattr(module, '_env_ready', False):
            return module.env
        module._env_ready = True
        env = module.env
        for n in BUILTIN_NAMES:
            env.set(n, Builtin(n))
        for n in EXC_NAMES:
            env.set(n, ExcClass(n))
        for name, val in self.contract.module_overrides.get(module.relpath, {}).items():
            env.set(name, val)
        saved_hooks, self.hooks = self.hooks, {}      # contract hooks describe the function under contract, not module set-up
        try:
            for stmt in module.tree.body:
                try:
                    self._module_stmt(module, env, stmt)
                except (OutOfSubset, KeyError, PyRaise, TypeError, AttributeError):
                    continue
        finally:
            self.hooks = saved_hooks
        for name, val in self.contract.module_overrides.get(module.relpath, {}).items():
            env.set(name, val)
        return env

    def _module_stmt(self, module, env, stmt):
        if isinstance(stmt, ast.FunctionDef):
            env.set(stmt.name, Closure(stmt, env, stmt.name))
        elif isinstance(stmt, ast.ClassDef):
            env.set(stmt.name, self.make_class(module, env, stmt))
        elif isinstance(stmt, ast.Assign):
            val = self.eval(stmt.value, env)
            for t in stmt.targets:
                if isinstance(t, ast.Name):
                    env.set(t.id, val)
        elif isinstance(stmt, (ast.Import, ast.ImportFrom)):
            self._import(module, env, stmt)
        elif isinstance(stmt, ast.If):
            # module-level version switches (six.py): `if sys.version < '3'` -- the Python 3 arm is the one that runs
            src = ast.get_source_segment(module.source, stmt.test) or ''
            if 'sys.version' in src:
                branch = stmt.orelse if '<' in src else stmt.body
                for s2 in branch:
                    try:
                        self._module_stmt(module, env, s2)
                    except (OutOfSubset, KeyError, PyRaise, TypeError, AttributeError):
                        continue

    def _import(self, module, env, stmt):
        # relative imports inside the repository packages are resolved to Module envs lazily
        if isinstance(stmt, ast.ImportFrom):
            base = os_path_pkg(module.relpath, stmt.level, stmt.module)
            for alias in stmt.names:
                name = alias.asname or alias.name
                target = None
                if base is not None:
                    import os
                    from .pyvc import REPO
                    as_mod = os.path.join(base, alias.name + '.py')
                    as_attr = base + '.py'
                    if os.path.exists(os.path.join(REPO, as_mod)):
                        target = LazyModule(self, as_mod)
                    elif os.path.exists(os.path.join(REPO, as_attr)):
                        target = LazyAttr(self, as_attr, alias.name)
                    elif os.path.exists(os.path.join(REPO, base, '__init__.py')):
                        target = LazyAttr(self, os.path.join(base, '__init__.py'), alias.name)
                if target is not None:
                    env.set(name, target)
        else:
            for alias in stmt.names:
                env.set(alias.asname or alias.name.split('.')[0], ExternalModule(alias.name))

    def make_class(self, module, env, node):
        bases = []
        for b in node.bases:
            try:
                bv = self.resolve_lazy(self.eval(b, env))
            except (OutOfSubset, KeyError):
                bv = None
            bases.append(bv)
        ci = ClassInfo(node.name, [b for b in bases if isinstance(b, ClassInfo)], module)
        ci.raw_bases = bases
        ci.node = node
        cenv = Env(env)
        for stmt in node.body:
            if isinstance(stmt, ast.FunctionDef):
                decos = [d.id for d in stmt.decorator_list if isinstance(d, ast.Name)]
                decos += [d.attr for d in stmt.decorator_list if isinstance(d, ast.Attribute)]
                clo = Closure(stmt, env, '%s.%s' % (node.name, stmt.name), cls=ci)
                clo.kind = 'static' if 'staticmethod' in decos else 'class' if 'classmethod' in decos else 'inst'
                if 'property' in decos:
                    ci.props[stmt.name] = clo
                elif 'setter' in decos:
                    ci.props[stmt.name + '#set'] = clo
                else:
                    ci.methods[stmt.name] = clo
            elif isinstance(stmt, ast.Assign):
                try:
                    val = self.eval(stmt.value, cenv)
                except (OutOfSubset, KeyError, PyRaise):
                    continue
                for t in stmt.targets:
                    if isinstance(t, ast.Name):
                        ci.attrs[t.id] = val
                        cenv.set(t.id, val)
        module.classes[node.name] = ci
        return ci

    def resolve_lazy(self, v):
        while isinstance(v, (LazyAttr,)):
            v = v.get()
        return v

    # ------------------------------------------------------------------ expressions
    def eval(self, node, env, ctx=VALUE):
        self.cur_line = getattr(node, 'lineno', self.cur_line)
        m = getattr(self, 'e_' + type(node).__name__, None)
        if m is None:
            raise OutOfSubset('expression %s at line %s' % (type(node).__name__, self.cur_line))
        return m(node, env, ctx)

    def e_Constant(self, node, env, ctx):
        return node.value

    def e_Name(self, node, env, ctx):
        try:
            return self.resolve_lazy(env.get(node.id))
        except KeyError:
            raise OutOfSubset('unbound name %r (line %s)' % (node.id, node.lineno))

    def e_Tuple(self, node, env, ctx):
        return tuple(self.eval(e, env) for e in node.elts)

    def e_List(self, node, env, ctx):
        return [self.eval(e, env) for e in node.elts]

    def e_Set(self, node, env, ctx):
        return set(self.eval(e, env) for e in node.elts)

    def e_Dict(self, node, env, ctx):
        return {self.eval(k, env): self.eval(v, env) for k, v in zip(node.keys, node.values)}

    def e_Lambda(self, node, env, ctx):
        return Closure(node, env, '<lambda>')

    def e_IfExp(self, node, env, ctx):
        c = self.truthy(self.eval(node.test, env, TRUTH))
        if self.pure and not isinstance(c, bool):
            a, b = self.eval(node.body, env, ctx), self.eval(node.orelse, env, ctx)
            return self.merge(c, a, b)
        if self.decide(c):
            return self.eval(node.body, env, ctx)
        return self.eval(node.orelse, env, ctx)

    def merge(self, c, a, b):
        if isinstance(c, bool):
            return a if c else b
        if isinstance(a, (SInt, int)) and isinstance(b, (SInt, int)) and not isinstance(a, bool) and not isinstance(b, bool):
            return SInt(z3.If(c, self.as_int(a), self.as_int(b)))
        if isinstance(a, (SBool, bool)) and isinstance(b, (SBool, bool)):
            return SBool(z3.If(c, self.as_bool(a), self.as_bool(b)))
        if isinstance(a, (STruth, SBool, bool)) and isinstance(b, (STruth, SBool, bool)):
            return STruth(z3.If(c, _b(self.truthy(a)), _b(self.truthy(b))))
        if isinstance(a, SRef) and isinstance(b, SRef):
            return SRef(z3.If(c, a.t, b.t), a.cls if a.cls is b.cls else None, False)
        raise OutOfSubset('cannot merge %r / %r' % (a, b))

    def e_BoolOp(self, node, env, ctx):
        is_and = isinstance(node.op, ast.And)
        if ctx == TRUTH:
            # only the truthiness of the result is observed: no fork, short-circuit respected for
            # exception purposes by evaluating operands under the accumulated guard
            terms = []
            saved = len(self.path.pc)
            guards = []
            try:
                for v in node.values:
                    t = self.truthy(self.eval(v, env, TRUTH))
                    if isinstance(t, bool):
                        if t != is_and:
                            terms.append(t)
                            break
                        continue
                    terms.append(t)
                    g = t if is_and else z3.Not(t)
                    guards.append(g)
                    self.path.pc.append(g)   # right operands evaluated only if ...
            finally:
                # the guards go; facts assumed while evaluating an operand (callee postconditions, witnesses) stay,
                # conditional on the operands before it having let evaluation through
                added = self.path.pc[saved:]
                del self.path.pc[saved:]
                seen = []
                for c in added:
                    if any(c is g for g in guards):
                        seen.append(c)
                    else:
                        self.path.pc.append(z3.Implies(z3.And(*seen), c) if seen else c)
            zs = [_b(t) for t in terms]
            if not zs:
                return is_and
            r = z3.And(*zs) if is_and else z3.Or(*zs)
            return STruth(r)
        # value context: Python returns one of the operands
        val = None
        for i, v in enumerate(node.values):
            val = self.eval(v, env, VALUE)
            if i == len(node.values) - 1:
                return val
            t = self.truthy(val)
            if self.pure and not isinstance(t, bool):
                rest = ast.BoolOp(op=node.op, values=node.values[i + 1:]) if len(node.values) - i - 1 > 1 else node.values[i + 1]
                ast.copy_location(rest, node)
                other = self.eval(rest, env, VALUE)
                return self.merge(t, other, val) if is_and else self.merge(t, val, other)
            if self.decide(t) != is_and:
                return val
        return val

    def e_UnaryOp(self, node, env, ctx):
        if isinstance(node.op, ast.Not):
            t = self.truthy(self.eval(node.operand, env, TRUTH))
            return (not t) if isinstance(t, bool) else SBool(z3.Not(t))
        v = self.eval(node.operand, env)
        if isinstance(node.op, ast.USub):
            if isinstance(v, Sym):
                return SInt(-self.as_int(v))
            return -v
        if isinstance(node.op, ast.UAdd):
            return v
        if isinstance(node.op, ast.Invert) and not isinstance(v, Sym):
            return ~v
        raise OutOfSubset('unary %s' % type(node.op).__name__)

    def e_BinOp(self, node, env, ctx):
        a, b = self.eval(node.left, env), self.eval(node.right, env)
        return self.binop(node.op, a, b)

    def binop(self, op, a, b):
        if isinstance(a, str) and isinstance(op, ast.Mod):
            self.percent_arity(a, b)
        if isinstance(a, str) and isinstance(op, ast.Mod) and isinstance(b, tuple) and any(isinstance(x, Sym) for x in b):
            t = self.format_term(a, b)
            return SStr(t if t is not None else self.fresh('fmt', StrSort))
        if isinstance(a, str) and isinstance(op, ast.Mod) and self.hooks.get('format_event') and not isinstance(b, Sym):
            args = b if isinstance(b, tuple) else (b,)
            if not any(isinstance(x, Sym) for x in args):
                r = a % b                       # all operands concrete: the event is reported with the concrete text
                self.hooks['format_event'](self, a, list(args), self.as_str(r))
                return r
        if not isinstance(a, Sym) and not isinstance(b, Sym):
            return self.concrete_binop(op, a, b)
        if isinstance(a, (SBytes, bytes)) or isinstance(b, (SBytes, bytes)):
            return self.bytes_binop(op, a, b)
        if isinstance(a, str) and isinstance(op, ast.Mod):
            t = self.format_term(a, b)
            if t is not None:
                return SStr(t)
            return SStr(self.fresh('fmt', StrSort))        # '%'-formatting of symbolic values (diagnostic texts): opaque
        if isinstance(a, (SStr, str)) and isinstance(b, (SStr, str)) and isinstance(op, ast.Add):
            cat = z3.Function('strcat', StrSort, StrSort, StrSort)
            return SStr(cat(self.as_str(a), self.as_str(b)))
        if isinstance(a, (list, tuple)) or isinstance(b, (list, tuple)):
            if isinstance(op, ast.Add) and type(a) is type(b):
                return a + b
            if isinstance(op, ast.Mult) and self.hooks.get('list_repeat'):
                # [v] * n with a symbolic count: an allocation site; the contract decides what it means
                seq, n = (a, b) if isinstance(a, (list, tuple)) else (b, a)
                r = self.hooks['list_repeat'](self, seq, n)
                if r is not NotImplemented:
                    return r
            raise OutOfSubset('sequence binop with symbolic operand')
        if isinstance(a, SSeq) and isinstance(b, SSeq) and isinstance(op, ast.Add):
            # concatenation of two sequences of symbolic length whose elements are object references
            la, ea, eb = a.length, a.elem, b.elem

            def elem(k):
                x, y = ea(k), eb(k - la)
                if isinstance(x, SRef) and isinstance(y, SRef):
                    return SRef(z3.If(k < la, x.t, y.t), None, False)
                raise OutOfSubset('concatenation of sequences of non-reference elements')
            return SSeq(la + b.length, elem, '%s+%s' % (a.name, b.name))
        x, y = self.as_int(a), self.as_int(b)
        if isinstance(op, ast.Add):
            return SInt(x + y)
        if isinstance(op, ast.Sub):
            return SInt(x - y)
        if isinstance(op, ast.Mult):
            return SInt(x * y)
        if isinstance(op, (ast.FloorDiv, ast.Mod)):
            self.zero_division(y)
            # Python floor semantics; z3 div/mod are Euclidean: they agree when the divisor is positive
            pos = self.check_sat([y <= 0]) == z3.unsat
            if pos:
                dom = getattr(self.contract, 'divisor_domain', None)
                if dom and not z3.is_int_value(z3.simplify(y)):
                    # divisors range over a small domain (alignments): expand into linear cases
                    r = (x / y) if isinstance(op, ast.FloorDiv) else (x % y)
                    for d in reversed(dom):
                        r = z3.If(y == d, (x / d) if isinstance(op, ast.FloorDiv) else (x % d), r)
                    return SInt(r)
                return SInt(x / y) if isinstance(op, ast.FloorDiv) else SInt(x % y)
            q, r = x / y, x % y
            if isinstance(op, ast.FloorDiv):
                return SInt(z3.If(z3.And(y < 0, r != 0), q - 1, q))   # Euclidean -> floor for a negative divisor
            return SInt(z3.If(z3.And(y < 0, r != 0), r + y, r))
        if isinstance(op, ast.Div):
            self.zero_division(y)
            return SFloatQuot(x, y)
        if isinstance(op, (ast.LShift, ast.RShift)):
            if isinstance(b, int) and 0 <= b < 4096:
                return SInt(x * (1 << b)) if isinstance(op, ast.LShift) else SInt(x / (1 << b))
            # x << y == x * 2**y, x >> y == floor(x / 2**y); 2**y as an uninterpreted positive function of y
            POW2 = z3.Function('POW2', z3.IntSort(), z3.IntSort())
            if not (self.pure or getattr(self, 'no_oblige', 0)) and self.decide(y < 0):
                raise PyRaise(ExcClass('ValueError'), ('negative shift count',))
            self.assume(POW2(y) >= 1)
            return SInt(x * POW2(y)) if isinstance(op, ast.LShift) else SInt(x / POW2(y))
        if isinstance(op, (ast.BitOr, ast.BitAnd, ast.BitXor)):
            # bitwise operators on unbounded ints: uninterpreted (total) functions -- equal arguments, equal results
            f = z3.Function('BIT%s' % type(op).__name__[3:].upper(), z3.IntSort(), z3.IntSort(), z3.IntSort())
            return SInt(f(x, y))
        raise OutOfSubset('binop %s on symbolic ints' % type(op).__name__)

    def zero_division(self, y):
        """division by a symbolic divisor: ZeroDivisionError when it is 0 (a path of its own, so that a handler
        or the contract's `raises` clause decides); in pure (spec / quantified) mode division is total"""
        if self.pure or getattr(self, 'no_oblige', 0):
            return
        if self.decide(y == 0):
            raise PyRaise(ExcClass('ZeroDivisionError'), ('division by zero',))

    def concrete_binop(self, op, a, b):
        import operator
        table = {ast.Add: operator.add, ast.Sub: operator.sub, ast.Mult: operator.mul, ast.FloorDiv: operator.floordiv,
                 ast.Mod: operator.mod, ast.Div: operator.truediv, ast.LShift: operator.lshift,
                 ast.RShift: operator.rshift, ast.BitAnd: operator.and_, ast.BitOr: operator.or_,
                 ast.BitXor: operator.xor, ast.Pow: operator.pow}
        f = table.get(type(op))
        if f is None:
            raise OutOfSubset('binop %s' % type(op).__name__)
        if isinstance(a, (Closure, ClassInfo, ExcClass)) or isinstance(b, (Closure, ClassInfo, ExcClass)):
            raise OutOfSubset('binop on objects')
        try:
            return f(a, b)
        except ZeroDivisionError:
            raise PyRaise(ExcClass('ZeroDivisionError'))
        except TypeError:
            raise PyRaise(ExcClass('TypeError'))

    def bytes_binop(self, op, a, b):
        if isinstance(op, ast.Add):
            return SBytes(z3.Concat(self.as_bytes(a), self.as_bytes(b)))
        if isinstance(op, ast.Mult):
            data, n = (a, b) if isinstance(a, (SBytes, bytes)) else (b, a)
            if isinstance(data, bytes) and len(data) == 1:
                return SBytes(self.zeros_like(data, self.as_int(n)))
        raise OutOfSubset('bytes operation %s' % type(op).__name__)

    def as_bytes(self, v):
        if isinstance(v, SBytes):
            return v.t
        if isinstance(v, bytes):
            if not v:
                return z3.Empty(z3.SeqSort(z3.BitVecSort(8)))
            units = [z3.Unit(z3.BitVecVal(c, 8)) for c in v]
            return units[0] if len(units) == 1 else z3.Concat(*units)
        raise OutOfSubset('expected bytes, got %r' % (v,))

    def zeros_like(self, byte, n):
        """byte * n as an uninterpreted-function application with defining axioms (contract lemma)"""
        f = self.contract.rep_fn(byte[0])
        n = z3.If(n < 0, z3.IntVal(0), n)
        t = f(n)
        self.assume(z3.Length(t) == n)
        return t

    def e_Compare(self, node, env, ctx):
        left = self.eval(node.left, env)
        result = None
        for op, rnode in zip(node.ops, node.comparators):
            right = self.eval(rnode, env)
            r = self.compare(op, left, right)
            result = r if result is None else self.and_(result, r)
            left = right
        return result

    def and_(self, a, b):
        if isinstance(a, bool) and isinstance(b, bool):
            return a and b
        return SBool(z3.And(_b(self.truthy(a)), _b(self.truthy(b))))

    def compare(self, op, a, b):
        if isinstance(op, (ast.Is, ast.IsNot)):
            r = self.identical(a, b)
            if isinstance(op, ast.IsNot):
                return (not r) if isinstance(r, bool) else SBool(z3.Not(r.t))
            return r
        if isinstance(op, (ast.In, ast.NotIn)):
            r = self.contains(b, a)
            if isinstance(op, ast.NotIn):
                return (not r) if isinstance(r, bool) else SBool(z3.Not(_b(self.truthy(r))))
            return r
        if not isinstance(a, Sym) and not isinstance(b, Sym):
            import operator
            table = {ast.Eq: operator.eq, ast.NotEq: operator.ne, ast.Lt: operator.lt, ast.LtE: operator.le,
                     ast.Gt: operator.gt, ast.GtE: operator.ge}
            try:
                return table[type(op)](a, b)
            except TypeError:
                raise PyRaise(ExcClass('TypeError'))
        if isinstance(op, (ast.Eq, ast.NotEq)):
            r = self.equal(a, b)
            if isinstance(op, ast.NotEq):
                return (not r) if isinstance(r, bool) else SBool(z3.Not(r.t))
            return r
        x, y = self.as_int(a), self.as_int(b)
        if isinstance(op, ast.Lt):
            return SBool(x < y)
        if isinstance(op, ast.LtE):
            return SBool(x <= y)
        if isinstance(op, ast.Gt):
            return SBool(x > y)
        if isinstance(op, ast.GtE):
            return SBool(x >= y)
        raise OutOfSubset('compare %s' % type(op).__name__)

    def identical(self, a, b):
        if b is None or a is None:
            x = a if b is None else b
            if x is None:
                return True
            if hasattr(x, 'sym_is_none'):
                return SBool(x.sym_is_none(self))
            if isinstance(x, (SOpt, SOptRef)):
                return SBool(x.isnone)
            return False
        if isinstance(a, SRef) and isinstance(b, SRef):
            return SBool(a.t == b.t)
        if isinstance(a, (SOptRef, SRef)) and isinstance(b, (SOptRef, SRef)):
            an = a.isnone if isinstance(a, SOptRef) else z3.BoolVal(False)
            bn = b.isnone if isinstance(b, SOptRef) else z3.BoolVal(False)
            return SBool(z3.Or(z3.And(an, bn), z3.And(z3.Not(an), z3.Not(bn), a.t == b.t)))
        if isinstance(a, bool) or isinstance(b, bool):
            if isinstance(a, SBool):
                return SBool(a.t == b)
            if isinstance(b, SBool):
                return SBool(b.t == a)
            if isinstance(a, Sym) or isinstance(b, Sym):
                return False
        if not isinstance(a, Sym) and not isinstance(b, Sym):
            return a is b
        raise OutOfSubset('identity of %r and %r' % (a, b))

    def equal(self, a, b):
        if a is None or b is None:
            return self.identical(a, b)
        if isinstance(a, (SRef,)) and isinstance(b, (SRef,)):
            return SBool(a.t == b.t)
        if isinstance(a, SBytes) or isinstance(b, SBytes):
            return SBool(self.as_bytes(a) == self.as_bytes(b))
        if hasattr(a, 'isnone') and hasattr(a, 't') and a.t.sort() == StrSort or hasattr(b, 'isnone') and hasattr(b, 't') and b.t.sort() == StrSort:
            # str-or-None compared with a str (or another str-or-None)
            an = getattr(a, 'isnone', z3.BoolVal(False))
            bn = getattr(b, 'isnone', z3.BoolVal(False))
            at = a.t if hasattr(a, 't') else self.as_str(a)
            bt = b.t if hasattr(b, 't') else self.as_str(b)
            return SBool(z3.Or(z3.And(an, bn), z3.And(z3.Not(an), z3.Not(bn), at == bt)))
        if isinstance(a, SStr) or isinstance(b, SStr):
            return SBool(self.as_str(a) == self.as_str(b))
        if isinstance(a, SOpt) or isinstance(b, SOpt):
            if isinstance(a, SOpt) and isinstance(b, SOpt):
                return SBool(z3.Or(z3.And(a.isnone, b.isnone), z3.And(z3.Not(a.isnone), z3.Not(b.isnone), a.val == b.val)))
            o, x = (a, b) if isinstance(a, SOpt) else (b, a)
            return SBool(z3.And(z3.Not(o.isnone), o.val == self.as_int(x)))
        if isinstance(a, tuple) and isinstance(b, tuple):
            if len(a) != len(b):
                return False
            r = True
            for x, y in zip(a, b):
                r = self.and_(r, self.equal(x, y))
            return r
        if isinstance(a, (SInt, SBool, int)) and isinstance(b, (SInt, SBool, int)):
            return SBool(self.as_int(a) == self.as_int(b))
        if not isinstance(a, Sym) and not isinstance(b, Sym):
            return a == b
        hook = self.hooks.get('equal')
        if hook:
            r = hook(self, a, b)
            if r is not NotImplemented:
                return r
        raise OutOfSubset('equality of %r and %r' % (a, b))

    def percent_arity(self, fmt, b):
        """CPython: '<literal>' % args raises TypeError when the number of conversions and of arguments differ (a tuple is
        the argument list, a number / string / bytes a single argument).  Decided only where both counts are certain:
        no mapping keys, no `*` widths, and an operand whose kind is known"""
        import re
        specs = re.findall(r'%(?:\(|[#0\- +]*(\*|\d+)?(?:\.(\*|\d+))?[hlL]?([diouxXeEfFgGcrsa%]))', fmt)
        if '%(' in fmt or any(w == '*' or p == '*' for w, p, _ in specs):
            return
        plain = re.sub(r'%[#0\- +]*\d*(?:\.\d+)?[hlL]?[diouxXeEfFgGcrsa%]', '', fmt)
        if '%' in plain:
            return                      # an incomplete / unknown conversion: left to the concrete evaluation
        need = len([c for _, _, c in specs if c != '%'])
        if isinstance(b, tuple):
            have = len(b)
        elif isinstance(b, (SInt, SStr, SBytes, SBool, str, bytes, int, float)) or b is None:
            have = 1
        else:
            return
        if have != need:
            raise PyRaise(ExcClass('TypeError'), ('not all arguments converted / not enough arguments for format string',))

    def format_term(self, fmt, b):
        """'<literal>' % args as an uninterpreted function of the literal over the arguments (strings as PyStr, ints as
        Int; anything else through the contract's `str` hook): formatting is a function of its operands, which is all
        the text contracts (C18) need.  None when an operand has no string rendering in the model."""
        args = list(b) if isinstance(b, tuple) else [b]
        terms = []
        for x in args:
            if isinstance(x, SStr):
                terms.append(x.t)
            elif isinstance(x, str):
                terms.append(self.as_str(x))
            elif isinstance(x, SInt) or (isinstance(x, int) and not isinstance(x, bool)):
                terms.append(self.as_int(x))
            elif type(x).__name__ == 'SOptStr' and self.check_sat([x.isnone]) == z3.unsat:
                terms.append(x.t)               # an optional string that is present on this path renders as itself
            else:
                hook = self.hooks.get('str') if isinstance(x, Sym) else None
                r = hook(self, x) if hook else NotImplemented
                if r is NotImplemented or not isinstance(r, (SStr, str)):
                    return None
                terms.append(self.as_str(r))
        import hashlib
        name = 'fmt!%s!%s' % (hashlib.sha1(fmt.encode('utf-8')).hexdigest()[:10],
                              ''.join('i' if t.sort() == z3.IntSort() else 's' for t in terms))
        f = z3.Function(name, *([t.sort() for t in terms] + [StrSort]))
        term = f(*terms)
        h = self.hooks.get('format_event')
        if h:
            h(self, fmt, args, term)        # contracts over generated text record which pieces are produced
        return term

    def as_str(self, v):
        if isinstance(v, SStr):
            return v.t
        if isinstance(v, str):
            return self.contract.str_const(v)
        raise OutOfSubset('expected str, got %r' % (v,))

    def contains(self, container, item):
        if isinstance(container, (tuple, list, set, frozenset)) and not isinstance(container, Sym):
            if not isinstance(item, Sym):
                try:
                    return item in container
                except TypeError:
                    raise OutOfSubset('contains on unhashable')
            r = False
            terms = []
            for x in container:
                e = self.equal(item, x)
                if e is True:
                    return True
                if e is not False:
                    terms.append(e.t)
            return SBool(z3.Or(*terms)) if terms else False
        if isinstance(container, dict) and not isinstance(item, Sym):
            return item in container
        if isinstance(container, dict) and isinstance(item, SStr):
            terms = [self.as_str(item) == self.as_str(k) for k in container if isinstance(k, str)]
            return SBool(z3.Or(*terms)) if terms else False
        hook = self.hooks.get('contains')
        if hook:
            r = hook(self, container, item)
            if r is not NotImplemented:
                return r
        raise OutOfSubset('`in` on %r' % (container,))

    def e_Attribute(self, node, env, ctx):
        obj = self.eval(node.value, env)
        return self.getattr(obj, node.attr, ctx)

    def getattr(self, obj, attr, ctx=VALUE):
        obj = self.resolve_lazy(obj)
        hook = self.hooks.get('getattr')
        if hook:
            r = hook(self, obj, attr)
            if r is not NotImplemented:
                return r
        if isinstance(obj, SRef):
            cls = obj.cls
            if isinstance(cls, ClassInfo):
                found = cls.lookup(attr)
                if found:
                    kind, val, owner = found
                    if kind == 'prop':
                        return self.call_closure(val, [obj], {}, ctx)
                    if kind == 'method':
                        if val.kind == 'static':
                            return val
                        if val.kind == 'class':
                            return BoundMethod(val, cls)
                        return BoundMethod(val, obj)
                    if attr not in self.contract.shapes:
                        return val
            return self.load(obj, attr)
        if isinstance(obj, SOptRef):
            self.oblige('noexc.AttributeError:None.%s' % attr, z3.Not(obj.isnone), 'noexc', self.cur_line)
            self.assume(z3.Not(obj.isnone))
            return self.getattr(SRef(obj.t, obj.cls, False), attr, ctx)
        if isinstance(obj, ClassInfo):
            found = obj.lookup(attr)
            if found:
                kind, val, owner = found
                if kind == 'method':
                    return BoundMethod(val, obj) if val.kind == 'class' else val
                return val
            if attr == '__name__':
                return obj.name
            raise OutOfSubset('class attribute %s.%s' % (obj.name, attr))
        if isinstance(obj, LazyModule):
            return self.resolve_lazy(obj.getattr(attr))
        if isinstance(obj, (ExternalModule, ExternalAttr)):
            return ExternalAttr(obj.name + '.' + attr)
        if isinstance(obj, (SSeq, SBytes, SStr, list, dict, set, str, bytes, tuple)):
            return MethodOf(obj, attr)
        if obj is None:
            self.oblige('noexc.AttributeError:None.%s' % attr, False, 'noexc', self.cur_line)
            raise PyRaise(ExcClass('AttributeError'))
        if isinstance(obj, Closure) and attr == '__name__':
            return obj.node.name
        raise OutOfSubset('attribute %s of %r' % (attr, obj))

    def e_Subscript(self, node, env, ctx):
        obj = self.eval(node.value, env)
        if isinstance(node.slice, ast.Slice):
            lo = self.eval(node.slice.lower, env) if node.slice.lower else None
            hi = self.eval(node.slice.upper, env) if node.slice.upper else None
            if node.slice.step is not None:
                raise OutOfSubset('slice step')
            return self.slice(obj, lo, hi)
        idx = self.eval(node.slice, env)
        return self.index(obj, idx)

    def index(self, obj, idx):
        if isinstance(obj, (list, tuple, str, bytes)) and not isinstance(idx, Sym):
            try:
                return obj[idx]
            except IndexError:
                self.oblige('noexc.IndexError', False, 'noexc', self.cur_line)
                raise PyRaise(ExcClass('IndexError'))
        if isinstance(obj, dict):
            if not isinstance(idx, Sym):
                if idx in obj:
                    return obj[idx]
                self.oblige('noexc.KeyError', False, 'noexc', self.cur_line)
                raise PyRaise(ExcClass('KeyError'))
            if isinstance(idx, SStr):
                # dict with concrete string keys indexed by a symbolic string: fork per key
                for k in obj:
                    if self.decide(self.as_str(idx) == self.as_str(k)):
                        return obj[k]
                self.oblige('noexc.KeyError', False, 'noexc', self.cur_line)
                raise PyRaise(ExcClass('KeyError'))
        if isinstance(obj, SSeq):
            i = self.as_int(idx)
            n = obj.length
            ok = z3.And(i >= -n, i < n)
            self.oblige('noexc.IndexError', ok, 'noexc', self.cur_line)
            self.assume(ok)
            return obj.elem(z3.If(i < 0, i + n, i))
        if isinstance(obj, (list, tuple)) and isinstance(idx, Sym):
            i = self.as_int(idx)
            n = len(obj)
            ok = z3.And(i >= -n, i < n)
            self.oblige('noexc.IndexError', ok, 'noexc', self.cur_line)
            self.assume(ok)
            for k in range(-n, n):
                if self.decide(i == k):
                    return obj[k]
            raise PathEnd()
        if isinstance(obj, SFilter) and idx == 0:
            if self.decide(z3.Not(obj.nonempty)):
                self.oblige('noexc.IndexError', False, 'noexc', self.cur_line)
                raise PyRaise(ExcClass('IndexError'))
            return obj.first(self)
        hook = self.hooks.get('index')
        if hook:
            r = hook(self, obj, idx)
            if r is not NotImplemented:
                return r
        raise OutOfSubset('subscript of %r' % (obj,))

    def slice(self, obj, lo, hi):
        if isinstance(obj, (list, tuple, str, bytes)) and not isinstance(lo, Sym) and not isinstance(hi, Sym):
            return obj[lo:hi]
        if isinstance(obj, (SBytes, bytes)):
            t = self.as_bytes(obj)
            n = z3.Length(t)
            lo_t = self.clamp(lo, n, 0)
            hi_t = self.clamp(hi, n, n)
            ln = z3.If(hi_t > lo_t, hi_t - lo_t, z3.IntVal(0))
            return SBytes(z3.SubSeq(t, lo_t, ln))
        if isinstance(obj, SSeq):
            n = obj.length
            lo_t = self.clamp(lo, n, 0)
            hi_t = self.clamp(hi, n, n)
            ln = z3.If(hi_t > lo_t, hi_t - lo_t, z3.IntVal(0))
            lo_s = z3.simplify(lo_t)
            if z3.is_int_value(lo_s) and lo_s.as_long() == 0:
                return SSeq(ln, lambda i: obj.elem(i), obj.name + '[:b]')      # keeps index terms free of arithmetic (triggers)
            return SSeq(ln, lambda i, lo_t=lo_t: obj.elem(lo_t + i), obj.name + '[..]')
        hook = self.hooks.get('slice')
        if hook:
            r = hook(self, obj, lo, hi)
            if r is not NotImplemented:
                return r
        raise OutOfSubset('slice of %r' % (obj,))

    def clamp(self, v, n, default):
        if v is None:
            return default if z3.is_expr(default) else z3.IntVal(default)
        if isinstance(v, SOpt):       # a slice bound may be None
            d = default if z3.is_expr(default) else z3.IntVal(default)
            x = v.val
            x = z3.If(x < 0, x + n, x)
            return z3.If(v.isnone, d, z3.If(x < 0, z3.IntVal(0), z3.If(x > n, n, x)))
        x = self.as_int(v)
        x = z3.If(x < 0, x + n, x)
        return z3.If(x < 0, z3.IntVal(0), z3.If(x > n, n, x))

    # comprehensions over concrete iterables are unrolled; over symbolic sequences see builtins (folds)
    def e_ListComp(self, node, env, ctx):
        if len(node.generators) == 1 and node.generators[0].ifs and isinstance(node.elt, ast.Name) \
                and isinstance(node.generators[0].target, ast.Name) and node.elt.id == node.generators[0].target.id:
            # [x for x in <sequence of symbolic length> if p(x)]: a filter; supported observations: truthiness, [0]
            g = node.generators[0]
            it = self.eval(g.iter, env)
            if isinstance(it, SSeq) and not z3.is_int_value(z3.simplify(it.length)):
                def pred(i):
                    e2 = Env(env)
                    self.assign_target(g.target, it.elem(i), e2)
                    self.pure += 1
                    try:
                        return z3.And(*[_b(self.truthy(self.eval(c, e2, TRUTH))) for c in g.ifs])
                    finally:
                        self.pure -= 1
                return SFilter(self, it, pred)
        if len(node.generators) == 1 and not node.generators[0].ifs:
            g = node.generators[0]
            it = self.eval(g.iter, env)
            if isinstance(it, GenCall):
                it = self.gencall_as_sseq(it) or it
            if isinstance(it, SSeq) and not z3.is_int_value(z3.simplify(it.length)):
                # [f(x) for x in <sequence of symbolic length>]: element-wise map
                def elem(i):
                    e2 = Env(env)
                    self.assign_target(g.target, it.elem(i), e2)
                    self.pure += 1
                    try:
                        return self.eval(node.elt, e2)
                    finally:
                        self.pure -= 1
                self.map_effects(it.length, elem)
                return SSeq(it.length, elem, 'map(%s)' % it.name)
        return list(self.comprehension(node, env))

    def e_GeneratorExp(self, node, env, ctx):
        return LazyGen(self, node, env)

    def e_SetComp(self, node, env, ctx):
        return set(self.comprehension(node, env))

    def e_DictComp(self, node, env, ctx):
        out = {}
        for e2 in self.comp_envs(node.generators, env):
            out[self.eval(node.key, e2)] = self.eval(node.value, e2)
        return out

    def comprehension(self, node, env):
        out = []
        for e2 in self.comp_envs(node.generators, env):
            out.append(self.eval(node.elt, e2))
        return out

    def comp_envs(self, gens, env):
        if not gens:
            yield env
            return
        g = gens[0]
        it = self.eval(g.iter, env)
        for item in self.iterate(it):
            e2 = Env(env)
            self.assign_target(g.target, item, e2)
            ok = True
            for cond in g.ifs:
                if not self.decide(self.truthy(self.eval(cond, e2, TRUTH))):
                    ok = False
                    break
            if ok:
                for e3 in self.comp_envs(gens[1:], e2):
                    yield e3

    def iterate(self, it):
        it = self.resolve_lazy(it)
        if isinstance(it, GenCall):
            seq = self.gencall_as_sseq(it)
            if seq is not None:
                return self.iterate(seq)
            from . import builtins as B
            return B.run_generator(self, it)
        if isinstance(it, LazyGen):
            return it.materialize()
        if isinstance(it, (list, tuple, set, frozenset, str, range)):
            return list(it)
        if isinstance(it, dict):
            return list(it.keys())
        if isinstance(it, SSeq):
            n = z3.simplify(it.length)
            if z3.is_int_value(n):
                return [it.elem(z3.IntVal(i)) for i in range(n.as_long())]
            raise OutOfSubset('iteration over a sequence of symbolic length outside an annotated loop / fold')
        hook = self.hooks.get('iterate')
        if hook:
            r = hook(self, it)
            if r is not NotImplemented:
                return r
        raise OutOfSubset('iteration over %r' % (it,))

    def map_effects(self, n, elem):
        """an eager element-wise map over a sequence of symbolic length: a callee contract invoked in the
        (pure) element evaluation may declare `may raise E when cond` by appending (E, cond) to
        self.path.may_raise; the map then raises E iff some element satisfies cond (fork), and otherwise
        every element is known not to"""
        j = self.fresh('j')
        self.path.may_raise = []
        self.under(z3.And(0 <= j, j < n), lambda: elem(j))
        effects, self.path.may_raise = self.path.may_raise, []
        for exc, cond_j in effects:
            some = z3.Exists([j], z3.And(0 <= j, j < n, cond_j)) if not isinstance(cond_j, bool) else z3.And(n > 0, cond_j)
            if self.choose(2) == 1:
                self.assume(some)
                raise PyRaise(exc, ('element rejected',))
            self.assume(z3.Not(some))

    def gencall_as_sseq(self, gc):
        """a generator function of the shape `for X in <seq>: yield <expr>` called on a sequence of
        symbolic length is the element-wise map of that sequence"""
        body = [s for s in gc.clo.node.body if not (isinstance(s, ast.Expr) and isinstance(s.value, ast.Constant))]
        if len(body) != 1 or not isinstance(body[0], ast.For) or body[0].orelse:
            return None
        loop = body[0]
        if len(loop.body) != 1 or not isinstance(loop.body[0], ast.Expr) or not isinstance(loop.body[0].value, ast.Yield):
            return None
        it = self.eval(loop.iter, gc.env)
        if not isinstance(it, SSeq):
            return None
        yexpr = loop.body[0].value.value

        def elem(i):
            e2 = Env(gc.env)
            self.assign_target(loop.target, it.elem(i), e2)
            self.pure += 1
            try:
                return self.eval(yexpr, e2)
            finally:
                self.pure -= 1

        return SSeq(it.length, elem, 'map(%s)' % it.name)

    def e_Call(self, node, env, ctx):
        fn = self.eval(node.func, env)
        args = []
        for a in node.args:
            if isinstance(a, ast.Starred):
                args.extend(self.iterate(self.eval(a.value, env)))
            else:
                args.append(self.eval(a, env))
        kwargs = {}
        for k in node.keywords:
            if k.arg is None:
                kwargs.update(self.eval(k.value, env))
            else:
                kwargs[k.arg] = self.eval(k.value, env)
        self.cur_line = node.lineno
        return self.call(fn, args, kwargs, ctx, node)

    def e_JoinedStr(self, node, env, ctx):
        raise OutOfSubset('f-string')

    # ------------------------------------------------------------------ calls
    def call(self, fn, args, kwargs, ctx=VALUE, node=None):
        fn = self.resolve_lazy(fn)
        hook = self.hooks.get('call')
        if hook:
            r = hook(self, fn, args, kwargs, node)
            if r is not NotImplemented:
                return r
        if isinstance(fn, Builtin):
            from . import builtins as B
            return B.call_builtin(self, fn.name, args, kwargs, ctx)
        if isinstance(fn, MethodOf):
            from . import builtins as B
            return B.call_method(self, fn.obj, fn.name, args, kwargs)
        if isinstance(fn, BoundMethod):
            return self.call_closure(fn.closure, [fn.self_obj] + list(args), kwargs, ctx)
        if isinstance(fn, Closure):
            return self.call_closure(fn, args, kwargs, ctx)
        if isinstance(fn, ExcClass):
            return ExcInstance(fn, args)
        if isinstance(fn, ClassInfo):
            return self.instantiate(fn, args, kwargs)
        if isinstance(fn, ExternalAttr):
            from . import builtins as B
            return B.call_external(self, fn.name, args, kwargs)
        raise OutOfSubset('call of %r' % (fn,))

    def instantiate(self, cls, args, kwargs):
        if any(isinstance(b, ExcClass) for b in getattr(cls, 'raw_bases', [])) or self.is_exception_class(cls):
            return ExcInstance(self.exc_of(cls), args)
        hook = self.hooks.get('instantiate')
        if hook:
            r = hook(self, cls, args, kwargs)
            if r is not NotImplemented:
                return r
        raise OutOfSubset('instantiation of %s' % cls.name)

    def is_exception_class(self, cls):
        for c in cls.mro():
            if any(isinstance(b, ExcClass) for b in getattr(c, 'raw_bases', [])):
                return True
        return False

    def exc_of(self, cls):
        for c in cls.mro():
            for b in getattr(c, 'raw_bases', []):
                if isinstance(b, ExcClass):
                    return ExcClass(cls.name, b.name)
        return ExcClass(cls.name, 'Exception')

    def call_closure(self, clo, args, kwargs, ctx=VALUE):
        node = clo.node
        sub = self.contract.callee_contract(clo)
        if sub is not None:
            return sub(self, args, kwargs)
        if self.call_depth > 12:
            raise OutOfSubset('call depth exceeded (recursion?) at %s' % clo.qualname)
        env = Env(clo.env)
        self.bind_args(node.args, args, kwargs, env, clo)
        if isinstance(node, ast.Lambda):
            return self.eval(node.body, env, ctx)
        if _is_generator(node):
            return GenCall(self, clo, env)
        self.call_depth += 1
        try:
            self.exec_block(node.body, env, ret_ctx=ctx)
        except _Return as r:
            return r.value
        finally:
            self.call_depth -= 1
        return None

    def bind_args(self, a, args, kwargs, env, clo):
        params = [p.arg for p in a.posonlyargs + a.args]
        defaults = a.defaults
        args = list(args)
        kwargs = dict(kwargs)
        n_no_default = len(params) - len(defaults)
        for i, p in enumerate(params):
            if i < len(args):
                env.set(p, args[i])
            elif p in kwargs:
                env.set(p, kwargs.pop(p))
            elif i >= n_no_default:
                env.set(p, self.eval(defaults[i - n_no_default], clo.env))
            else:
                raise OutOfSubset('missing argument %s calling %s' % (p, clo.qualname))
        if a.vararg:
            env.set(a.vararg.arg, tuple(args[len(params):]))
        elif len(args) > len(params):
            raise OutOfSubset('too many arguments calling %s' % clo.qualname)
        for p, d in zip(a.kwonlyargs, a.kw_defaults):
            if p.arg in kwargs:
                env.set(p.arg, kwargs.pop(p.arg))
            elif d is not None:
                env.set(p.arg, self.eval(d, clo.env))
            else:
                raise OutOfSubset('missing kw-only argument')
        if a.kwarg:
            env.set(a.kwarg.arg, kwargs)
        elif kwargs:
            raise OutOfSubset('unexpected keyword arguments %s calling %s' % (list(kwargs), clo.qualname))

    # ------------------------------------------------------------------ statements
    def exec_block(self, stmts, env, ret_ctx=VALUE):
        for i, s in enumerate(stmts):
            if self.pure and isinstance(s, ast.If):
                c = self.truthy(self.eval(s.test, env, TRUTH))
                if not isinstance(c, bool):
                    # pure (spec / quantified) mode: no forks; both continuations must return a value
                    vals = []
                    for branch, guard in ((s.body, c), (s.orelse, z3.Not(c))):
                        try:
                            self.under(guard, lambda: self.exec_block(list(branch) + list(stmts[i + 1:]), Env(env), ret_ctx))
                        except _Return as r:
                            vals.append(r.value)
                        else:
                            raise OutOfSubset('pure-mode conditional whose branch does not return')
                    raise _Return(self.merge(c, vals[0], vals[1]))
            self.exec(s, env, ret_ctx)

    def exec(self, node, env, ret_ctx=VALUE):
        self.cur_line = getattr(node, 'lineno', self.cur_line)
        m = getattr(self, 's_' + type(node).__name__, None)
        if m is None:
            raise OutOfSubset('statement %s at line %s' % (type(node).__name__, self.cur_line))
        return m(node, env, ret_ctx)

    def s_Expr(self, node, env, rc):
        if isinstance(node.value, ast.Constant):
            return
        v = self.eval(node.value, env)
        if isinstance(v, LazyGen):
            pass

    def s_Pass(self, node, env, rc):
        pass

    def s_Return(self, node, env, rc):
        raise _Return(self.eval(node.value, env, rc) if node.value is not None else None)

    def s_Break(self, node, env, rc):
        raise _Break()

    def s_Continue(self, node, env, rc):
        raise _Continue()

    def s_FunctionDef(self, node, env, rc):
        clo = Closure(node, env, node.name)
        clo.kind = 'inst'
        decos = [d.id for d in node.decorator_list if isinstance(d, ast.Name)]
        if 'staticmethod' in decos:
            clo.kind = 'static'
        env.set(node.name, clo)

    def s_Assign(self, node, env, rc):
        val = self.eval(node.value, env)
        if isinstance(val, LazyGen) and len(node.targets) == 1 and isinstance(node.targets[0], ast.Name):
            pass
        for t in node.targets:
            self.assign_target(t, val, env)

    def assign_target(self, t, val, env):
        if isinstance(t, ast.Name):
            if hasattr(env, 'nonlocals') and t.id in env.nonlocals:
                env.set_nonlocal(t.id, val)
            else:
                env.set(t.id, val)
        elif isinstance(t, (ast.Tuple, ast.List)):
            items = self.iterate(val) if not isinstance(val, (tuple, list)) else val
            if len(items) != len(t.elts):
                self.oblige('noexc.ValueError:unpack', False, 'noexc', self.cur_line)
                raise PyRaise(ExcClass('ValueError'))
            for tt, v in zip(t.elts, items):
                self.assign_target(tt, v, env)
        elif isinstance(t, ast.Attribute):
            obj = self.eval(t.value, env)
            self.setattr(obj, t.attr, val)
        elif isinstance(t, ast.Subscript):
            obj = self.eval(t.value, env)
            if isinstance(t.slice, ast.Slice):
                hook = self.hooks.get('setslice')
                if hook:
                    lo = self.eval(t.slice.lower, env) if t.slice.lower else None
                    hi = self.eval(t.slice.upper, env) if t.slice.upper else None
                    if hook(self, obj, lo, hi, val) is not NotImplemented:
                        return
                raise OutOfSubset('slice assignment')
            idx = self.eval(t.slice, env)
            self.setitem(obj, idx, val)
        else:
            raise OutOfSubset('assignment target %s' % type(t).__name__)

    def setitem(self, obj, idx, val):
        if isinstance(obj, (list, dict)) and not isinstance(idx, Sym):
            try:
                obj[idx] = val
            except IndexError:
                self.oblige('noexc.IndexError', False, 'noexc', self.cur_line)
                raise PyRaise(ExcClass('IndexError'))
            return
        hook = self.hooks.get('setitem')
        if hook and hook(self, obj, idx, val) is not NotImplemented:
            return
        raise OutOfSubset('item assignment on %r' % (obj,))

    def setattr(self, obj, attr, val):
        hook = self.hooks.get('setattr')
        if hook and hook(self, obj, attr, val) is not NotImplemented:
            return
        if isinstance(obj, SOptRef):
            self.oblige('noexc.AttributeError:None.%s' % attr, z3.Not(obj.isnone), 'noexc', self.cur_line)
            self.assume(z3.Not(obj.isnone))
            obj = SRef(obj.t, obj.cls, False)
        if isinstance(obj, SRef):
            cls = obj.cls
            if isinstance(cls, ClassInfo):
                found = cls.lookup(attr + '#set')
                if found:
                    self.call_closure(found[1], [obj, val], {})
                    return
            self.store(obj, attr, val)
            return
        if obj is None:
            self.oblige('noexc.AttributeError:None.%s' % attr, False, 'noexc', self.cur_line)
            raise PyRaise(ExcClass('AttributeError'))
        raise OutOfSubset('attribute store on %r' % (obj,))

    def s_AugAssign(self, node, env, rc):
        cur = self.eval(_load_of(node.target), env)
        val = self.eval(node.value, env)
        if isinstance(cur, list) and isinstance(node.op, ast.Add):
            cur.extend(self.iterate(val))     # list += mutates in place
            return
        self.assign_target(node.target, self.binop(node.op, cur, val), env)

    def s_If(self, node, env, rc):
        c = self.truthy(self.eval(node.test, env, TRUTH))
        if self.decide(c):
            self.exec_block(node.body, env, rc)
        else:
            self.exec_block(node.orelse, env, rc)

    def s_Assert(self, node, env, rc):
        c = self.truthy(self.eval(node.test, env, TRUTH))
        self.oblige('noexc.AssertionError', _b(c), 'noexc', node.lineno)
        self.assume(_b(c))

    def s_Raise(self, node, env, rc):
        if node.exc is None:
            raise OutOfSubset('bare raise')
        v = self.eval(node.exc, env)
        if isinstance(v, ExcClass):
            v = ExcInstance(v, ())
        if isinstance(v, ClassInfo):
            v = self.instantiate(v, [], {})
        if not isinstance(v, ExcInstance):
            raise OutOfSubset('raise of %r' % (v,))
        raise PyRaise(v.cls, v.args)

    def s_Try(self, node, env, rc):
        if node.finalbody:
            # try/finally: the final block runs on every exit (normal, return, break/continue, exception)
            import copy
            inner = copy.copy(node)
            inner.finalbody = []
            try:
                if node.handlers or node.orelse:
                    self.s_Try(inner, env, rc)
                else:
                    self.exec_block(node.body, env, rc)
            except (PyRaise, _Return, _Break, _Continue):
                self.exec_block(node.finalbody, env, rc)
                raise
            self.exec_block(node.finalbody, env, rc)
            return
        try:
            self.exec_block(node.body, env, rc)
        except PyRaise as e:
            for h in node.handlers:
                if h.type is None or self.handler_matches(h.type, e.exc_class, env):
                    if h.name:
                        env.set(h.name, ExcInstance(e.exc_class, e.exc_args))
                    self.drop_noexc_since(e)
                    self.exec_block(h.body, env, rc)
                    return
            raise
        else:
            self.exec_block(node.orelse, env, rc)

    def drop_noexc_since(self, e):
        # an exception that is caught is not an escape: the `noexc ... False` obligation recorded at
        # the raise point on this path is withdrawn
        while self.obligations and self.obligations[-1].kind == 'noexc' and z3.is_false(self.obligations[-1].goal) \
                and self.obligations[-1].pc == self.path.pc[:len(self.obligations[-1].pc)]:
            self.obligations.pop()
            break

    def handler_matches(self, tnode, exc_class, env):
        t = self.eval(tnode, env)
        ts = t if isinstance(t, tuple) else (t,)
        for x in ts:
            x = self.resolve_lazy(x)
            name = x.name if isinstance(x, (ExcClass, ClassInfo)) else getattr(x, 'name', None)
            if isinstance(x, ExternalAttr):
                name = x.name
            if name and exc_class.is_sub(name):
                return True
        return False

    def s_Delete(self, node, env, rc):
        for t in node.targets:
            if isinstance(t, ast.Subscript):
                obj = self.eval(t.value, env)
                hook = self.hooks.get('delitem')
                if isinstance(t.slice, ast.Slice):
                    lo = self.eval(t.slice.lower, env) if t.slice.lower else None
                    hi = self.eval(t.slice.upper, env) if t.slice.upper else None
                    key = ('slice', lo, hi)
                else:
                    key = self.eval(t.slice, env)
                if isinstance(obj, (list, dict)) and not isinstance(key, (Sym, tuple)):
                    del obj[key]
                    continue
                if isinstance(obj, list) and isinstance(key, tuple) and not any(isinstance(k, Sym) for k in key[1:]):
                    del obj[key[1]:key[2]]
                    continue
                if hook and hook(self, obj, key) is not NotImplemented:
                    continue
            raise OutOfSubset('del target')

    def s_Nonlocal(self, node, env, rc):
        env.nonlocals = getattr(env, 'nonlocals', set()) | set(node.names)

    def s_Global(self, node, env, rc):
        raise OutOfSubset('global statement')

    def s_ClassDef(self, node, env, rc):
        hook = self.hooks.get('classdef')
        if hook and hook(self, node, env) is not NotImplemented:
            return
        raise OutOfSubset('nested class statement %s' % node.name)

    def s_With(self, node, env, rc):
        """`with` for (a) objects implementing sym_enter/sym_exit (contract-provided, e.g. an opened file) and
        (b) @contextmanager generator functions of the shape  try: <pre>; yield <value>  finally: <post>"""
        if len(node.items) != 1:
            raise OutOfSubset('with statement with several items')
        item = node.items[0]
        call = item.context_expr
        cm = None
        if isinstance(call, ast.Call):
            fn = self.eval(call.func, env)
            fn = self.resolve_lazy(fn)
            if isinstance(fn, Closure) and any(isinstance(d, ast.Name) and d.id == 'contextmanager' for d in fn.node.decorator_list):
                cm = fn
        if cm is None:
            obj = self.eval(call, env)
            if not hasattr(obj, 'sym_enter'):
                raise OutOfSubset('with statement on %r' % (obj,))
            val = obj.sym_enter(self)
            if item.optional_vars is not None:
                self.assign_target(item.optional_vars, val, env)
            try:
                self.exec_block(node.body, env, rc)
            except (PyRaise, _Return, _Break, _Continue):
                obj.sym_exit(self)
                raise
            obj.sym_exit(self)
            return
        body = [s for s in cm.node.body if not (isinstance(s, ast.Expr) and isinstance(s.value, ast.Constant))]
        if len(body) != 1 or not isinstance(body[0], ast.Try) or body[0].handlers or not body[0].finalbody:
            raise OutOfSubset('context manager %s is not of the shape try: ...; yield  finally: ...' % cm.qualname)
        pre = body[0].body
        if not pre or not isinstance(pre[-1], ast.Expr) or not isinstance(pre[-1].value, ast.Yield):
            raise OutOfSubset('context manager %s does not end its try block with yield' % cm.qualname)
        args = [self.eval(a, env) for a in call.args]
        cenv = Env(cm.env)
        self.bind_args(cm.node.args, args, {}, cenv, cm)
        try:
            self.exec_block(pre[:-1], cenv, rc)
            yv = self.eval(pre[-1].value.value, cenv) if pre[-1].value.value is not None else None
            if item.optional_vars is not None:
                self.assign_target(item.optional_vars, yv, env)
            self.exec_block(node.body, env, rc)
        except (PyRaise, _Return, _Break, _Continue):
            self.exec_block(body[0].finalbody, cenv, rc)
            raise
        self.exec_block(body[0].finalbody, cenv, rc)

    # ---- loops
    def s_For(self, node, env, rc):
        ordinal = self.loop_ordinal(node)
        it = self.eval(node.iter, env)
        ann = self.contract.loop_annotation(self, node, ordinal)
        if ann is not None:
            return ann.run_for(self, node, env, it, rc)
        items = self.iterate(it)
        try:
            for item in items:
                self.assign_target(node.target, item, env)
                try:
                    self.exec_block(node.body, env, rc)
                except _Continue:
                    continue
            else:
                self.exec_block(node.orelse, env, rc)
        except _Break:
            pass

    def s_While(self, node, env, rc):
        ordinal = self.loop_ordinal(node)
        ann = self.contract.loop_annotation(self, node, ordinal)
        if ann is not None:
            return ann.run_while(self, node, env, rc)
        fuel = 64
        try:
            while True:
                c = self.truthy(self.eval(node.test, env, TRUTH))
                if not self.decide(c):
                    self.exec_block(node.orelse, env, rc)
                    break
                fuel -= 1
                if fuel < 0:
                    raise OutOfSubset('while loop without annotation does not terminate within the unrolling fuel')
                try:
                    self.exec_block(node.body, env, rc)
                except _Continue:
                    continue
        except _Break:
            pass

    def loop_ordinal(self, node):
        return self.contract.loop_ordinals.get((node.lineno, node.col_offset))


def _b(t):
    return z3.BoolVal(t) if isinstance(t, bool) else t


def _load_of(target):
    import copy
    t = copy.copy(target)
    t.ctx = ast.Load()
    return t


def _is_generator(fnode):
    for n in ast.walk(fnode):
        if isinstance(n, (ast.Yield, ast.YieldFrom)):
            # yield inside a nested def does not make the outer one a generator
            return _yield_owner(fnode, n)
    return False


def _yield_owner(fnode, ynode):
    def visit(n):
        for ch in ast.iter_child_nodes(n):
            if isinstance(ch, (ast.FunctionDef, ast.Lambda)):
                continue
            if isinstance(ch, (ast.Yield, ast.YieldFrom)):
                return True
            if visit(ch):
                return True
        return False
    return visit(fnode)


class SFilter(Sym):
    """[x for x in seq if p(x)] over a sequence of symbolic length: non-empty iff some element satisfies p;
    [0] is the first such element"""

    def __init__(self, vm, seq, pred):
        self.seq, self.pred = seq, pred
        j = vm.fresh('j')
        self.nonempty = z3.Exists([j], z3.And(0 <= j, j < seq.length, pred(j)))

    def sym_truthy(self, vm):
        return self.nonempty

    def sym_len(self, vm):
        c = vm.fresh('count')
        vm.assume(z3.And(c >= 0, (c > 0) == self.nonempty, c <= self.seq.length))
        return SInt(c)

    def first(self, vm):
        if getattr(self, '_first', None) is not None and self._first[0] is vm.path:
            return self.seq.elem(self._first[1])          # the same list object: the same first element
        w, j = vm.fresh('first'), vm.fresh('j')
        self._first = (vm.path, w)
        n = self.seq.length
        ej = self.seq.elem(j)
        pats = [ej.t] if hasattr(ej, 't') and z3.is_app(ej.t) and ej.t.num_args() > 0 else []
        vm.assume(z3.And(0 <= w, w < n, self.pred(w), z3.ForAll([j], z3.Implies(z3.And(0 <= j, j < w), z3.Not(self.pred(j))),
                                                               patterns=pats)))
        return self.seq.elem(w)


class ExcInstance(object):
    def __init__(self, cls, args):
        self.cls, self.args = cls, tuple(args)


class MethodOf(object):
    def __init__(self, obj, name):
        self.obj, self.name = obj, name


class LazyGen(object):
    """generator expression: evaluated when consumed"""

    def __init__(self, interp, node, env):
        self.interp, self.node, self.env = interp, node, env

    def materialize(self):
        return self.interp.comprehension(self.node, self.env)


class GenCall(object):
    """call of a generator function: body executed when consumed, yields collected"""

    def __init__(self, interp, clo, env):
        self.interp, self.clo, self.env = interp, clo, env


class LazyModule(object):
    def __init__(self, interp, relpath):
        self.interp, self.relpath = interp, relpath

    def getattr(self, name):
        m = load_module(self.relpath)
        env = self.interp.module_env(m)
        try:
            return env.get(name)
        except KeyError:
            raise OutOfSubset('%s has no top-level %s' % (self.relpath, name))


class LazyAttr(object):
    def __init__(self, interp, relpath, name):
        self.interp, self.relpath, self.name = interp, relpath, name

    def get(self):
        return LazyModule(self.interp, self.relpath).getattr(self.name)


class ExternalModule(object):
    def __init__(self, name):
        self.name = name


class ExternalAttr(object):
    def __init__(self, name):
        self.name = name


def os_path_pkg(relpath, level, module):
    import os
    d = os.path.dirname(relpath)
    if level == 0:
        if module and (module.split('.')[0] in ('prophy', 'prophyc')):
            return module.replace('.', '/')
        return None
    for _ in range(level - 1):
        d = os.path.dirname(d)
    if module:
        d = os.path.join(d, module.replace('.', '/'))
    return d
