"""C02 / C06: array and bytes decoders (container.py, composite.bytes_)"""
import z3

from vf.contract import Contract, LoopAnn
from vf.pyvc import SRef, SSeq, SInt, SOpt, SBytes, SBool, SStr, Ref, OpaqueFn, ByteSeq, Sym, OutOfSubset, PyRaise, ClassInfo
from vf import interp as I
from .rt_shapes import COMPOSITE, CONTAINER, SHAPES, ALIGNS, sel, _in
from .c01_encode import OpaqueType
from .c02_decode import PROPHY_ERROR, only_prophy_error

RT = dict(SHAPES)
RT['_TYPE'] = 'obj'
RT['_ghost_added'] = 'int'      # ghost: number of elements created by add() during this decode


# ------------------------------------------------------------------ decode_scalar_array

def dsa_setup(vm, module, env):
    vm.contract.divisor_domain = (1, 2, 4, 8)
    tp = vm.fresh_ref('tp', None)
    size = sel(vm, '_SIZE', tp.t)
    vm.assume(_in(size, (1, 2, 4, 8)))
    data = SBytes(vm.fresh('data', ByteSeq))
    pos = vm.fresh('pos')
    vm.assume(pos >= 0)
    e = SStr(vm.contract.str_const('<endianness>'))
    count = SOpt(vm.fresh('count#none', z3.BoolSort()), vm.fresh('count'))
    vm.assume(z3.Or(count.isnone, count.val >= 0))            # callers: len_hint from container_len._decode (>= 0) or len(self)
    VAL = z3.Function('VAL', z3.IntSort(), z3.IntSort())      # tp._decode(data, p, e)[0]
    st = {'args': [tp, data, SInt(pos), e, count], 'tp': tp, 'size': size, 'data': data, 'pos': pos, 'e': e, 'count': count,
          'VAL': VAL, 'closure_env': {}}
    vm.state = st
    return st


def dsa_getattr(vm, obj, attr):
    st = vm.state
    if isinstance(obj, SRef) and obj.t.eq(st['tp'].t) and attr == '_decode':
        return OpaqueFn(obj, '_decode')
    if isinstance(obj, SRef) and obj.t.eq(st['tp'].t) and attr == '_DEFAULT':
        return SInt(vm.fresh('default_value'))
    return NotImplemented


def dsa_list_repeat(vm, seq, n):
    """`[v] * n`: n elements are allocated at once.  C06: decode never allocates out of proportion to its input, so the
    bytes such a list stands for must be there (each element takes `size` bytes of input)"""
    st = vm.state
    if len(seq) != 1:
        return NotImplemented
    cnt = vm.as_int(n)
    c = z3.If(cnt < 0, 0, cnt)
    vm.oblige('allocation bounded by the input: an array allocated up front is covered by the remaining bytes',
              c * st['size'] <= z3.If(z3.Length(st['data'].t) - st['pos'] < 0, 0, z3.Length(st['data'].t) - st['pos']), 'post', vm.cur_line)
    v = seq[0]
    return SSeq(c, lambda i: v, 'preallocated')


def dsa_call(vm, fn, args, kwargs, node):
    st = vm.state
    if isinstance(fn, OpaqueFn) and fn.attr == '_decode':
        p = vm.as_int(args[1])
        vm.oblige('call.element decode:(data, cursor >= 0, endianness)', z3.And(
            vm.as_bytes(args[0]) == st['data'].t, p >= 0, args[2].t == st['e'].t), 'call', vm.cur_line)
        st['last_p'] = p
        if vm.choose(2) == 1:
            raise PyRaise(PROPHY_ERROR, ('too few bytes',))
        # numeric decode contract: returns only when size bytes are available at p
        vm.assume(z3.Length(st['data'].t) - p >= st['size'])
        return (SInt(st['VAL'](p)), SInt(st['size']))
    return NotImplemented


def _count_eff(vm, st):
    avail = z3.Length(st['data'].t) - st['pos']
    size = st['size']
    greedy = z3.If(avail <= 0, z3.If(avail % size == 0, avail / size, avail / size + 1),
                   z3.If(avail % size == 0, avail / size, avail / size + 1))
    return z3.If(st['count'].isnone, greedy, st['count'].val)


def dsa_inv(vm, env, k):
    st = vm.state
    values = env.get('values')
    j = z3.Int('j')
    vlen = values.length if isinstance(values, SSeq) else z3.IntVal(len(values))
    elem_ok = z3.BoolVal(True)
    if isinstance(values, SSeq):
        elem_ok = z3.ForAll([j], z3.Implies(z3.And(0 <= j, j < k), vm.as_int(values.elem(j)) == st['VAL'](st['pos'] + j * st['size'])),
                            patterns=[st['VAL'](st['pos'] + j * st['size'])])
    return [('cursor==k*size', vm.as_int(env.get('cursor')) == k * st['size']),
            ('len(values)==k', vlen == k),
            ('values are the decoded elements', elem_ok),
            ('decoded elements lie inside the input', z3.Implies(k > 0, st['pos'] + k * st['size'] <= z3.Length(st['data'].t)))]


def fresh_seq(vm, name):
    n = vm.fresh('n_' + name)
    f = z3.Function('%s_at!%d' % (name, next(vm._fresh)), z3.IntSort(), z3.IntSort())
    vm.assume(n >= 0)
    return SSeq(n, lambda i: SInt(f(i)), name)


def dsa_post(vm, st, result):
    values, cursor = result
    ce = _count_eff(vm, st)
    n = z3.If(ce < 0, 0, ce)
    vlen = values.length if isinstance(values, SSeq) else z3.IntVal(len(values))
    return [('cursor==count*size', vm.as_int(cursor) == n * st['size']),
            ('len(values)==count', vlen == n),
            ('allocation bounded by the input: count*size <= remaining bytes', z3.Implies(n > 0, n * st['size'] <= z3.Length(st['data'].t) - st['pos']))]


Contract(CONTAINER, 'decode_scalar_array', ['C02', 'C06'], dsa_setup, dsa_post, shapes=RT, raises=only_prophy_error, modifies=[],
         hooks={'getattr': dsa_getattr, 'call': dsa_call, 'list_repeat': dsa_list_repeat},
         loops={0: LoopAnn(dsa_inv, index='k', extra_havoc=['values'], locals_={'values': fresh_seq})},
         notes=['element decoder by contract (numeric_decorator.decode): returns (value, size) only if size bytes are available'])


# ------------------------------------------------------------------ scalar array _decode_impl (fixed / bound)

def sarr_setup(cls_name):
    def setup(vm, module, env):
        cls = env.get(cls_name)
        self = vm.fresh_ref('self', cls)
        vm.path.objattrs[(str(self.t), '_TYPE')] = OpaqueType('elem')
        vm.assume(sel(vm, '_SIZE', self.t) >= 0)
        data = SBytes(vm.fresh('data', ByteSeq))
        pos = vm.fresh('pos')
        vm.assume(pos >= 0)
        e = SStr(vm.contract.str_const('<endianness>'))
        hint = SOpt(vm.fresh('hint#none', z3.BoolSort()), vm.fresh('hint'))
        nself = vm.fresh('len_self')
        vm.assume(nself >= 0)
        st = {'args': [self, data, SInt(pos), e, hint], 'self': self, 'data': data, 'pos': pos, 'e': e, 'hint': hint,
              'CUR': vm.fresh('cur'), 'nself': nself, 'assigned': [], 'fixed': cls_name.startswith('fixed'), 'closure_env': {}}
        vm.assume(st['CUR'] >= 0)
        vm.state = st
        return st
    return setup


class Values(Sym):
    """the list returned by decode_scalar_array"""


def sarr_callee_dsa(vm, args, kwargs):
    st = vm.state
    tp, data, pos, e, count = args
    ok_count = (vm.as_int(count) == st['nself']) if st['fixed'] else (count is st['hint'])
    vm.oblige('call.decode_scalar_array:(self._TYPE, data, pos, endianness, %s)' % ('len(self)' if st['fixed'] else 'len_hint'),
              z3.And(isinstance(tp, OpaqueType), vm.as_bytes(data) == st['data'].t, vm.as_int(pos) == st['pos'], e.t == st['e'].t,
                     ok_count), 'call', vm.cur_line)
    if vm.choose(2) == 1:
        raise PyRaise(PROPHY_ERROR, ('too few bytes',))
    st['values'] = Values()
    return (st['values'], SInt(st['CUR']))


def sarr_setslice(vm, obj, lo, hi, val):
    st = vm.state
    vm.oblige('call.self[:] = decoded values', isinstance(obj, SRef) and obj.t.eq(st['self'].t) and lo is None and hi is None
              and val is st.get('values'), 'call', vm.cur_line)
    st['assigned'].append(val)
    if vm.choose(2) == 1:
        raise PyRaise(PROPHY_ERROR, ('exceeded array limit',))     # __setslice__ contract (C10): ProphyError only
    return None


def sarr_len(vm, x):
    st = vm.state
    if isinstance(x, SRef) and x.t.eq(st['self'].t):
        return SInt(st['nself'])
    return NotImplemented


def sarr_post(vm, st, result):
    r = vm.as_int(result)
    size = sel(vm, '_SIZE', st['self'].t)
    goals = [('decoded values stored in self', len(st['assigned']) == 1)]
    if st['fixed']:
        goals.append(('consumed == cursor', r == st['CUR']))
    else:
        goals.append(('consumed == max(cursor, static size)', r == z3.If(st['CUR'] > size, st['CUR'], size)))
        goals.append(('the static slot was available', z3.Length(st['data'].t) - st['pos'] >= size))
    return goals


for _cls in ('fixed_scalar_array', 'bound_scalar_array'):
    Contract(CONTAINER, '%s._decode_impl' % _cls, ['C02', 'C06'], sarr_setup(_cls), sarr_post, shapes=RT, raises=only_prophy_error,
             modifies=[], hooks={'setslice': sarr_setslice, 'len': sarr_len}, callees={'decode_scalar_array': sarr_callee_dsa})


# ------------------------------------------------------------------ composite array _decode_impl (fixed / bound)

def carr_setup(cls_name):
    def setup(vm, module, env):
        from .c01_arrays import new_values
        cls = env.get(cls_name)
        self = vm.fresh_ref('self', cls)
        values = new_values(vm)
        vm.path.objattrs[(str(self.t), '_values')] = values
        vm.assume(sel(vm, '_SIZE', self.t) >= 0)
        data = SBytes(vm.fresh('data', ByteSeq))
        pos = vm.fresh('pos')
        vm.assume(pos >= 0)
        e = SStr(vm.contract.str_const('<endianness>'))
        hint = SOpt(vm.fresh('hint#none', z3.BoolSort()), vm.fresh('hint'))
        EC = z3.Function('EC', Ref, z3.IntSort())            # bytes consumed by the element decoder
        CUMS = z3.Function('CUMS', z3.IntSort(), z3.IntSort())
        vm.assume(CUMS(0) == 0)
        st = {'args': [self, data, SInt(pos), e, hint], 'self': self, 'values': values, 'data': data, 'pos': pos, 'e': e,
              'hint': hint, 'EC': EC, 'CUMS': CUMS, 'cleared': [], 'added': 0, 'closure_env': {}}
        vm.state = st
        return st
    return setup


def carr_iterate(vm, it):
    st = vm.state
    if isinstance(it, SRef) and it.t.eq(st['self'].t):
        return st['values']
    return NotImplemented


def carr_getattr(vm, obj, attr):
    st = vm.state
    if isinstance(obj, SRef) and not obj.t.eq(st['self'].t) and attr == '_decode_impl':
        return OpaqueFn(obj, '_decode_impl')
    return NotImplemented


def carr_call(vm, fn, args, kwargs, node):
    st = vm.state
    if isinstance(fn, OpaqueFn) and fn.attr == '_decode_impl':
        p = vm.as_int(args[1])
        vm.oblige('call.element decode:(data, pos + cursor, endianness, terminal=False)', z3.And(
            vm.as_bytes(args[0]) == st['data'].t, p == st['pos'] + vm.as_int(st['cursor_env'].get('cursor')), args[2].t == st['e'].t,
            kwargs.get('terminal') is False), 'call', vm.cur_line)
        if vm.choose(2) == 1:
            raise PyRaise(PROPHY_ERROR, ('...',))
        r = st['EC'](fn.owner.t)
        # element contract: a successful element decode consumed at least one byte, all inside the input
        # (prophyc's grammar forbids empty structs: min_size(elem) >= 1)
        vm.assume(z3.And(r >= 1, p + r <= z3.Length(st['data'].t)))
        return SInt(r)
    return NotImplemented


def carr_fixed_inv(vm, env, k):
    st = vm.state
    st['cursor_env'] = env
    return [('cursor==sum of consumed(k)', vm.as_int(env.get('cursor')) == st['CUMS'](k))]


def carr_fixed_unfold(vm, env, k):
    st = vm.state
    st['cursor_env'] = env
    return [st['CUMS'](k + 1) == st['CUMS'](k) + st['EC'](st['values'].fn(k))]


def carr_fixed_post(vm, st, result):
    return [('consumed == sum over all elements', vm.as_int(result) == st['CUMS'](st['values'].length))]


Contract(CONTAINER, 'fixed_composite_array._decode_impl', ['C02', 'C06'], carr_setup('fixed_composite_array'), carr_fixed_post,
         shapes=RT, raises=only_prophy_error, modifies=[],
         hooks={'iterate': carr_iterate, 'getattr': carr_getattr, 'call': carr_call},
         loops={0: LoopAnn(carr_fixed_inv, index='k', unfold=carr_fixed_unfold)})


# bound_composite_array: del self[:]; greedy `while` / counted `for`, each element created by self.add()

def carr_delitem(vm, obj, key):
    st = vm.state
    vm.oblige('call.del self[:]', isinstance(obj, SRef) and obj.t.eq(st['self'].t) and key == ('slice', None, None), 'call', vm.cur_line)
    st['cleared'].append(True)
    return None


def carr_callee_add(vm, args, kwargs):
    """bound_composite_array.add() (C10 contract): appends and returns a fresh element, or raises ProphyError at the limit"""
    st = vm.state
    vm.oblige('call.add:after clearing', len(st['cleared']) == 1, 'call', vm.cur_line)
    if vm.choose(2) == 1:
        raise PyRaise(PROPHY_ERROR, ('exceeded array limit',))
    st['added'] += 1
    vm.store(st['self'], '_ghost_added', SInt(sel(vm, '_ghost_added', st['self'].t) + 1))
    return vm.fresh_ref('elem', None)


def carr_while_inv(vm, env, k):
    st = vm.state
    st['cursor_env'] = env
    return [('cursor>=0', vm.as_int(env.get('cursor')) >= 0), ('added>=0', sel(vm, '_ghost_added', st['self'].t) >= 0)]


def carr_while_variant(vm, env):
    st = vm.state
    return z3.Length(st['data'].t) - (st['pos'] + vm.as_int(env.get('cursor')))


def carr_for_inv(vm, env, k):
    st = vm.state
    st['cursor_env'] = env
    c = vm.as_int(env.get('cursor'))
    # allocation bound: k elements were created and each consumed >= 1 byte of the input
    return [('exactly k elements created', sel(vm, '_ghost_added', st['self'].t) == k),
            ('cursor>=k (each element consumed a byte)', c >= k),
            ('elements lie inside the input', z3.Implies(k > 0, st['pos'] + c <= z3.Length(st['data'].t)))]


def carr_bound_post(vm, st, result):
    size = sel(vm, '_SIZE', st['self'].t)
    r = vm.as_int(result)
    greedy = z3.And(size == 0, z3.Not(sel(vm, '_BOUND', st['self'].t)))
    added = sel(vm, '_ghost_added', st['self'].t)
    return [('consumed >= static size', r >= size), ('the static slot was available', z3.Length(st['data'].t) - st['pos'] >= size),
            ('array cleared first', len(st['cleared']) == 1),
            ('counted array: exactly len_hint elements decoded', z3.Implies(z3.Not(greedy), added == st['hint'].val)),
            ('greedy array: elements decoded up to the end of the input', z3.Implies(greedy, st['pos'] + r >= z3.Length(st['data'].t)))]


def carr_bound_setup(vm, module, env):
    st = carr_setup('bound_composite_array')(vm, module, env)
    # wf_sizers: a counted (bound) array always receives its length hint from the sizer decoded before it
    vm.assume(z3.Implies(z3.Or(sel(vm, '_SIZE', st['self'].t) != 0, sel(vm, '_BOUND', st['self'].t)),
                         z3.And(z3.Not(st['hint'].isnone), st['hint'].val >= 0)))
    vm.assume(sel(vm, '_ghost_added', st['self'].t) == 0)
    return st


Contract(CONTAINER, 'bound_composite_array._decode_impl', ['C02', 'C06'], carr_bound_setup, carr_bound_post, shapes=RT,
         raises=only_prophy_error, modifies=['_ghost_added'],
         hooks={'getattr': carr_getattr, 'call': carr_call, 'delitem': carr_delitem},
         callees={'bound_composite_array.add': carr_callee_add},
         loops={0: LoopAnn(carr_while_inv, variant=carr_while_variant, modifies=['_ghost_added']),
                1: LoopAnn(carr_for_inv, index='k', modifies=['_ghost_added'])},
         notes=['termination of the greedy loop: variant len(data) - (pos + cursor), decreasing because a successful element decode '
                'consumes >= 1 byte (precondition: element type is not an empty struct, which prophyc cannot emit)'])
