"""C14: how a constant / enumerator value is spelled in the generated C++ headers -- prophyc.generators.cpp._to_literal
and its twin in cpp_full.  The model hands over the value as text.  For EVERY text:
    not a number (an identifier expression left for the C++ compiler): taken over unchanged;
    a number n: the text itself, optionally followed by the unsigned suffix `u` -- and the suffix only when n >= 0,
    because `-40u` denotes 4294967256 in C++ (the back-ends would no longer mean the same integer).
int(text, 0) is the assumed reading of the text (NUMERIC / INTOF uninterpreted), '{}{}'.format concatenation.
"""
import z3

from vf.contract import Contract
from vf.pyvc import SInt, SBool, SStr, Sym, OutOfSubset, PyRaise, StrSort
from vf import interp as I

NUMERIC = z3.Function('int0.numeric', StrSort, z3.BoolSort())
INTOF = z3.Function('int0.value', StrSort, z3.IntSort())


def lit_setup(vm, module, env):
    v = SStr(vm.fresh('value', StrSort))
    st = {'args': [v], 'value': v, 'formats': [], 'closure_env': {}}
    vm.state = st
    return st


def lit_int(vm, args):
    if len(args) == 2 and args[1] == 0 and isinstance(args[0], SStr):
        s = args[0].t
        if vm.decide(NUMERIC(s)):
            return SInt(INTOF(s))
        raise PyRaise(I.ExcClass('ValueError'))
    return NotImplemented


def lit_format(vm, fmt, args, kwargs):
    st = vm.state
    st['formats'].append((fmt, list(args)))
    t = vm.format_term(fmt, tuple(args))
    if t is None:
        raise OutOfSubset('format operand without a rendering')
    return SStr(t)


def lit_post(vm, st, result):
    v = st['value']
    num = NUMERIC(v.t)
    fs = st['formats']
    if not fs:
        return [('a text that is no number is taken over unchanged', z3.And(z3.Not(num), vm.as_str(result) == v.t))]
    if len(fs) != 1 or fs[0][0] != '{}{}' or len(fs[0][1]) != 2 or fs[0][1][1] not in ('', 'u') or not isinstance(fs[0][1][0], SStr):
        return [('a number is spelled as its text plus an optional unsigned suffix', z3.BoolVal(False))]
    suffix = fs[0][1][1]
    return [('only numbers get a suffix', num),
            ('the text of the number itself comes first', fs[0][1][0].t == v.t),
            ('an unsigned suffix only on a number that is not negative', INTOF(v.t) >= 0 if suffix == 'u' else z3.BoolVal(True)),
            ('the result is that spelling', vm.as_str(result) == vm.as_str(SStr(vm.format_term('{}{}', (fs[0][1][0], suffix)))))]


for _path in ('prophyc/generators/cpp.py', 'prophyc/generators/cpp_full.py'):
    Contract(_path, '_to_literal', ['C14'], lit_setup, lit_post, modifies=[], hooks={'int': lit_int, 'format': lit_format},
             notes=['int(text, 0) as uninterpreted NUMERIC / INTOF; `-Nu` wraps around in C++ (unsigned int literal)'])
