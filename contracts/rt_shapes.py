"""shape table of the prophy runtime objects (generated classes, descriptor fields, messages)"""
import z3

from vf.pyvc import SRef, SSeq, SInt, SBytes, Ref, OpaqueFn, ByteSeq, StrSort

COMPOSITE = 'prophy/composite.py'
GENERATORS = 'prophy/generators.py'
DESCRIPTOR = 'prophy/descriptor.py'
CONTAINER = 'prophy/container.py'
SCALAR = 'prophy/scalar.py'
OPTIONAL = 'prophy/optional.py'

ALIGNS = (1, 2, 4, 8)

SHAPES = {
    # class / type objects
    '_descriptor': 'obj', '_ALIGNMENT': 'int', '_SIZE': 'int', '_OPTIONAL': 'bool', '_OPTIONAL_ALIGNMENT': 'int',
    '_OPTIONAL_SIZE': 'int', '_DYNAMIC': 'bool', '_UNLIMITED': 'bool', '_PARTIAL_ALIGNMENT': 'opt', '_BOUND': 'truth',
    '_BOUND_SHIFT': 'int', '_max_len': 'int',
    # descriptor fields
    'type': ('ref', None), 'name': 'str', 'partial_alignment': 'opt', 'encode_fcn': 'fnval', 'decode_fcn': 'fnval',
    'discriminator': 'int',
    # message instances
    '_fields': 'obj', '_discriminated': ('ref', None), '_values': 'obj',
}


def _in(t, vals):
    return z3.Or(*[t == v for v in vals])


def new_fields(vm, base='fld'):
    """descriptor: sequence of symbolic length of pairwise distinct DescriptorField objects"""
    n = vm.fresh('n_' + base)
    f = z3.Function('%s_at!%d' % (base, next(vm._fresh)), z3.IntSort(), Ref)
    vm.assume(n >= 0)
    vm.lengths.append(n)
    i, j = z3.Ints('i j')
    vm.assume(z3.ForAll([i, j], z3.Implies(z3.And(0 <= i, i < j, j < n), f(i) != f(j)), patterns=[z3.MultiPattern(f(i), f(j))]))
    seq = SSeq(n, lambda k: SRef(f(k), None, False), base)
    seq.fn = f
    return seq


def sel(vm, attr, t):
    return z3.Select(vm.heap_array(attr), t)


def field_alignment_spec(vm, type_t):
    """A(field): the optional's alignment for an optional field, else the type's (specs.wire.A on
    Optional(T) / T, through the class statics established by add_attributes / optional())"""
    return z3.If(sel(vm, '_OPTIONAL', type_t), sel(vm, '_OPTIONAL_ALIGNMENT', type_t), sel(vm, '_ALIGNMENT', type_t))
