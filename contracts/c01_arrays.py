"""C01 / C19: array and bytes encoders (container.py, composite.bytes_)"""
import z3

from vf.contract import Contract, LoopAnn
from vf.pyvc import SRef, SSeq, SInt, SBytes, SBool, SStr, Ref, OpaqueFn, ByteSeq, Sym, OutOfSubset, ClassInfo
from vf import interp as I
from .rt_shapes import COMPOSITE, CONTAINER, SHAPES, ALIGNS, sel, _in
from .c01_encode import zeros, e_const, OpaqueType

RT = dict(SHAPES)
RT['_TYPE'] = 'obj'


def new_values(vm, base='val'):
    """self._values: sequence of symbolic length of element values (opaque refs)"""
    n = vm.fresh('n_' + base)
    f = z3.Function('%s_at!%d' % (base, next(vm._fresh)), z3.IntSort(), Ref)
    vm.assume(n >= 0)
    vm.lengths.append(n)
    seq = SSeq(n, lambda k: SRef(f(k), None, False), base)
    seq.fn = f
    return seq


def arr_setup(cls_name, composite):
    def setup(vm, module, env):
        cls = env.get(cls_name)
        self = vm.fresh_ref('self', cls)
        values = new_values(vm)
        vm.path.objattrs[(str(self.t), '_values')] = values
        vm.path.objattrs[(str(self.t), '_TYPE')] = OpaqueType('elem')
        vm.assume(sel(vm, '_SIZE', self.t) >= 0)
        e = e_const(vm)
        ENC = z3.Function('ENC', Ref, ByteSeq)          # element encoder (scalar: _TYPE._encode(v, e); composite: v.encode(e))
        J = z3.Function('J', z3.IntSort(), ByteSeq)     # b"".join of the first k element encodings
        st = {'args': [self, e], 'self': self, 'values': values, 'e': e, 'ENC': ENC, 'J': J, 'composite': composite,
              'closure_env': {}}
        vm.state = st
        return st
    return setup


def arr_iterate(vm, it):
    """`for value in self`: base_array has __getitem__/__len__ only -> sequence protocol over self._values"""
    st = vm.state
    if isinstance(it, SRef) and it.t.eq(st['self'].t):
        return IterSelf(st['values'])
    if it is st['values']:
        return IterSelf(st['values'])        # `for value in self._values`: the same sequence, named directly
    return NotImplemented


class IterSelf(object):
    def __init__(self, seq):
        self.seq = seq


def arr_getattr(vm, obj, attr):
    if isinstance(obj, OpaqueType) and attr == '_encode':
        return OpaqueFn(obj, '_encode')
    st = vm.state
    if st['composite'] and isinstance(obj, SRef) and attr == 'encode' and not obj.t.eq(st['self'].t):
        return OpaqueFn(obj, 'encode')
    return NotImplemented


def arr_call(vm, fn, args, kwargs, node):
    st = vm.state
    if isinstance(fn, OpaqueFn) and fn.attr == '_encode' and isinstance(fn.owner, OpaqueType):
        v, e = args
        vm.oblige('call.element encoder:endianness passed unchanged', e.t == st['e'].t, 'call', vm.cur_line)
        return SBytes(st['ENC'](v.t))
    if isinstance(fn, OpaqueFn) and fn.attr == 'encode':
        vm.oblige('call.element encode:endianness passed unchanged', args[0].t == st['e'].t, 'call', vm.cur_line)
        return SBytes(st['ENC'](fn.owner.t))
    if isinstance(fn, OpaqueType) and not args and not kwargs:
        return vm.fresh_ref('blank_element', None)      # self._TYPE(): a new element object, none of the stored values
    return NotImplemented


def arr_list_repeat(vm, seq, n):
    """[x] * n with a symbolic count: n references to the same object (none when n <= 0)"""
    if len(seq) != 1 or not isinstance(seq[0], SRef):
        return NotImplemented
    k = vm.as_int(n)
    return SSeq(z3.If(k > 0, k, 0), lambda i: seq[0], 'repeat')


def arr_bytes_join(vm, sep, arg):
    """b"".join(<encoding of each element, in order>) == J(n) (fold of concatenation) -- obligation: the
    joined element *is* the encoding of element j, over all elements in order"""
    st = vm.state
    if sep != b'' or not isinstance(arg, I.LazyGen):
        return NotImplemented
    g = arg.node.generators[0]
    it = vm.eval(g.iter, arg.env)
    if isinstance(it, SRef) or it is st['values']:
        it = arr_iterate(vm, it)
    vm.oblige('call.join:over self, all elements in order', isinstance(it, IterSelf) and not g.ifs and len(arg.node.generators) == 1,
              'call', vm.cur_line)
    seq = st['values']
    j = vm.fresh('j')
    from vf.pyvc import Env
    e2 = Env(arg.env)
    vm.assign_target(g.target, seq.elem(j), e2)
    elt = vm.under(z3.And(0 <= j, j < seq.length), lambda: vm.eval(arg.node.elt, e2))
    vm.under(z3.And(0 <= j, j < seq.length),
             lambda: vm.oblige('call.join:element j is enc(value j)', vm.as_bytes(elt) == st['ENC'](seq.fn(j)), 'call', vm.cur_line))
    return SBytes(st['J'](seq.length))


def arr_post(limited):
    def post(vm, st, result):
        n = st['values'].length
        body = st['J'](n)
        r = vm.as_bytes(result)
        if limited:
            size = sel(vm, '_SIZE', st['self'].t)
            return [('elements in order, zero-filled to the static size', r == z3.Concat(body, zeros(vm, size - z3.Length(body)))),
                    ('at least the static size', z3.Length(r) >= size)]
        return [('elements in order, nothing else', r == body)]
    return post


for _cls, _comp, _lim in (('fixed_scalar_array', False, False), ('bound_scalar_array', False, True),
                          ('fixed_composite_array', True, False), ('bound_composite_array', True, True)):
    Contract(CONTAINER, '%s._encode_impl' % _cls, ['C01', 'C19'], arr_setup(_cls, _comp), arr_post(_lim), shapes=RT, modifies=[],
             hooks={'iterate': arr_iterate, 'getattr': arr_getattr, 'call': arr_call, 'bytes_join': arr_bytes_join,
                    'list_repeat': arr_list_repeat},
             notes=['J(k): concatenation of the first k element encodings (definition of b"".join)'])


# ------------------------------------------------------------------ bytes_._bytes._encode

def bytes_enc_setup(vm, module, env):
    size = vm.fresh('size')
    vm.assume(size >= 0)
    value = SBytes(vm.fresh('value', ByteSeq))
    st = {'args': [value], 'value': value, 'size': size, 'closure_env': {'size': SInt(size)}}
    return st


def bytes_enc_post(vm, st, result):
    v, size = st['value'].t, st['size']
    return [('value, zero-filled to size', vm.as_bytes(result) == z3.Concat(v, zeros(vm, size - z3.Length(v))))]


Contract(COMPOSITE, 'bytes_._bytes._encode', ['C01', 'C19'], bytes_enc_setup, bytes_enc_post, shapes=RT, modifies=[])
