"""
contracts/cxx_print.py -- CxxVC contracts for C18 (C++ half): prophy_cpp/include/prophy/detail/printer.hpp and the
generated message_impl<T>::print functions.

Stream model (assumed contract of std::ostream, vf/cxxvc.py): a stream has flags, a fill character and a width; flags and
fill are sticky, the width applies to the next insertion only.  Every insertion is appended to a log together with the
formatting state it was made under, so "what is printed" is a list of (kind, payload, width, fill, flags).

  frame   every printer leaves flags and fill as it found them and the width at 0: rendering one field never changes how
          later fields are rendered (the stream-state part of C18);
  text    print_byte: \\t \\n \\r \\\\ as two-character escapes, 32..126 as the character itself, everything else as
          "\\x" followed by the value as a number in base 16, width 2, fill '0';
          scalar printer: indentation, name, ": ", the value (int8/uint8 as numbers, not characters), '\\n';
          enum printer: the enumerator's name when there is one, else the number; composite: name " {\\n" ... "}\\n"
          with the nested message one level deeper;
  order   generated message_impl<T>::print makes one do_print call per non-sizer field, in declaration order, under the
          field's name; an optional field exactly when it is set; a union only its discriminated arm.
"""
import z3

from vf.cxxvc import Contract, LoopSpec, CInt, CBool, CPtr, CObj, BV64, OutOfReach, parse_qual, fresh
from specs import wire as W
from . import cxx_header as H

bv = H.bv


def stream_path(a, key='out'):
    v = a[key]
    return v.path


def frame(cx, s0, s1, path):
    f0 = cx.stream_attrs(s0, path)
    f1 = cx.stream_attrs(s1, path)
    return [('frame.flags', f1[0] == f0[0]), ('frame.fill', f1[1] == f0[1]), ('frame.width', f1[2] == bv(0))]


def width0(cx, st, path):
    return [('width0', cx.stream_attrs(st, path)[2] == bv(0))]


def delta(s0, s1, path):
    return [e for e in s1.log[len(s0.log):] if e[0] == path or e[0] == 'loop']


def entry_eq(actual, expected_entry, w, fi, fl):
    """z3 formula: the logged insertion equals the expected one (same kind, payload, formatting state)"""
    if actual[0] == 'loop':
        return z3.BoolVal(False)
    path, entry, aw, afi, afl = actual
    if entry[0] != expected_entry[0]:
        return z3.BoolVal(False)
    conds = [aw == w, afi == fi]
    if entry[0] == 'num':
        conds.append(afl == fl)
        if entry[2:] != expected_entry[2:]:
            return z3.BoolVal(False)
        conds.append(entry[1] == expected_entry[1])
    elif entry[0] == 'str':
        if entry[1] != expected_entry[1]:
            return z3.BoolVal(False)
    elif entry[0] in ('char', 'cstr', 'bool'):
        conds.append(entry[1] == expected_entry[1])
    elif entry[0] in ('indent', 'bytes', 'nested'):
        for x, y in zip(entry[1:], expected_entry[1:]):
            if isinstance(x, str) or isinstance(y, str):
                if x != y:
                    return z3.BoolVal(False)
            else:
                conds.append(x == y)
    else:
        return z3.BoolVal(False)
    return z3.And(*conds)


def log_is(cx, s0, s1, path, expected):
    """[(label, formula)]: the insertions made since s0 are exactly `expected` = [(entry, width, fill, flags)]"""
    d = delta(s0, s1, path)
    if len(d) != len(expected):
        return z3.BoolVal(False)
    return z3.And(*[entry_eq(a, e[0], e[1], e[2], e[3]) for a, e in zip(d, expected)]) if d else z3.BoolVal(True)


# --------------------------------------------------------------------------- print_byte

def print_byte_contract():
    def match(q, sig):
        return q.endswith('::print_byte') or q == 'print_byte'

    def requires(cx, st, a):
        return width0(cx, st, stream_path(a))

    def ensures(cx, s0, a0, s1, a1, ret):
        p = stream_path(a0)
        fl, fi, w = cx.stream_attrs(s0, p)
        x = a0['x'].t
        z0 = bv(0)
        r = frame(cx, s0, s1, p)
        cases = [(x == 9, [(('str', '\\\\t'), z0, fi, fl)]), (x == 10, [(('str', '\\\\n'), z0, fi, fl)]),
                 (x == 13, [(('str', '\\\\r'), z0, fi, fl)]), (x == 92, [(('str', '\\\\\\\\'), z0, fi, fl)])]
        special = z3.Or(x == 9, x == 10, x == 13, x == 92)
        printable = z3.And(z3.Not(special), z3.UGE(x, 32), z3.ULE(x, 126))
        cases.append((printable, [(('char', x), z0, fi, fl)]))
        hexf = z3.Function('setbase_hex', z3.BitVecSort(32), z3.BitVecSort(32))
        other = z3.And(z3.Not(special), z3.Not(printable))
        cases.append((other, [(('str', '\\\\x'), z0, fi, fl),
                              (('num', z3.ZeroExt(24, x), 32, False), bv(2), z3.BitVecVal(48, 8), hexf(fl))]))
        for i, (cond, exp) in enumerate(cases):
            r.append(('text.case%d' % i, z3.Implies(cond, log_is(cx, s0, s1, p, exp))))
        return r

    def effect(cx, s0, a0, s1, a1, ret):
        s1.log.append((stream_path(a0), ('byte', a0['x'].t), bv(0), None, None))

    return Contract('print_byte', match, requires, ensures, modifies=('out',), params=('out', 'x'), props=('C18',),
                    effect=effect)


# --------------------------------------------------------------------------- operator<< overloads of printer.hpp

def _op_match(sig_tail):
    def match(q, sig):
        return q.endswith('operator<<') and 'prophy' in q and sig.replace(' ', '').endswith(sig_tail.replace(' ', ''))
    return match


def small_int_contract(signed):
    tail = ', int8_t)' if signed else ', uint8_t)'

    def requires(cx, st, a):
        return width0(cx, st, stream_path(a))

    def value(a):
        x = a['x'].t
        return z3.SignExt(24, x) if signed else z3.ZeroExt(24, x)

    def ensures(cx, s0, a0, s1, a1, ret):
        p = stream_path(a0)
        fl, fi, w = cx.stream_attrs(s0, p)
        return frame(cx, s0, s1, p) + [('text', log_is(cx, s0, s1, p, [(('num', value(a0), 32, signed), bv(0), fi, fl)]))]

    def effect(cx, s0, a0, s1, a1, ret):
        p = stream_path(a0)
        fl, fi, w = cx.stream_attrs(s0, p)
        s1.log.append((p, ('num', value(a0), 32, signed), bv(0), fi, fl))

    return Contract('operator<<(%sint8_t)' % ('' if signed else 'u'), _op_match(tail), requires, ensures, modifies=('out',),
                    params=('out', 'x'), props=('C18',), effect=effect)


def bytes_contract():
    def requires(cx, st, a):
        return width0(cx, st, stream_path(a))

    def ensures(cx, s0, a0, s1, a1, ret):
        return frame(cx, s0, s1, stream_path(a0))

    def setup(cx, st, a):
        b = a['bytes']
        first = cx.load(st, __import__('vf.cxxvc', fromlist=['LVal']).LVal('field', parse_qual(cx, 'const uint8_t *')[0],
                                                                          path=b.path, name='first'))
        second = cx.load(st, __import__('vf.cxxvc', fromlist=['LVal']).LVal('field', parse_qual(cx, 'size_t')[0],
                                                                           path=b.path, name='second'))
        st.ghost['RLO'] = first.addr
        st.ghost['RHI'] = first.addr + second.t
        st.assume(z3.ULT(first.addr, H.ADDR_MAX))
        st.assume(z3.ULT(second.t, H.COUNT_MAX))
        st.ghost['first0'], st.ghost['second0'] = first.addr, second.t
        p = stream_path(a)
        st.ghost['fl0'], st.ghost['fi0'], _ = cx.stream_attrs(st, p)

    def inv(cx, st, env):
        g = st.ghost
        b = env['bytes']
        LVal = __import__('vf.cxxvc', fromlist=['LVal']).LVal
        first = cx.load(st, LVal('field', parse_qual(cx, 'const uint8_t *')[0], path=b.path, name='first'))
        second = cx.load(st, LVal('field', parse_qual(cx, 'size_t')[0], path=b.path, name='second'))
        fl, fi, w = cx.stream_attrs(st, env['out'].path)
        return [('flags', fl == g['fl0']), ('fill', fi == g['fi0']), ('width', w == bv(0)),
                ('second', z3.ULE(second.t, g['second0'])),
                ('first', first.addr == g['first0'] + (g['second0'] - second.t))]

    def variant(cx, st, env):
        LVal = __import__('vf.cxxvc', fromlist=['LVal']).LVal
        return cx.load(st, LVal('field', parse_qual(cx, 'size_t')[0], path=env['bytes'].path, name='second')).t

    def effect(cx, s0, a0, s1, a1, ret):
        s1.log.append((stream_path(a0), ('bytes', a0['bytes'].path), bv(0), None, None))

    return Contract('operator<<(bytes)', _op_match(', std::pair<const uint8_t *, size_t>)'), requires, ensures,
                    modifies=('out',), params=('out', 'bytes'), props=('C18',), setup=setup,
                    loops={0: LoopSpec(inv, variant=variant)}, effect=effect)


def indent_contract():
    def requires(cx, st, a):
        return width0(cx, st, stream_path(a)) + [('level.nonnegative', level(cx, st, a) >= 0)]

    def level(cx, st, a):
        LVal = __import__('vf.cxxvc', fromlist=['LVal']).LVal
        return cx.load(st, LVal('field', parse_qual(cx, 'int')[0], path=a['indent'].path, name='level')).t

    def ensures(cx, s0, a0, s1, a1, ret):
        return frame(cx, s0, s1, stream_path(a0))

    def setup(cx, st, a):
        p = stream_path(a)
        st.ghost['fl0'], st.ghost['fi0'], _ = cx.stream_attrs(st, p)

    def inv(cx, st, env):
        g = st.ghost
        fl, fi, w = cx.stream_attrs(st, env['out'].path)
        return [('flags', fl == g['fl0']), ('fill', fi == g['fi0']), ('width', w == bv(0))]

    def variant(cx, st, env):
        LVal = __import__('vf.cxxvc', fromlist=['LVal']).LVal
        return cx.load(st, LVal('field', parse_qual(cx, 'int')[0], path=env['indent'].path, name='level')).t

    def effect(cx, s0, a0, s1, a1, ret):
        s1.log.append((stream_path(a0), ('indent', level(cx, s0, a0)), bv(0), None, None))

    return Contract('operator<<(indent_t)', _op_match(', prophy::detail::indent_t)'), requires, ensures, modifies=('out',),
                    params=('out', 'indent'), props=('C18',), setup=setup, loops={0: LoopSpec(inv, variant=variant)},
                    effect=effect)


# --------------------------------------------------------------------------- printer<T, ...>::print

def _printer_kind(q):
    ta = H.class_targs(q, 'printer')
    if len(ta) < 3:
        return None
    t, comp, enum = ta[:3]
    return ('composite' if comp == '1' else 'enum' if enum == '1' else 'scalar'), t


def printer_one_contract():
    """printer<T, c, e>::print(out, indent, name, const T& x)"""
    def match(q, sig):
        return '::printer<' in q and q.endswith('::print') and len(sig.split(',')) == 4 and 'size_t)' not in sig.split(',')[-1]

    def requires(cx, st, a):
        return width0(cx, st, stream_path(a)) + [('indent.small', z3.ULT(a['indent'].t, bv((1 << 31) - 1)))]

    def ensures(cx, s0, a0, s1, a1, ret):
        p = stream_path(a0)
        fl, fi, w = cx.stream_attrs(s0, p)
        kind, t = _printer_kind(cx.ix.qualname(a0['__fn']))
        z0 = bv(0)
        r = frame(cx, s0, s1, p)
        if not (cx.current and cx.current[2] is a0['__fn']):
            return r            # at call sites the caller relies on the frame; the text is summarised by `effect`
        d = delta(s0, s1, p)
        lvl = z3.Extract(31, 0, a0['indent'].t)
        head = [(('indent', lvl), z0, None, None), (('cstr', a0['name'].addr), z0, fi, fl)]

        def starts(exp):
            if len(d) < len(exp):
                return z3.BoolVal(False)
            return z3.And(*[entry_eq(x, e[0], e[1], e[2], e[3]) if e[2] is not None else _abstract_eq(x, e[0])
                            for x, e in zip(d, exp)])
        r.append(('text.head', starts(head)))
        if kind == 'scalar':
            r.append(('text.count', z3.BoolVal(len(d) == 5)))
            if len(d) == 5:
                r.append(('text.sep', entry_eq(d[2], ('str', ': '), z0, fi, fl)))
                r.append(('text.newline', entry_eq(d[4], ('char', z3.BitVecVal(10, 8)), z0, fi, fl)))
                r.append(('text.value', _value_entry_ok(cx, d[3], a0['x'], fi, fl)))
        elif kind == 'enum':
            r.append(('text.count', z3.BoolVal(len(d) == 5)))
            if len(d) == 5:
                r.append(('text.sep', entry_eq(d[2], ('str', ': '), z0, fi, fl)))
                r.append(('text.newline', entry_eq(d[4], ('char', z3.BitVecVal(10, 8)), z0, fi, fl)))
                r.append(('text.value', z3.BoolVal(d[3][0] != 'loop' and d[3][1][0] in ('cstr', 'str', 'num'))))
        else:
            r.append(('text.count', z3.BoolVal(len(d) == 6)))
            if len(d) == 6:
                r.append(('text.open', entry_eq(d[2], ('str', ' {\\n'), z0, fi, fl)))
                r.append(('text.nested', _abstract_eq(d[3], ('nested', a0['x'].path, a0['indent'].t + 1))))
                r.append(('text.close.indent', _abstract_eq(d[4], ('indent', lvl))))
                r.append(('text.close', entry_eq(d[5], ('str', '}\\n'), z0, fi, fl)))
        return r

    def effect(cx, s0, a0, s1, a1, ret):
        s1.log.append((stream_path(a0), ('field', a0['name'].addr if isinstance(a0['name'], CPtr) else a0['name']), bv(0), None, None))

    return Contract('printer::print(one)', match, requires, ensures, modifies=('out',), params=('out', 'indent', 'name', 'x'),
                    props=('C18',), effect=effect)


def _abstract_eq(actual, expected):
    if actual[0] == 'loop':
        return z3.BoolVal(False)
    entry = actual[1]
    if entry[0] != expected[0] or len(entry) != len(expected):
        return z3.BoolVal(False)
    conds = []
    for x, y in zip(entry[1:], expected[1:]):
        if isinstance(x, str) or isinstance(y, str):
            if x != y:
                return z3.BoolVal(False)
        else:
            conds.append(x == y)
    return z3.And(*conds) if conds else z3.BoolVal(True)


def _value_entry_ok(cx, actual, x, fi, fl):
    """the value of a scalar field is inserted as a number (never as a character), or as the quoted bytes"""
    if actual[0] == 'loop':
        return z3.BoolVal(False)
    entry = actual[1]
    if isinstance(x, CInt):
        if entry[0] != 'num':
            return z3.BoolVal(False)
        want = x.t
        bits = entry[2]
        if bits > x.bits:
            want = z3.SignExt(bits - x.bits, x.t) if x.signed else z3.ZeroExt(bits - x.bits, x.t)
        elif bits < x.bits:
            return z3.BoolVal(False)
        ok = [entry[1] == want, z3.BoolVal(entry[3] == x.signed)]
        if actual[2] is not None and actual[4] is not None:
            ok += [actual[2] == bv(0), actual[3] == fi, actual[4] == fl]
        return z3.And(*ok)
    if isinstance(x, CObj):
        return z3.BoolVal(entry[0] == 'bytes' and entry[1] == x.path)
    return z3.BoolVal(False)


def printer_array_contract():
    """printer<T, c, e>::print(out, indent, name, const T* x, size_t n)"""
    def match(q, sig):
        return '::printer<' in q and q.endswith('::print') and len(sig.split(',')) == 5

    def requires(cx, st, a):
        return width0(cx, st, stream_path(a)) + [('indent.small', z3.ULT(a['indent'].t, bv((1 << 31) - 1)))]

    def ensures(cx, s0, a0, s1, a1, ret):
        return frame(cx, s0, s1, stream_path(a0))

    def setup(cx, st, a):
        p = stream_path(a)
        st.ghost['fl0'], st.ghost['fi0'], _ = cx.stream_attrs(st, p)
        x = a['x']
        x.arr = (cx.arr_id(st, 'xarr'), bv(0))
        x.cap = None
        x.base_path = 'xarr'

    def inv(cx, st, env):
        g = st.ghost
        fl, fi, w = cx.stream_attrs(st, env['out'].path)
        return [('flags', fl == g['fl0']), ('fill', fi == g['fi0']), ('width', w == bv(0))]

    def effect(cx, s0, a0, s1, a1, ret):
        s1.log.append((stream_path(a0), ('fields', a0['name'].addr if isinstance(a0['name'], CPtr) else a0['name']), bv(0), None, None))

    return Contract('printer::print(array)', match, requires, ensures, modifies=('out',),
                    params=('out', 'indent', 'name', 'x', 'n'), props=('C18',), setup=setup,
                    loops={0: LoopSpec(inv, variant=lambda cx, st, env: env['n'].t)}, effect=effect)


def gen_print_contract(verify=False):
    """message_impl<T>::print(const T& x, std::ostream& out, size_t indent)"""
    def match(q, sig):
        return 'message_impl<' in q and q.endswith('::print')

    def requires(cx, st, a):
        return width0(cx, st, stream_path(a))

    def ensures(cx, s0, a0, s1, a1, ret):
        r = frame(cx, s0, s1, stream_path(a0))
        if cx.current and cx.current[2] is a0['__fn'] and getattr(cx, 'types', None):
            info = cx.type_info(a0['x'].ct)
            if info and 'schema' in info:
                r += order_obligations(cx, s0, s1, a0, info['schema'])
        return r

    def effect(cx, s0, a0, s1, a1, ret):
        s1.log.append((stream_path(a0), ('nested', a0['x'].path, a0['indent'].t), bv(0), None, None))

    def setup(cx, st, a):
        # environment: messages are nested fewer than 2^20 levels deep (the nesting depth of a schema is a small constant)
        st.assume(z3.ULT(a['indent'].t, bv(1 << 20)))

    return Contract('message_impl::print', match, requires, ensures, modifies=('out',), params=('x', 'out', 'indent'),
                    props=('C18',), verify=verify, effect=effect, setup=setup)


def order_obligations(cx, s0, s1, a0, t):
    """one do_print per non-sizer field in declaration order under the field's name; optional fields exactly when set;
    for a union exactly the discriminated arm"""
    p = stream_path(a0)
    d = [e for e in delta(s0, s1, p)]
    names = []
    for e in d:
        if e[0] == 'loop' or e[1][0] not in ('field', 'fields'):
            return [('order.shape', z3.BoolVal(False))]
        n = e[1][1]
        names.append(n[1] if isinstance(n, tuple) and n[0] == 'strlit' else None)
    r = []
    if isinstance(t, W.Struct):
        fields = [f for f in t.fields if not f.sizer_of]
        # the fields that must appear on this path: non-optional ones always; optional ones iff engaged on this path
        k = 0
        present = []
        for f in fields:
            if isinstance(f.ty, W.Optional):
                eng = cx.obj_attr(s1, 'x.' + f.name, 'engaged', z3.BoolSort())
                if k < len(names) and names[k] == f.name:
                    r.append(('order.optional.%s.printed_only_when_set' % f.name, eng))
                    k += 1
                else:
                    r.append(('order.optional.%s.omitted_only_when_unset' % f.name, z3.Not(eng)))
            else:
                ok = k < len(names) and names[k] == f.name
                r.append(('order.field.%s' % f.name, z3.BoolVal(ok)))
                k += 1
        r.append(('order.nothing_else', z3.BoolVal(k == len(names))))
    elif isinstance(t, W.Union):
        LVal = __import__('vf.cxxvc', fromlist=['LVal']).LVal
        disc = cx.load(s1, LVal('field', parse_qual(cx, 'unsigned int')[0], path='x', name='discriminator'))
        r.append(('order.union.at_most_one', z3.BoolVal(len(names) <= 1)))
        for arm in t.arms:
            is_arm = disc.t == z3.BitVecVal(arm.disc, 32)
            printed = len(names) == 1 and names[0] == arm.name
            r.append(('order.union.arm.%s' % arm.name, z3.Implies(is_arm, z3.BoolVal(printed))))
    return r


def all_contracts(verify_generated=False):
    cs = [print_byte_contract(), small_int_contract(True), small_int_contract(False), bytes_contract(), indent_contract(),
          printer_one_contract(), printer_array_contract(), gen_print_contract(verify_generated)]
    if verify_generated:
        for c in cs[:-1]:
            c.verify = False
    return cs


DRIVER = r'''
#include <vector>
#include <sstream>
#include <prophy/detail/message.hpp>
#include <prophy/detail/printer.hpp>
namespace prophy { namespace generated {
enum En { En_A = 1, En_B = 7 };
struct Fx : public prophy::detail::message<Fx>
{
    enum { encoded_byte_size = 12 };
    uint32_t a; uint16_t b; uint32_t c;
    size_t get_byte_size() const { return 12; }
};
} }
namespace prophy { namespace detail {
using namespace prophy::generated;
template <> const char* print_traits<En>::to_literal(En x) { switch (x) { case En_A: return "En_A"; default: return 0; } }
template struct printer<uint8_t>;
template struct printer<int8_t>;
template struct printer<uint16_t>;
template struct printer<int16_t>;
template struct printer<uint32_t>;
template struct printer<int32_t>;
template struct printer<uint64_t>;
template struct printer<int64_t>;
template struct printer<std::pair<const uint8_t*, size_t> >;
template struct printer<En>;
template struct printer<Fx>;
} }
'''
