"""
contracts/cxx_header.py -- CxxVC contracts on prophy_cpp/include/prophy/detail/{decoder,encoder,align,byte_size,message}.hpp

The verified text is clang's instantiation of the real templates for the type set below (driver TU generated on every
run).  The postconditions are taken from the properties:
  C07  every decode primitive keeps RLO <= pos <= end, reads only inside [RLO, end), returns true only with the exact
       advance; allocation requests are bounded by the remaining input;
  C05  every encode primitive returns data + wire size and writes only inside the writable region;
  C19  encode_int<little|big> / decode_int<little|big> write / read the scalar's bytes in the named order (full-width
       symbolic operands: complete proofs), native == little on this host (assumption);
  C03  do_encode / do_decode of an optional advance by max(4, A(T)) + S(T) where A, S are the *wire* alignment and size.
Environment assumptions (listed in the evidence): addresses < 2^62, element counts < 2^48, host is little-endian.
"""
import z3

from vf.cxxvc import (Contract, LoopSpec, CInt, CBool, CPtr, CObj, BV64, OutOfReach, parse_qual, fresh)

E_NAMES = {'0': 'native', '1': 'little', '2': 'big'}
SCALARS = [('uint8_t', 8), ('uint16_t', 16), ('uint32_t', 32), ('uint64_t', 64), ('int8_t', 8), ('int16_t', 16),
           ('int32_t', 32), ('int64_t', 64), ('float', 32), ('double', 64)]

ADDR_MAX = z3.BitVecVal(1 << 62, 64)
COUNT_MAX = z3.BitVecVal(1 << 48, 64)


def bv(v):
    return z3.BitVecVal(v, 64)


def rup(x, a):
    return (x + bv(a - 1)) & bv(~(a - 1) & ((1 << 64) - 1))


def targs(q):
    """template arguments of the last component: 'a::f<1, unsigned int>' -> ['1', 'unsigned int']"""
    last = q.split('::')[-1] if not q.endswith('>') else q[q.rindex('::', 0, _open(q)) + 2:] if '::' in q[:_open(q)] else q
    if '<' not in last:
        return []
    inner = last[last.index('<') + 1:last.rindex('>')]
    out, depth, cur = [], 0, ''
    for ch in inner:
        if ch == '<':
            depth += 1
        elif ch == '>':
            depth -= 1
        if ch == ',' and depth == 0:
            out.append(cur.strip())
            cur = ''
        else:
            cur += ch
    if cur.strip():
        out.append(cur.strip())
    return out


def _open(q):
    depth = 0
    for i in range(len(q) - 1, -1, -1):
        if q[i] == '>':
            depth += 1
        elif q[i] == '<':
            depth -= 1
            if depth == 0:
                return i
    return len(q)


def class_targs(q, cls):
    """template arguments of class `cls` in 'prophy::detail::decoder<1, unsigned int, 0, 0, 0>::decode'"""
    i = q.find(cls + '<')
    if i < 0:
        return []
    j = i + len(cls)
    depth, k = 0, j
    while k < len(q):
        if q[k] == '<':
            depth += 1
        elif q[k] == '>':
            depth -= 1
            if depth == 0:
                break
        k += 1
    return targs(q[i:k + 1])


# --------------------------------------------------------------------------- regions

def region_requires(cx, st, pos, end):
    g = st.ghost
    return [('region.lo', z3.ULE(g['RLO'], pos)), ('region.pos_le_end', z3.ULE(pos, end)),
            ('region.hi', z3.ULE(end, g['RHI']))]


def setup_read(cx, st, a):
    st.ghost['RLO'] = fresh('RLO', BV64)
    st.ghost['RHI'] = a['end'].addr
    st.assume(z3.ULT(a['end'].addr, ADDR_MAX))
    st.assume(z3.ULE(st.ghost['RLO'], st.ghost['RHI']))
    st.assume(z3.ULT(st.ghost['RHI'] - st.ghost['RLO'], COUNT_MAX))        # inputs are shorter than 2^48 bytes
    st.ghost['ALLOC'] = lambda n, vct: alloc_bound(cx, st, n, vct)


def alloc_bound(cx, st, n, vct):
    """a request for n elements is covered by the input: the element count never exceeds the number of input bytes
    (+1 for the element a greedy loop appends before trying to decode it), so the memory requested is at most
    sizeof(T) * (input size + 1).  (The sharper n * wire_size(T) <= input size is what do_decode_resize's own
    postcondition `covered` states; this form is division-free and stable for both solvers.)"""
    total = st.ghost['RHI'] - st.ghost['RLO']
    return z3.ULE(n, total + bv(1))


def elem_of_vector(cx, vct):
    name = vct.name
    inner = name[name.index('<') + 1:name.rindex('>')]
    # std::vector<T, std::allocator<T>> -> T
    depth, cur = 0, ''
    for ch in inner:
        if ch == '<':
            depth += 1
        elif ch == '>':
            depth -= 1
        if ch == ',' and depth == 0:
            break
        cur += ch
    return parse_qual(cx, cur.strip())[0]


def wire_size(cx, ct):
    """wire size of a fixed type (None for dynamic)"""
    if ct.kind == 'int':
        return 4 if ct.enum else ct.bits // 8
    info = cx.type_info(ct)
    if info is None:
        raise OutOfReach('no wire information for %r' % ct)
    return info['fixed_size'] if info['fixed_size'] >= 0 else None


def wire_align(cx, ct):
    if ct.kind == 'int':
        return 4 if ct.enum else ct.bits // 8
    info = cx.type_info(ct)
    if info is None:
        raise OutOfReach('no wire information for %r' % ct)
    return info['align']


def alloc_unit(cx, ct):
    """bytes of input that the header charges per element before it resizes: the wire size of a fixed element, one
    byte for a dynamic one (so the request is bounded by sizeof(T) times the remaining input)"""
    if ct.kind == 'int':
        return 4 if ct.enum else ct.bits // 8
    info = cx.type_info(ct)
    if info is None:
        raise OutOfReach('no wire information for %r' % ct)
    return info['fixed_size'] if info['fixed_size'] > 0 else 1


def min_wire_size(cx, ct):
    if ct.kind == 'int':
        return 4 if ct.enum else ct.bits // 8
    info = cx.type_info(ct)
    if info is None:
        raise OutOfReach('no wire information for %r' % ct)
    return max(1, info['min_size'])


def from_bytes(mem, addr, nbytes, big):
    bs = [z3.Select(mem, addr + bv(i)) for i in range(nbytes)]
    if nbytes == 1:
        return bs[0]
    return z3.Concat(*bs) if big else z3.Concat(*reversed(bs))


def store_bytes(mem, addr, term, nbytes, big):
    for i in range(nbytes):
        k = (nbytes - 1 - i) if big else i
        mem = z3.Store(mem, addr + bv(i), z3.Extract(8 * k + 7, 8 * k, term))
    return mem


def is_big(e):
    return e == '2'


# --------------------------------------------------------------------------- decode_int / encode_int (C19 leaves)

def decode_int_contract():
    def match(q, sig):
        return '::decode_int<' in q or q.startswith('decode_int<')

    def parts(cx, a):
        fn = a['__fn']
        e, _ = targs(cx.ix.qualname(fn))[:2]
        x = a['x']
        return e, x.bits // 8

    def requires(cx, st, a):
        e, n = parts(cx, a)
        pos = a['pos'].addr
        r = [('readable', z3.And(z3.ULE(st.ghost['RLO'], pos), z3.ULE(pos + bv(n), st.ghost['RHI']),
                                 z3.ULT(pos, ADDR_MAX)))]
        if e == '0' and n > 1:
            r.append(('native.aligned', (pos & bv(n - 1)) == 0))
        return r

    def ensures(cx, s0, a0, s1, a1, ret):
        e, n = parts(cx, a0)
        return [('value', a1['x'].t == from_bytes(s0.mem, a0['pos'].addr, n, is_big(e))),
                ('mem.unchanged', s1.mem == s0.mem)]

    def setup(cx, st, a):
        st.ghost['RLO'] = fresh('RLO', BV64)
        st.ghost['RHI'] = fresh('RHI', BV64)
        st.assume(z3.ULT(st.ghost['RHI'], ADDR_MAX))

    return Contract('decode_int', match, requires, ensures, modifies=('x',), setup=setup, params=('x', 'pos'), props=('C07', 'C19', 'C03'))


def encode_int_contract():
    def match(q, sig):
        return '::encode_int<' in q or q.startswith('encode_int<')

    def parts(cx, a):
        e, _ = targs(cx.ix.qualname(a['__fn']))[:2]
        x = a['in']
        return e, x.bits // 8

    def requires(cx, st, a):
        e, n = parts(cx, a)
        out = a['out'].addr
        r = [('writable', z3.And(z3.ULE(st.ghost['WLO'], out), z3.ULE(out + bv(n), st.ghost['WHI']),
                                 z3.ULT(out, ADDR_MAX)))]
        if e == '0' and n > 1:
            r.append(('native.aligned', (out & bv(n - 1)) == 0))
        return r

    def ensures(cx, s0, a0, s1, a1, ret):
        e, n = parts(cx, a0)
        return [('bytes', s1.mem == store_bytes(s0.mem, a0['out'].addr, a0['in'].t, n, is_big(e)))]

    def setup(cx, st, a):
        st.ghost['WLO'] = fresh('WLO', BV64)
        st.ghost['WHI'] = fresh('WHI', BV64)
        st.assume(z3.ULT(st.ghost['WHI'], ADDR_MAX))

    return Contract('encode_int', match, requires, ensures, modifies=('mem',), setup=setup, params=('out', 'in'), props=('C05', 'C19', 'C03'))


# --------------------------------------------------------------------------- align / nearest

def align_contract():
    def match(q, sig):
        return ('::align<' in q or q.startswith('align<')) and 'do_decode' not in q

    def requires(cx, st, a):
        return [('addr', z3.ULT(a['ptr'].addr, ADDR_MAX))]

    def ensures(cx, s0, a0, s1, a1, ret):
        n = int(targs(cx.ix.qualname(a0['__fn']))[0])
        p = a0['ptr'].addr
        return [('multiple', (ret.addr & bv(n - 1)) == 0), ('ge', z3.UGE(ret.addr, p)), ('lt', z3.ULT(ret.addr - p, bv(n))),
                ('mem.unchanged', s1.mem == s0.mem)]

    return Contract('align', match, requires, ensures, params=('ptr',), props=('C03', 'C05', 'C07'))


def nearest_contract():
    def match(q, sig):
        return '::nearest<' in q or q.startswith('nearest<')

    def requires(cx, st, a):
        x = a['x']
        return [('range', z3.ULT(x.t, z3.BitVecVal(1 << (x.bits - 2), x.bits)))]

    def ensures(cx, s0, a0, s1, a1, ret):
        n = int(targs(cx.ix.qualname(a0['__fn']))[0])
        x = a0['x']
        b = x.bits
        return [('multiple', (ret.t & z3.BitVecVal(n - 1, b)) == 0), ('ge', z3.UGE(ret.t, x.t)),
                ('lt', z3.ULT(ret.t - x.t, z3.BitVecVal(n, b)))]

    return Contract('nearest', match, requires, ensures, params=('x',), props=('C05', 'C07'))


# --------------------------------------------------------------------------- decoder primitives (C07)

def native_aligned(e, n, pos):
    return [('native.aligned', (pos & bv(n - 1)) == 0)] if (e == '0' and n > 1) else []


def advance_contract():
    def match(q, sig):
        return q.endswith('do_decode_advance')

    def requires(cx, st, a):
        return region_requires(cx, st, a['pos'].addr, a['end'].addr)

    def ensures(cx, s0, a0, s1, a1, ret):
        pos, end, n = a0['pos'].addr, a0['end'].addr, a0['n'].t
        ok = z3.UGE(end - pos, n)
        return [('ret', ret.t == ok), ('adv', z3.Implies(ok, a1['pos'].addr == pos + n)),
                ('stay', z3.Implies(z3.Not(ok), a1['pos'].addr == pos)),
                ('bounds', z3.And(z3.ULE(s0.ghost['RLO'], a1['pos'].addr), z3.ULE(a1['pos'].addr, end)))]

    return Contract('do_decode_advance', match, requires, ensures, modifies=('pos',), setup=setup_read, params=('n', 'pos', 'end'), props=('C07',))


def decode_align_contract():
    def match(q, sig):
        return 'do_decode_align<' in q

    def requires(cx, st, a):
        return region_requires(cx, st, a['pos'].addr, a['end'].addr)

    def ensures(cx, s0, a0, s1, a1, ret):
        n = int(targs(cx.ix.qualname(a0['__fn']))[0])
        pos, end = a0['pos'].addr, a0['end'].addr
        al = rup(pos, n)
        ok = z3.ULE(al, end)
        return [('ret', ret.t == ok), ('adv', z3.Implies(ok, a1['pos'].addr == al)),
                ('stay', z3.Implies(z3.Not(ok), a1['pos'].addr == pos)),
                ('bounds', z3.And(z3.ULE(s0.ghost['RLO'], a1['pos'].addr), z3.ULE(a1['pos'].addr, end)))]

    return Contract('do_decode_align', match, requires, ensures, modifies=('pos',), setup=setup_read, params=('pos', 'end'), props=('C07',))


def _scalar_decoder_kind(q):
    """('scalar'|'enum'|'fixed'|'dynamic', E, T) for decoder<E, T, c, e, d>::decode"""
    ta = class_targs(q, 'decoder')
    if len(ta) < 5:
        return None
    e, t, comp, enum, dyn = ta[:5]
    kind = 'scalar'
    if comp == '1':
        kind = 'dynamic' if dyn == '1' else 'fixed'
    elif enum == '1':
        kind = 'enum'
    return kind, e, t


def decoder_one_contract():
    """decoder<E, T, false, *, false>::decode(T& x, pos&, end) -- one scalar / enum"""
    def match(q, sig):
        k = _scalar_decoder_kind(q) if '::decoder<' in q or q.startswith('decoder<') else None
        return bool(k) and k[0] in ('scalar', 'enum') and q.endswith('::decode') and len(sig.split(',')) == 3

    def info(cx, a):
        kind, e, t = _scalar_decoder_kind(cx.ix.qualname(a['__fn']))
        n = 4 if kind == 'enum' else a['x'].bits // 8
        return kind, e, n

    def requires(cx, st, a):
        kind, e, n = info(cx, a)
        return region_requires(cx, st, a['pos'].addr, a['end'].addr) + native_aligned(e, n, a['pos'].addr)

    def ensures(cx, s0, a0, s1, a1, ret):
        kind, e, n = info(cx, a0)
        pos, end = a0['pos'].addr, a0['end'].addr
        ok = z3.UGE(end - pos, bv(n))
        val = from_bytes(s0.mem, pos, n, is_big(e))
        return [('ret', ret.t == ok), ('adv', z3.Implies(ok, a1['pos'].addr == pos + bv(n))),
                ('stay', z3.Implies(z3.Not(ok), a1['pos'].addr == pos)),
                ('value', z3.Implies(ok, a1['x'].t == val)),
                ('bounds', z3.And(z3.ULE(s0.ghost['RLO'], a1['pos'].addr), z3.ULE(a1['pos'].addr, end)))]

    return Contract('decoder::decode(one)', match, requires, ensures, modifies=('x', 'pos'), setup=setup_read, params=('x', 'pos', 'end'),
                    props=('C07', 'C19', 'C03'))


def decoder_array_contract():
    """decoder<E, T, false, *, false>::decode(T* x, size_t n, pos&, end) -- n scalars / enums"""
    def match(q, sig):
        k = _scalar_decoder_kind(q) if '::decoder<' in q or q.startswith('decoder<') else None
        return bool(k) and k[0] in ('scalar', 'enum') and q.endswith('::decode') and len(sig.split(',')) == 4

    def info(cx, a):
        kind, e, t = _scalar_decoder_kind(cx.ix.qualname(a['__fn']))
        sz = 4 if kind == 'enum' else a['x'].elem.bits // 8
        return kind, e, sz

    def requires(cx, st, a):
        kind, e, sz = info(cx, a)
        r = region_requires(cx, st, a['pos'].addr, a['end'].addr) + native_aligned(e, sz, a['pos'].addr)
        r.append(('count', z3.ULT(a['n'].t, COUNT_MAX)))
        if a['x'].cap is not None:
            r.append(('capacity', z3.UGE(a['x'].cap, a['n'].t)))
        return r

    def ensures(cx, s0, a0, s1, a1, ret):
        kind, e, sz = info(cx, a0)
        pos, end, n = a0['pos'].addr, a0['end'].addr, a0['n'].t
        ok = z3.UGE(end - pos, n * bv(sz))
        return [('ret', ret.t == ok), ('adv', z3.Implies(ok, a1['pos'].addr == pos + n * bv(sz))),
                ('stay', z3.Implies(z3.Not(ok), a1['pos'].addr == pos)),
                ('bounds', z3.And(z3.ULE(s0.ghost['RLO'], a1['pos'].addr), z3.ULE(a1['pos'].addr, end)))]

    def setup(cx, st, a):
        setup_read(cx, st, a)
        x = a['x']
        x.arr = (fresh('arr', BV64), bv(0))
        x.cap = fresh('cap', BV64)
        x.base_path = 'xarr'
        st.ghost['x0cap'] = x.cap
        st.ghost['n0'] = a['n'].t
        st.ghost['pos0'] = a['pos'].addr

    def inv(cx, st, env):
        g = st.ghost
        fnq = cx.ix.qualname(cx.current[2])
        kind, e, t = _scalar_decoder_kind(fnq)
        sz = 4 if kind == 'enum' else env['x'].elem.bits // 8
        n, pos, end, x = env['n'].t, env['pos'].addr, env['end'].addr, env['x']
        done = g['n0'] - n
        r = [('n', z3.ULE(n, g['n0'])), ('pos', pos == g['pos0'] + done * bv(sz)),
             ('fits', z3.ULE(g['pos0'] + g['n0'] * bv(sz), end)), ('lo', z3.ULE(g['RLO'], g['pos0'])),
             ('end', end == g['RHI'])]
        r.append(('cap', x.cap == g['x0cap'] - done))
        if e == '0' and sz > 1:
            r.append(('aligned', (pos & bv(sz - 1)) == 0))
        return r

    loops = {0: LoopSpec(inv, variant=lambda cx, st, env: env['n'].t)}
    return Contract('decoder::decode(array)', match, requires, ensures, modifies=('x', 'pos'), setup=setup, loops=loops, params=('x', 'n', 'pos', 'end'),
                    props=('C07',))


def gen_decode_contract(name='message_impl::decode'):
    """message_impl<T>::decode<E>(T& x, pos&, end): the contract every generated struct / union decoder is verified
    against (contracts/cxx_gen.py) and that the header's composite decoders rely on"""
    def match(q, sig):
        return 'message_impl<' in q and '::decode<' in q

    def tinfo(cx, a):
        x = a['x']
        info = cx.type_info(x.ct)
        if info is None:
            raise OutOfReach('no wire information for %r' % x.ct)
        return info

    def requires(cx, st, a):
        info = tinfo(cx, a)
        r = region_requires(cx, st, a['pos'].addr, a['end'].addr)
        r.append(('aligned', (a['pos'].addr & bv(info['align'] - 1)) == 0))
        return r

    def ensures(cx, s0, a0, s1, a1, ret):
        info = tinfo(cx, a0)
        pos, end = a0['pos'].addr, a0['end'].addr
        size = gbs_value(cx, s1, a1['x'])
        r = [('bounds', z3.And(z3.ULE(s0.ghost['RLO'], a1['pos'].addr), z3.ULE(a1['pos'].addr, end))),
             ('exact', z3.Implies(ret.t, a1['pos'].addr == pos + size)),
             ('fits', z3.Implies(ret.t, z3.ULE(size, end - pos))),
             ('progress', z3.Implies(ret.t, z3.UGE(size, bv(info['min_size'])))),
             ('size.aligned', z3.Implies(ret.t, (size & bv(info['align'] - 1)) == 0)),
             ('mem.unchanged', s1.mem == s0.mem)]
        return r

    return Contract(name, match, requires, ensures, modifies=('x', 'pos'), setup=setup_read, props=('C07', 'C03'), params=('x', 'pos', 'end'),
                    verify=False)


def gbs_value(cx, st, obj):
    """value of obj.get_byte_size(): by executing the generated body when it is in the dump and we are verifying the
    generated code (cx.exec_gbs), else the ghost attribute"""
    f = getattr(cx, 'exec_gbs', None)
    if f is not None and cx.current and obj.path in ('x',):
        return f(st, obj)
    return cx.gbs_of(st, obj)


def decoder_composite_array_contract():
    """decoder<E, T, true, false, *>::decode(T* x, size_t n, pos&, end)"""
    def match(q, sig):
        k = _scalar_decoder_kind(q) if '::decoder<' in q or q.startswith('decoder<') else None
        return bool(k) and k[0] in ('fixed', 'dynamic') and q.endswith('::decode') and len(sig.split(',')) == 4

    def tinfo(cx, a):
        return cx.type_info(a['x'].elem)

    def requires(cx, st, a):
        info = tinfo(cx, a)
        r = region_requires(cx, st, a['pos'].addr, a['end'].addr)
        r.append(('aligned', (a['pos'].addr & bv(info['align'] - 1)) == 0))
        r.append(('count', z3.ULT(a['n'].t, COUNT_MAX)))
        if a['x'].cap is not None:
            r.append(('capacity', z3.UGE(a['x'].cap, a['n'].t)))
        return r

    def ensures(cx, s0, a0, s1, a1, ret):
        info = tinfo(cx, a0)
        pos, end, n = a0['pos'].addr, a0['end'].addr, a0['n'].t
        r = [('bounds', z3.And(z3.ULE(s0.ghost['RLO'], a1['pos'].addr), z3.ULE(a1['pos'].addr, end)))]
        if info['fixed_size'] >= 0:
            r.append(('exact', z3.Implies(ret.t, a1['pos'].addr == pos + n * bv(info['fixed_size']))))
        else:
            x1 = a1['x']
            total = cx.sumsize(s1, x1.base_path, n) if getattr(x1, 'base_path', None) else fresh('total', BV64)
            r.append(('exact', z3.Implies(ret.t, a1['pos'].addr == pos + total)))
            r.append(('total.aligned', z3.Implies(ret.t, (total & bv(info['align'] - 1)) == 0)))
            r.append(('total.min', z3.Implies(ret.t, z3.UGE(total, n * bv(max(1, info['min_size']))))))
        return r

    def setup(cx, st, a):
        setup_read(cx, st, a)
        x = a['x']
        x.arr = (fresh('arr', BV64), bv(0))
        x.cap = fresh('cap', BV64)
        x.base_path = 'xarr'
        x.arr = (cx.arr_id(st, 'xarr'), bv(0))
        st.ghost['x0cap'] = x.cap
        st.ghost['n0'] = a['n'].t
        st.ghost['pos0'] = a['pos'].addr

    def inv(cx, st, env):
        g = st.ghost
        info = cx.type_info(env['x'].elem)
        n, pos, end, x = env['n'].t, env['pos'].addr, env['end'].addr, env['x']
        done = g['n0'] - n
        r = [('n', z3.ULE(n, g['n0'])), ('lo', z3.ULE(g['RLO'], pos)), ('hi', z3.ULE(pos, end)), ('end', end == g['RHI']),
             ('aligned', (pos & bv(info['align'] - 1)) == 0), ('cap', x.cap == g['x0cap'] - done),
             ('idx', x.arr[1] == done)]
        if info['fixed_size'] >= 0:
            r.append(('pos', pos == g['pos0'] + done * bv(info['fixed_size'])))
        else:
            r.append(('pos', pos == g['pos0'] + cx.sumsize(st, 'xarr', done)))
            r.append(('sum.aligned', (cx.sumsize(st, 'xarr', done) & bv(info['align'] - 1)) == 0))
            r.append(('sum.min', z3.UGE(cx.sumsize(st, 'xarr', done), done * bv(max(1, info['min_size'])))))
        return r

    loops = {0: LoopSpec(inv, variant=lambda cx, st, env: env['n'].t)}
    return Contract('decoder::decode(composite array)', match, requires, ensures, modifies=('x', 'pos'), setup=setup, params=('x', 'n', 'pos', 'end'),
                    loops=loops, props=('C07',))


def decode_optional_contract():
    """do_decode<E, T>(optional<T>& x, pos&, end)"""
    def match(q, sig):
        return ('::do_decode<' in q or q.startswith('do_decode<')) and 'optional<' in sig.split(',')[0]

    def tparts(cx, a):
        fn = a['__fn']
        p0 = cx.ix.params(fn)[0]
        oct_, _ = parse_qual(cx, p0['type'].get('desugaredQualType') or p0['type']['qualType'])
        name = oct_.name
        inner = name[name.index('optional<') + 9:name.rindex('>')]
        tct, _ = parse_qual(cx, inner)
        e = targs(cx.ix.qualname(fn))[0]
        return e, tct

    def requires(cx, st, a):
        e, tct = tparts(cx, a)
        al = max(4, wire_align(cx, tct))
        return region_requires(cx, st, a['pos'].addr, a['end'].addr) + [('aligned', (a['pos'].addr & bv(al - 1)) == 0)]

    def ensures(cx, s0, a0, s1, a1, ret):
        e, tct = tparts(cx, a0)
        al, sz = max(4, wire_align(cx, tct)), wire_size(cx, tct)
        pos, end = a0['pos'].addr, a0['end'].addr
        r = [('bounds', z3.And(z3.ULE(s0.ghost['RLO'], a1['pos'].addr), z3.ULE(a1['pos'].addr, end))),
             ('exact', z3.Implies(ret.t, a1['pos'].addr == pos + bv(al + sz)))]
        if tct.kind == 'int':
            # a scalar value always decodes when the bytes are there; a composite value may reject its bytes
            r.append(('ret', ret.t == z3.UGE(end - pos, bv(al + sz))))
        flag = from_bytes(s0.mem, pos, 4, is_big(e))
        eng = cx.obj_attr(s1, a1['x'].path, 'engaged', z3.BoolSort())
        r.append(('engaged', z3.Implies(ret.t, eng == (flag != 0))))
        return r

    return Contract('do_decode(optional)', match, requires, ensures, modifies=('x', 'pos'), setup=setup_read, params=('x', 'pos', 'end'),
                    props=('C07', 'C03'))


def decode_resize_contract():
    """do_decode_resize<E, CT, T>(std::vector<T>& v, pos&, end, max)"""
    def match(q, sig):
        return 'do_decode_resize<' in q

    def parts(cx, a):
        e, ct, t = targs(cx.ix.qualname(a['__fn']))[:3]
        cct, _ = parse_qual(cx, ct)
        tct, _ = parse_qual(cx, t)
        return e, cct, tct

    def requires(cx, st, a):
        e, cct, tct = parts(cx, a)
        n = cct.bits // 8
        return region_requires(cx, st, a['pos'].addr, a['end'].addr) + native_aligned(e, n, a['pos'].addr)

    def ensures(cx, s0, a0, s1, a1, ret):
        e, cct, tct = parts(cx, a0)
        n = cct.bits // 8
        pos, end = a0['pos'].addr, a0['end'].addr
        m = alloc_unit(cx, tct)
        size1 = cx.vec_size(s1, a1['v'].path)
        raw = from_bytes(s0.mem, pos, n, is_big(e))
        cnt = z3.SignExt(64 - cct.bits, raw) if (cct.signed and cct.bits < 64) else (z3.ZeroExt(64 - cct.bits, raw) if cct.bits < 64 else raw)
        return [('bounds', z3.And(z3.ULE(s0.ghost['RLO'], a1['pos'].addr), z3.ULE(a1['pos'].addr, end))),
                ('adv', z3.Implies(ret.t, a1['pos'].addr == pos + bv(n))),
                ('size', z3.Implies(ret.t, size1 == cnt)),
                ('limit', z3.Implies(ret.t, z3.ULE(size1, a0['max'].t))),
                ('covered', z3.Implies(ret.t, z3.ULE(size1 * bv(m), end - a1['pos'].addr))),
                ('count', z3.Implies(ret.t, z3.ULT(size1, COUNT_MAX))),
                # completeness (C03: canonical bytes are accepted): a counter that is present, within the limit and
                # covered by the rest of the input is never rejected
                ('accepts', z3.Implies(z3.And(z3.UGE(end - pos, bv(n)), z3.ULE(cnt, a0['max'].t),
                                              z3.ULE(cnt, z3.UDiv(end - pos - bv(n), bv(m)))), ret.t))]

    return Contract('do_decode_resize', match, requires, ensures, modifies=('v', 'pos'), setup=setup_read,
                    params=('v', 'pos', 'end', 'max'), props=('C07', 'C03'))


def greedy_fixed_contract():
    """decoder_greedy<E, T, false>::decode(std::vector<T>& v, pos&, end)"""
    def match(q, sig):
        ta = class_targs(q, 'decoder_greedy')
        return len(ta) >= 3 and ta[2] == '0' and q.endswith('::decode')

    def tct(cx, a):
        ta = class_targs(cx.ix.qualname(a['__fn']), 'decoder_greedy')
        return ta[0], parse_qual(cx, ta[1])[0]

    def requires(cx, st, a):
        e, t = tct(cx, a)
        al = wire_align(cx, t)
        return region_requires(cx, st, a['pos'].addr, a['end'].addr) + [('aligned', (a['pos'].addr & bv(al - 1)) == 0)]

    def ensures(cx, s0, a0, s1, a1, ret):
        e, t = tct(cx, a0)
        sz = wire_size(cx, t)
        pos, end = a0['pos'].addr, a0['end'].addr
        n = z3.UDiv(end - pos, bv(sz))
        r = [('bounds', z3.And(z3.ULE(s0.ghost['RLO'], a1['pos'].addr), z3.ULE(a1['pos'].addr, end))),
             ('adv', z3.Implies(ret.t, a1['pos'].addr == pos + n * bv(sz))),
             ('size', cx.vec_size(s1, a1['v'].path) == n)]
        if t.kind == 'int':
            r.append(('ret', ret.t))          # scalars and enums always decode; a composite element may reject its bytes
        return r

    return Contract('decoder_greedy(fixed)', match, requires, ensures, modifies=('v', 'pos'), setup=setup_read, params=('v', 'pos', 'end'), props=('C07',))


def greedy_dynamic_contract():
    """decoder_greedy<E, T, true>::decode -- greedy array of dynamic structs"""
    def match(q, sig):
        ta = class_targs(q, 'decoder_greedy')
        return len(ta) >= 3 and ta[2] == '1' and q.endswith('::decode')

    def tct(cx, a):
        ta = class_targs(cx.ix.qualname(a['__fn']), 'decoder_greedy')
        return ta[0], parse_qual(cx, ta[1])[0]

    def requires(cx, st, a):
        e, t = tct(cx, a)
        al = wire_align(cx, t)
        return region_requires(cx, st, a['pos'].addr, a['end'].addr) + [('aligned', (a['pos'].addr & bv(al - 1)) == 0)]

    def ensures(cx, s0, a0, s1, a1, ret):
        pos, end = a0['pos'].addr, a0['end'].addr
        e, t = tct(cx, a0)
        tot = a1['pos'].addr - pos
        v = a1['v'].path
        return [('bounds', z3.And(z3.ULE(s0.ghost['RLO'], a1['pos'].addr), z3.ULE(a1['pos'].addr, end))), ('ret', ret.t),
                ('forward', z3.UGE(a1['pos'].addr, pos)),
                ('exact', tot == cx.sumsize(s1, v, cx.vec_size(s1, v)))]

    def setup(cx, st, a):
        setup_read(cx, st, a)
        st.ghost['pos0'] = a['pos'].addr

    def inv(cx, st, env):
        g = st.ghost
        t = parse_qual(cx, class_targs(cx.ix.qualname(cx.current[2]), 'decoder_greedy')[1])[0]
        info = cx.type_info(t)
        pos, end, v = env['pos'].addr, env['end'].addr, env['v'].path
        n = cx.vec_size(st, v)
        tot = cx.sumsize(st, v, n)
        return [('lo', z3.ULE(g['pos0'], pos)), ('hi', z3.ULE(pos, end)), ('end', end == g['RHI']),
                ('rlo', z3.ULE(g['RLO'], g['pos0'])),
                ('aligned', (pos & bv(info['align'] - 1)) == 0),
                ('pos', pos == g['pos0'] + tot),
                ('n', z3.ULE(n, pos - g['pos0'])),
                ('count', z3.ULE(n * bv(max(1, info['min_size'])), pos - g['pos0']))]

    loops = {0: LoopSpec(inv, variant=lambda cx, st, env: env['end'].addr - env['pos'].addr)}
    return Contract('decoder_greedy(dynamic)', match, requires, ensures, modifies=('v', 'pos'), setup=setup, loops=loops, params=('v', 'pos', 'end'),
                    props=('C07',))


def message_decode_contract():
    """message<T>::decode<E>(const void* data, size_t size)"""
    def match(q, sig):
        return '::message<' in q and '::decode<' in q and sig.startswith('bool (const void *, size_t)')

    def requires(cx, st, a):
        d = a['data'].addr
        return [('addr', z3.ULT(d, ADDR_MAX)), ('size', z3.ULT(a['size'].t, COUNT_MAX)),
                ('aligned', (d & bv(7)) == 0)]

    def setup(cx, st, a):
        st.ghost['RLO'] = a['data'].addr
        st.ghost['RHI'] = a['data'].addr + a['size'].t
        st.assume(z3.ULT(a['data'].addr, ADDR_MAX))
        st.assume(z3.ULT(a['size'].t, COUNT_MAX))
        st.ghost['ALLOC'] = lambda n, vct: alloc_bound(cx, st, n, vct)

    def ensures(cx, s0, a0, s1, a1, ret):
        tname = class_targs(cx.ix.qualname(a0['__fn']), 'message')[0]
        tct = parse_qual(cx, tname)[0]
        return [('exact', z3.Implies(ret.t, cx.gbs_of(s1, CObj('self', tct)) == a0['size'].t))]

    return Contract('message::decode', match, requires, ensures, setup=setup, params=('data', 'size'), props=('C07',))


# --------------------------------------------------------------------------- encoder primitives (C05, C03, C19)

def writable(st, data, nbytes):
    g = st.ghost
    return z3.And(z3.ULE(g['WLO'], data), z3.ULE(data, data + nbytes), z3.ULE(data + nbytes, g['WHI']),
                  z3.ULT(data, ADDR_MAX), z3.ULT(nbytes, COUNT_MAX))


def setup_write(cx, st, a):
    st.ghost['WLO'] = fresh('WLO', BV64)
    st.ghost['WHI'] = fresh('WHI', BV64)
    st.assume(z3.ULT(st.ghost['WHI'], ADDR_MAX))
    st.assume(z3.ULE(st.ghost['WLO'], st.ghost['WHI']))


def _encoder_kind(q):
    ta = class_targs(q, 'encoder')
    if len(ta) < 5:
        return None
    e, t, comp, enum, dyn = ta[:5]
    kind = 'scalar'
    if comp == '1':
        kind = 'dynamic' if dyn == '1' else 'fixed'
    elif enum == '1':
        kind = 'enum'
    return kind, e, t


def encoder_one_contract():
    """encoder<E, T, false, *, false>::encode(uint8_t* data, const T& x)"""
    def match(q, sig):
        k = _encoder_kind(q) if 'encoder<' in q else None
        return bool(k) and k[0] in ('scalar', 'enum') and q.endswith('::encode') and len(sig.split(',')) == 2

    def info(cx, a):
        kind, e, t = _encoder_kind(cx.ix.qualname(a['__fn']))
        return kind, e, (4 if kind == 'enum' else a['x'].bits // 8)

    def requires(cx, st, a):
        kind, e, n = info(cx, a)
        return [('writable', writable(st, a['data'].addr, bv(n)))] + native_aligned(e, n, a['data'].addr)

    def ensures(cx, s0, a0, s1, a1, ret):
        kind, e, n = info(cx, a0)
        x = a0['x']
        term = x.t if x.bits == 8 * n else (z3.SignExt(8 * n - x.bits, x.t) if x.signed else z3.ZeroExt(8 * n - x.bits, x.t))
        return [('ret', ret.addr == a0['data'].addr + bv(n)),
                ('bytes', s1.mem == store_bytes(s0.mem, a0['data'].addr, term, n, is_big(e)))]

    return Contract('encoder::encode(one)', match, requires, ensures, modifies=('mem',), setup=setup_write, params=('data', 'x'),
                    props=('C05', 'C19', 'C03'))


def encoder_array_contract():
    """encoder<E, T, false, *, false>::encode(uint8_t* data, const T* x, size_t n)"""
    def match(q, sig):
        k = _encoder_kind(q) if 'encoder<' in q else None
        return bool(k) and k[0] in ('scalar', 'enum') and q.endswith('::encode') and len(sig.split(',')) == 3

    def info(cx, a):
        kind, e, t = _encoder_kind(cx.ix.qualname(a['__fn']))
        return kind, e, (4 if kind == 'enum' else a['x'].elem.bits // 8)

    def requires(cx, st, a):
        kind, e, sz = info(cx, a)
        r = [('count', z3.ULT(a['n'].t, COUNT_MAX)), ('writable', writable(st, a['data'].addr, a['n'].t * bv(sz)))]
        r += native_aligned(e, sz, a['data'].addr)
        if a['x'].cap is not None:
            r.append(('capacity', z3.UGE(a['x'].cap, a['n'].t)))
        return r

    def ensures(cx, s0, a0, s1, a1, ret):
        kind, e, sz = info(cx, a0)
        return [('ret', ret.addr == a0['data'].addr + a0['n'].t * bv(sz))]

    def setup(cx, st, a):
        setup_write(cx, st, a)
        x = a['x']
        x.arr = (cx.arr_id(st, 'xarr'), bv(0))
        x.cap = fresh('cap', BV64)
        x.base_path = 'xarr'
        st.ghost['x0cap'], st.ghost['n0'], st.ghost['d0'] = x.cap, a['n'].t, a['data'].addr

    def inv(cx, st, env):
        g = st.ghost
        kind, e, t = _encoder_kind(cx.ix.qualname(cx.current[2]))
        sz = 4 if kind == 'enum' else env['x'].elem.bits // 8
        n, data, x = env['n'].t, env['data'].addr, env['x']
        done = g['n0'] - n
        r = [('n', z3.ULE(n, g['n0'])), ('data', data == g['d0'] + done * bv(sz)), ('cap', x.cap == g['x0cap'] - done)]
        if e == '0' and sz > 1:
            r.append(('aligned', (data & bv(sz - 1)) == 0))
        return r

    loops = {0: LoopSpec(inv, variant=lambda cx, st, env: env['n'].t, modifies=('mem',))}
    return Contract('encoder::encode(array)', match, requires, ensures, modifies=('mem',), setup=setup, loops=loops, params=('data', 'x', 'n'),
                    props=('C05',))


def gen_encode_contract():
    """message_impl<T>::encode<E>(const T& x, uint8_t* pos): what every generated encoder is verified against"""
    def match(q, sig):
        return 'message_impl<' in q and '::encode<' in q

    def requires(cx, st, a):
        info = cx.type_info(a['x'].ct)
        if info is None:
            raise OutOfReach('no wire information for %r' % a['x'].ct)
        size = gbs_value(cx, st, a['x'])
        st.ghost['__size'] = size           # evaluated once in the pre-state; `ensures` refers to the same term
        return [('writable', writable(st, a['pos'].addr, size)), ('aligned', (a['pos'].addr & bv(info['align'] - 1)) == 0)]

    def ensures(cx, s0, a0, s1, a1, ret):
        return [('ret', ret.addr == a0['pos'].addr + s0.ghost['__size'])]

    return Contract('message_impl::encode', match, requires, ensures, modifies=('mem',), setup=setup_write, params=('x', 'pos'),
                    props=('C05', 'C03'), verify=False)


def message_encode_ptr_contract():
    """message<T>::encode<E>(void* data) const"""
    def match(q, sig):
        return 'message<' in q and 'message_impl' not in q and '::encode<' in q and sig.startswith('size_t (void *)')

    def tct(cx, a):
        return parse_qual(cx, class_targs(cx.ix.qualname(a['__fn']), 'message')[0])[0]

    def requires(cx, st, a):
        t = tct(cx, a)
        info = cx.type_info(t)
        me = CObj(a['this'].obj_path, t)
        return [('writable', writable(st, a['data'].addr, cx.gbs_of(st, me))),
                ('aligned', (a['data'].addr & bv(info['align'] - 1)) == 0)]

    def ensures(cx, s0, a0, s1, a1, ret):
        me = CObj(a0['this'].obj_path, tct(cx, a0))
        return [('ret', ret.t == cx.gbs_of(s0, me))]

    return Contract('message::encode(void*)', match, requires, ensures, modifies=('mem',), setup=setup_write, params=('data',),
                    props=('C05',))


def message_encode_vec_contract():
    """message<T>::encode<E>() const -> std::vector<uint8_t>: allocates get_byte_size() bytes and encodes into them"""
    def match(q, sig):
        return 'message<' in q and 'message_impl' not in q and '::encode<' in q and sig.startswith('std::vector<uint8_t> ()')

    def ensures(cx, s0, a0, s1, a1, ret):
        return []

    return Contract('message::encode()', match, None, ensures, modifies=('mem',), props=('C05',))


def encoder_composite_one_contract():
    """encoder<E, T, true, false, *>::encode(uint8_t* data, const T& x)"""
    def match(q, sig):
        k = _encoder_kind(q) if 'encoder<' in q else None
        return bool(k) and k[0] in ('fixed', 'dynamic') and q.endswith('::encode') and len(sig.split(',')) == 2

    def requires(cx, st, a):
        info = cx.type_info(a['x'].ct)
        return [('writable', writable(st, a['data'].addr, cx.gbs_of(st, a['x']))),
                ('aligned', (a['data'].addr & bv(info['align'] - 1)) == 0)]

    def ensures(cx, s0, a0, s1, a1, ret):
        return [('ret', ret.addr == a0['data'].addr + cx.gbs_of(s0, a0['x']))]

    return Contract('encoder::encode(composite)', match, requires, ensures, modifies=('mem',), setup=setup_write, params=('data', 'x'),
                    props=('C05', 'C03'))


def encoder_composite_array_contract():
    """encoder<E, T, true, false, *>::encode(uint8_t* data, const T* x, size_t n)"""
    def match(q, sig):
        k = _encoder_kind(q) if 'encoder<' in q else None
        return bool(k) and k[0] in ('fixed', 'dynamic') and q.endswith('::encode') and len(sig.split(',')) == 3

    def total(cx, st, x, n):
        info = cx.type_info(x.elem)
        if info['fixed_size'] >= 0:
            return n * bv(info['fixed_size'])
        f = cx._sumsize_fn()
        return f(x.arr[0], x.arr[1] + n) - f(x.arr[0], x.arr[1])

    def requires(cx, st, a):
        info = cx.type_info(a['x'].elem)
        x = a['x']
        if x.arr is None:
            raise OutOfReach('composite array pointer without provenance')
        r = [('count', z3.ULT(a['n'].t, COUNT_MAX)), ('writable', writable(st, a['data'].addr, total(cx, st, x, a['n'].t))),
             ('aligned', (a['data'].addr & bv(info['align'] - 1)) == 0)]
        if x.cap is not None:
            r.append(('capacity', z3.UGE(x.cap, a['n'].t)))
        return r

    def ensures(cx, s0, a0, s1, a1, ret):
        return [('ret', ret.addr == a0['data'].addr + total(cx, s0, a0['x'], a0['n'].t))]

    def setup(cx, st, a):
        setup_write(cx, st, a)
        x = a['x']
        x.arr = (cx.arr_id(st, 'xarr'), bv(0))
        x.cap = fresh('cap', BV64)
        x.base_path = 'xarr'
        st.ghost['x0cap'], st.ghost['n0'], st.ghost['d0'] = x.cap, a['n'].t, a['data'].addr
        # the ghost sum of element sizes is monotone and its steps are the element sizes: facts needed at index `done`
        st.ghost['arr0'] = x.arr[0]

    def inv(cx, st, env):
        g = st.ghost
        info = cx.type_info(env['x'].elem)
        n, data, x = env['n'].t, env['data'].addr, env['x']
        done = g['n0'] - n
        f = cx._sumsize_fn()
        r = [('n', z3.ULE(n, g['n0'])), ('cap', x.cap == g['x0cap'] - done), ('idx', x.arr[1] == done),
             ('aligned', (data & bv(info['align'] - 1)) == 0)]
        if info['fixed_size'] >= 0:
            r.append(('data', data == g['d0'] + done * bv(info['fixed_size'])))
        else:
            r.append(('data', data == g['d0'] + f(g['arr0'], done)))
            r.append(('sum.le', z3.ULE(f(g['arr0'], done), f(g['arr0'], g['n0']))))
            r.append(('sum.small', z3.ULT(f(g['arr0'], g['n0']), COUNT_MAX)))
        return r

    def lemmas(cx, st, env):
        g = st.ghost
        info = cx.type_info(env['x'].elem)
        done = g['n0'] - env['n'].t
        if info['fixed_size'] >= 0:
            c = bv(info['fixed_size'])
            return [('mul.monotone', [z3.ULT(g['n0'], COUNT_MAX), z3.ULT(done, g['n0'])],
                     z3.And(z3.ULE((done + 1) * c, g['n0'] * c), z3.ULT(done * c, (done + 1) * c)))]
        f = cx._sumsize_fn()
        return [('sumsize(a, k) is the sum of the sizes of the first k elements: monotone in k (instance k = done + 1 <= n)',
                 z3.And(z3.ULE(f(g['arr0'], done), f(g['arr0'], done + 1)),
                        z3.ULE(f(g['arr0'], done + 1), f(g['arr0'], g['n0']))))]

    loops = {0: LoopSpec(inv, variant=lambda cx, st, env: env['n'].t, modifies=('mem',), lemmas=lemmas)}
    return Contract('encoder::encode(composite array)', match, requires, ensures, modifies=('mem',), setup=setup, params=('data', 'x', 'n'),
                    loops=loops, props=('C05',))


def encode_optional_contract():
    """do_encode<E, T>(uint8_t* data, const optional<T>& x)"""
    def match(q, sig):
        return 'do_encode<' in q and 'optional<' in sig

    def tparts(cx, a):
        fn = a['__fn']
        p1 = cx.ix.params(fn)[1]
        oct_, _ = parse_qual(cx, p1['type'].get('desugaredQualType') or p1['type']['qualType'])
        name = oct_.name
        inner = name[name.index('optional<') + 9:name.rindex('>')]
        return targs(cx.ix.qualname(fn))[0], parse_qual(cx, inner)[0]

    def requires(cx, st, a):
        e, tct = tparts(cx, a)
        al, sz = max(4, wire_align(cx, tct)), wire_size(cx, tct)
        return [('writable', writable(st, a['data'].addr, bv(al + sz))), ('aligned', (a['data'].addr & bv(al - 1)) == 0)]

    def ensures(cx, s0, a0, s1, a1, ret):
        e, tct = tparts(cx, a0)
        al, sz = max(4, wire_align(cx, tct)), wire_size(cx, tct)
        r = [('ret', ret.addr == a0['data'].addr + bv(al + sz))]
        # content (C19 / C03): the presence flag is one 32-bit word in the requested byte order; the gap up to an
        # 8-aligned value and, when nothing is set, the value slot are not written (padding stays what message::encode
        # zero-filled).  Stated where the last writer is known: an unset optional, or a scalar / enum value (a composite
        # value is written by its own encode, whose contract carries no frame).
        data = a0['data'].addr
        # x is const: its attributes are created on first read, i.e. in the state the body ran on
        eng = cx.obj_attr(s1, a1['x'].path, 'engaged', z3.BoolSort())
        known = z3.BoolVal(True) if tct.kind == 'int' else z3.Not(eng)
        flag = z3.If(eng, z3.BitVecVal(1, 32), z3.BitVecVal(0, 32))
        r.append(('flag: one 32-bit word in the byte order asked for',
                  z3.Implies(known, from_bytes(s1.mem, data, 4, is_big(e)) == flag)))
        for i in range(4, al):
            r.append(('gap byte %d between flag and value not written' % i,
                      z3.Implies(known, z3.Select(s1.mem, data + bv(i)) == z3.Select(s0.mem, data + bv(i)))))
        for i in range(al, al + sz):
            r.append(('unset: value slot byte %d not written' % i,
                      z3.Implies(z3.Not(eng), z3.Select(s1.mem, data + bv(i)) == z3.Select(s0.mem, data + bv(i)))))
        return r

    return Contract('do_encode(optional)', match, requires, ensures, modifies=('mem',), setup=setup_write, params=('data', 'x'),
                    props=('C05', 'C03', 'C19'))


def all_contracts():
    return [decode_int_contract(), encode_int_contract(), align_contract(), nearest_contract(), advance_contract(),
            decode_align_contract(), decoder_one_contract(), decoder_array_contract(), gen_decode_contract(),
            decoder_composite_array_contract(), decode_optional_contract(), decode_resize_contract(),
            greedy_fixed_contract(), greedy_dynamic_contract(), message_decode_contract(),
            encoder_one_contract(), encoder_array_contract(), gen_encode_contract(), message_encode_ptr_contract(),
            message_encode_vec_contract(), encoder_composite_one_contract(), encoder_composite_array_contract(),
            encode_optional_contract()]


# --------------------------------------------------------------------------- the driver translation unit

DUMMY_TYPES = r'''
namespace prophy { namespace generated {
enum En { En_A = 1, En_B = 7 };
struct Fx : public prophy::detail::message<Fx>
{
    enum { encoded_byte_size = 12 };
    uint32_t a; uint16_t b; uint32_t c;
    size_t get_byte_size() const { return 12; }
};
struct F8 : public prophy::detail::message<F8>
{
    enum { encoded_byte_size = 16 };
    uint64_t a; uint8_t b;
    size_t get_byte_size() const { return 16; }
};
struct Fo : public prophy::detail::message<Fo>
{
    enum { encoded_byte_size = 12 };
    optional<uint8_t> a; uint8_t b;
    size_t get_byte_size() const { return 12; }
};
struct Fv : public prophy::detail::message<Fv>
{
    enum { encoded_byte_size = 12 };
    std::vector<uint16_t> a; uint8_t b;
    size_t get_byte_size() const { return 12; }
};
struct Dy : public prophy::detail::message<Dy>
{
    enum { encoded_byte_size = -1 };
    std::vector<uint8_t> a;
    size_t get_byte_size() const;
};
} }
'''

# wire facts of the dummy types (what the generated code of such a struct would have): name -> info
DUMMY_INFO = {
    'Fx': {'fixed_size': 12, 'align': 4, 'min_size': 12},
    'F8': {'fixed_size': 16, 'align': 8, 'min_size': 16},
    'Fv': {'fixed_size': 12, 'align': 4, 'min_size': 12},
    'Fo': {'fixed_size': 12, 'align': 4, 'min_size': 12},      # sizeof(Fo) == 3: the C++ object size is not the wire size
    'Dy': {'fixed_size': -1, 'align': 4, 'min_size': 4},
}


def driver_source():
    es = ['native', 'little', 'big']
    scal = [s for s, _ in SCALARS]
    lines = ['#include <vector>', '#include <prophy/detail/encoder.hpp>', '#include <prophy/detail/decoder.hpp>',
             '#include <prophy/detail/byte_size.hpp>', '#include <prophy/detail/message.hpp>', DUMMY_TYPES,
             'namespace prophy { namespace detail {', 'using namespace prophy::generated;']
    for e in es:
        for t in scal + ['En', 'Fx', 'Fo', 'Dy']:
            lines.append('template struct decoder<%s, %s>;' % (e, t))
            lines.append('template struct encoder<%s, %s>;' % (e, t))
        for t in ['uint8_t', 'uint16_t', 'uint64_t', 'En', 'Fx', 'Dy']:
            lines.append('template struct decoder_greedy<%s, %s>;' % (e, t))
        for t in ['uint8_t', 'uint16_t', 'uint32_t', 'uint64_t', 'int64_t', 'En', 'Fx', 'F8', 'Fo', 'Fv']:
            lines.append('template bool do_decode<%s, %s>(optional<%s>&, const uint8_t*&, const uint8_t*);' % (e, t, t))
            lines.append('template uint8_t* do_encode<%s, %s>(uint8_t*, const optional<%s>&);' % (e, t, t))
        for c in ['uint8_t', 'uint16_t', 'uint32_t', 'uint64_t', 'int8_t', 'int32_t']:
            for t in ['uint8_t', 'uint16_t', 'uint64_t', 'Fx', 'Dy']:
                lines.append('template bool do_decode_resize<%s, %s, %s>(std::vector<%s>&, const uint8_t*&, const uint8_t*, size_t);'
                             % (e, c, t, t))
        for t in ['Fx', 'Dy']:
            lines.append('template bool message<%s>::decode<%s>(const void*, size_t);' % (t, e))
            lines.append('template size_t message<%s>::encode<%s>(void*) const;' % (t, e))
            lines.append('template std::vector<uint8_t> message<%s>::encode<%s>() const;' % (t, e))
    for n in (1, 2, 4, 8):
        lines.append('template bool do_decode_align<%d>(const uint8_t*&, const uint8_t*);' % n)
        lines.append('template uint8_t* align<%d>(uint8_t*);' % n)
        lines.append('template const uint8_t* align<%d>(const uint8_t*);' % n)
        lines.append('template size_t nearest<%d, size_t>(size_t);' % n)
    lines.append('} }')
    return '\n'.join(lines) + '\n'
