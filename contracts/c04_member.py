"""C04: the first layout pass over one member -- prophyc.model.evaluate_sizes.evaluate_member_size.

For every member, *whatever it held before* (a member of an included file has been sized already by that file's own
run, and is sized again at every include level; the second pass, evaluate_array_and_optional_size, scales byte_size in
place and relies on this reset):
    an array whose size expression could not be evaluated, or a type that is neither defined nor built in: byte_size and
    alignment are None and the answer is False;
    a defined type: exactly what evaluate_node_size says about the definition (summarised: a size >= 0 and an alignment
    in {1,2,4,8}, or (None, None)), the answer is False exactly for (None, None);
    a built-in type: BUILTIN_SIZES[type] for both, answer True.
"""
import z3

from vf.contract import Contract
from vf.pyvc import SRef, SInt, SBool, SStr, Sym, OutOfSubset, StrSort
from .model_shapes import MODEL, SHAPES, model_class

ALIGNS = (1, 2, 4, 8)
BUILTIN = z3.Function('BUILTIN_SIZES.has', StrSort, z3.BoolSort())
BSIZE = z3.Function('BUILTIN_SIZES.get', StrSort, z3.IntSort())


class Builtins(Sym):
    """the module's BUILTIN_SIZES table, by membership predicate and value function"""


def ms_setup(vm, module, env):
    table = env.get('BUILTIN_SIZES')
    if not isinstance(table, dict) or not table or not all(isinstance(k, str) and v in ALIGNS for k, v in table.items()):
        raise OutOfSubset('BUILTIN_SIZES is not a table of names to 1/2/4/8')
    node = vm.fresh_ref('node_', model_class(vm, module, 'Struct'))
    m = vm.fresh_ref('member', model_class(vm, module, 'StructMember'))
    H = lambda a: z3.Select(vm.heap_array(a), m.t)
    s = z3.Const('s', StrSort)
    vm.assume(z3.ForAll([s], z3.Implies(BUILTIN(s), z3.Or(*[BSIZE(s) == a for a in ALIGNS])), patterns=[BSIZE(s)]))
    tname = vm.fresh('type_name', StrSort)
    vm.path.objattrs[(str(m.t), '_value')] = SStr(tname)       # StructMember.type_name is a property over _value
    pre = {a: H(a) for a in ('size', 'numeric_size#none', 'definition#none')}
    pre['type_name'] = tname
    st = {'args': [node, m], 'm': m, 'node': node, 'pre': pre, 'calls': [], 'warned': 0,
          'closure_env': {'BUILTIN_SIZES': Builtins(), 'warn': WARN, 'evaluate_node_size': NODE_SIZE}}
    vm.state = st
    return st


class Warn(Sym):
    pass


class NodeSize(Sym):
    """the sibling closure evaluate_node_size, by summary"""


WARN, NODE_SIZE = Warn(), NodeSize()


def ms_callee_node_size(vm, args, kwargs):
    """evaluate_node_size(node_=definition, parent=node_, member=member): (size, alignment) of the definition, or (None, None)"""
    st = vm.state
    d = kwargs.get('node_', args[0] if args else None)
    mem = kwargs.get('member', args[2] if len(args) > 2 else None)
    vm.oblige('call.evaluate_node_size:asked about this member\'s definition',
              z3.And(z3.BoolVal(isinstance(mem, SRef) and mem.t.eq(st['m'].t) and hasattr(d, 't')),
                     d.t == z3.Select(vm.heap_array('definition'), st['m'].t) if hasattr(d, 't') else z3.BoolVal(False)), 'call', vm.cur_line)
    if vm.choose(2) == 1:
        st['calls'].append(None)
        return (None, None)
    S, A = vm.fresh('S_def'), vm.fresh('A_def')
    vm.assume(z3.And(S >= 0, z3.Or(*[A == a for a in ALIGNS])))
    st['calls'].append((S, A))
    return (SInt(S), SInt(A))


def ms_contains(vm, container, item):
    if isinstance(container, Builtins):
        return SBool(BUILTIN(vm.as_str(item)))
    return NotImplemented


def ms_index(vm, obj, idx):
    if isinstance(obj, Builtins):
        return SInt(BSIZE(vm.as_str(idx)))
    return NotImplemented


def ms_call(vm, fn, args, kwargs, node):
    if isinstance(fn, Warn):
        vm.state['warned'] += 1
        return None
    if isinstance(fn, NodeSize):
        return ms_callee_node_size(vm, args, kwargs)
    return NotImplemented


def ms_post(vm, st, result):
    m, pre = st['m'], st['pre']
    a, b = vm.load(m, 'alignment'), vm.load(m, 'byte_size')
    unknown_array = z3.And(pre['size'], pre['numeric_size#none'])
    defined = z3.Not(pre['definition#none'])
    builtin = BUILTIN(pre['type_name'])
    res = vm.truthy(result) if isinstance(result, Sym) else z3.BoolVal(bool(result))
    nothing = z3.And(a.isnone, b.isnone, z3.Not(res))
    r = []
    if st['calls']:
        c = st['calls'][-1]
        r.append(('a defined type is asked about exactly once, and only when the array size is known', z3.And(
            z3.BoolVal(len(st['calls']) == 1), z3.Not(unknown_array), defined)))
        if c is None:
            r.append(('definition without a size: None / None / False', nothing))
        else:
            r.append(('defined type: size and alignment are the definition\'s, whatever the member held before',
                      z3.And(z3.Not(a.isnone), z3.Not(b.isnone), b.val == c[0], a.val == c[1], res)))
    else:
        r.append(('unknown array size or unknown type: None / None / False',
                  z3.Implies(z3.Or(unknown_array, z3.And(z3.Not(defined), z3.Not(builtin))), nothing)))
        r.append(('built-in type: BUILTIN_SIZES[type] for both, whatever the member held before',
                  z3.Implies(z3.And(z3.Not(unknown_array), z3.Not(defined), builtin),
                             z3.And(z3.Not(a.isnone), z3.Not(b.isnone), b.val == BSIZE(pre['type_name']), a.val == BSIZE(pre['type_name']), res))))
        r.append(('a defined type with a known array size is not skipped', z3.Or(unknown_array, z3.Not(defined))))
    return r


Contract(MODEL, 'evaluate_sizes.evaluate_member_size', ['C04', 'C03', 'C08', 'C14'], ms_setup, ms_post, shapes=SHAPES,
         modifies=['alignment', 'byte_size'],
         hooks={'contains': ms_contains, 'index': ms_index, 'call': ms_call},
         notes=['evaluate_node_size summarised: (size >= 0, alignment in {1,2,4,8}) or (None, None)',
                'the member\'s previous byte_size / alignment are arbitrary (members of included files arrive already sized)'])
