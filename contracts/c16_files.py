"""C16 (and C13, C20): prophyc.file_processor -- cache by absolute path, cycle marker, include-directory stack"""
import z3

from vf.contract import Contract, LoopAnn
from vf.pyvc import SRef, SSeq, SInt, SOpt, SBool, SStr, Ref, OpaqueFn, Sym, OutOfSubset, PyRaise, ClassInfo, StrSort
from vf import interp as I
from .absobj import AbsList, HOOKS
from .c10_props import Val

FP = 'prophyc/file_processor.py'


class Files(Sym):
    """self.files restricted to the key of interest: absent | None (being processed) | result"""

    def __init__(self, vm):
        self.present = vm.fresh('cached', z3.BoolSort())
        self.value = Val(vm, 'cached_result')        # may be None (in progress) and may be falsy (a file without declarations)
        self.ops = []


class OpenFile(Sym):
    def __init__(self, content):
        self.content = content

    def sym_enter(self, vm):
        return self

    def sym_exit(self, vm):
        pass

    def sym_getattr(self, vm, attr):
        if attr == 'read':
            return I.MethodOf(self, 'read')
        return NotImplemented


class Opaque(Sym):
    def __init__(self, tag):
        self.tag = tag

    def sym_truthy(self, vm):
        return True          # a non-empty path string


def pf_setup(vm, module, env):
    self = vm.fresh_ref('self', env.get('FileProcessor'))
    path = Opaque('path')
    files = Files(vm)
    st = {'args': [self, path], 'self': self, 'path': path, 'files': files, 'abspath': Opaque('abspath(path)'), 'content': Opaque('content'),
          'result': Val(vm, 'process_content_result'), 'calls': [], 'opened': [], 'closure_env': {}}
    vm.state = st
    return st


def pf_hooks():
    def getattr_(vm, obj, attr):
        st = vm.state
        if isinstance(obj, SRef) and obj.t.eq(st['self'].t):
            if attr == 'files':
                return st['files']
            if attr == 'process_content':
                return OpaqueFn(obj, 'process_content')
        if hasattr(obj, 'sym_getattr'):
            return obj.sym_getattr(vm, attr)
        return NotImplemented

    def external(vm, name, args, kwargs):
        st = vm.state
        if name == 'os.path.abspath':
            vm.oblige('call.abspath:(path)', args[0] is st['path'], 'call', vm.cur_line)
            return st['abspath']
        if name == 'codecs.open':
            vm.oblige('call.codecs.open:(path, "r", utf-8)', args[0] is st['path'] and list(args[1:]) == ['r'] and kwargs == {'encoding': 'utf-8'},
                      'call', vm.cur_line)
            st['opened'].append(1)
            if vm.choose(2) == 1:
                raise PyRaise(I.ExcClass('OSError'), ('cannot open',))
            return OpenFile(st['content'])
        return NotImplemented

    def contains(vm, container, item):
        st = vm.state
        if container is st['files']:
            vm.oblige('files key is the absolute path', item is st['abspath'], 'call', vm.cur_line)
            return SBool(container.present)
        return NotImplemented

    def index(vm, obj, idx):
        st = vm.state
        if obj is st['files']:
            vm.oblige('files key is the absolute path', idx is st['abspath'], 'call', vm.cur_line)
            return obj.value
        return NotImplemented

    def setitem(vm, obj, idx, val):
        st = vm.state
        if obj is st['files']:
            vm.oblige('files key is the absolute path', idx is st['abspath'], 'call', vm.cur_line)
            obj.ops.append(('set', val))
            obj.present, obj.value = z3.BoolVal(True), val
            return None
        return NotImplemented

    def method(vm, obj, name, args, kwargs):
        st = vm.state
        if isinstance(obj, OpenFile) and name == 'read':
            return obj.content
        return NotImplemented

    def call(vm, fn, args, kwargs, node):
        st = vm.state
        if isinstance(fn, OpaqueFn) and fn.attr == 'process_content':
            ok = len(args) == 3 and args[0] is st['content'] and args[1] is st['path'] and isinstance(args[2], I.Closure)
            vm.oblige('call.process_content:(content read from path, path, include callback)', ok, 'call', vm.cur_line)
            # while the content is processed the file is marked "in progress" (None) -- a re-entrant include sees the cycle
            marked = st['files'].ops == [('set', None)]
            vm.oblige('call.process_content:file marked as being processed beforehand', marked, 'call', vm.cur_line)
            st['calls'].append(1)
            if vm.choose(2) == 1:
                raise PyRaise(I.ExcClass('ParseError', 'Exception'), ('errors',))
            return st['result']
        return NotImplemented

    return {'getattr': getattr_, 'external': external, 'contains': contains, 'index': index, 'setitem': setitem, 'method': method, 'call': call}


def pf_post(vm, st, result):
    f = st['files']
    was_cached = f.present if False else None
    cached0 = [op for op in f.ops]
    hit = not st['calls'] and not f.ops
    miss = st['calls'] == [1] and f.ops == [('set', None), ('set', st['result'])] and st['opened'] == [1]
    return [('a finished file is served from the cache; a new one is read and processed exactly once, then cached', hit or miss),
            ('cache hit returns the cached result (whatever it is, e.g. an empty list)', (not hit) or (result is f.value)),
            ('cache miss returns and caches the new result', (not miss) or (result is st['result']))]


def pf_raises(vm, st, exc_class, exc_args):
    f = st['files']
    if exc_class.is_sub('CyclicIncludeError'):
        # only when the file is *being* processed: cached value is None -- not merely falsy
        return [('cyclic include reported only for a file still being processed', not st['calls'] and not f.ops),
                ('... i.e. its cache entry is None', f.value.isnone)]
    return [('errors of reading / processing propagate (ParseError, OSError); the file stays marked',
             exc_class.is_sub('ParseError') or exc_class.is_sub('OSError'))]


Contract(FP, 'FileProcessor._process_file', ['C16', 'C13'], pf_setup, pf_post, raises=pf_raises, hooks=pf_hooks(), modifies=[],
         trusted=['os.path.abspath / codecs.open (opaque, may raise OSError)'])


# ------------------------------------------------------------------ process_main / process_leaf: include_dirs restored on every exit

def dirs_setup(which):
    def setup(vm, module, env):
        self = vm.fresh_ref('self', env.get('FileProcessor'))
        dirs = AbsList(vm, 'include_dirs')
        if which == 'leaf':
            vm.assume(dirs.length >= 1)            # process_leaf runs inside process_main, which pushed the main file's directory
        arg = Opaque('path' if which == 'main' else 'leaf')
        st = {'args': [self, arg], 'self': self, 'dirs': dirs, 'n0': dirs.length, 'arg': arg, 'found': Opaque('found path'),
              'dirname': vm.fresh_ref('dirname', None), 'during': None, 'R': Opaque('result'), 'exists': vm.fresh('exists', z3.BoolSort()),
              'closure_env': {}}
        vm.state = st
        return st
    return setup


def dirs_hooks(which):
    h = dict(HOOKS)

    def getattr_(vm, obj, attr):
        st = vm.state
        if isinstance(obj, SRef) and obj.t.eq(st['self'].t) and attr == 'include_dirs':
            return st['dirs']
        return HOOKS['getattr'](vm, obj, attr)

    def external(vm, name, args, kwargs):
        st = vm.state
        if name == 'os.path.exists':
            return SBool(st['exists'])
        if name == 'os.path.dirname':
            want = st['arg'] if which == 'main' else st['found']
            vm.oblige('call.dirname:of the file that is going to be processed', args[0] is want, 'call', vm.cur_line)
            return st['dirname']
        if name.startswith('os.path.'):
            return vm.fresh_ref(name.replace('.', '_'), None)   # any other path computation: an unknown path (no clause relies on it)
        return NotImplemented

    def callee_process_file(vm, args, kwargs):
        st = vm.state
        want = st['arg'] if which == 'main' else st['found']
        vm.oblige('call._process_file:(the file)', args[1] is want, 'call', vm.cur_line)
        d = st['dirs']
        # while the file is processed, its own directory is the first include directory
        vm.oblige('during processing: the file\'s directory is searched first', d.elem(0).t == st['dirname'].t, 'call', vm.cur_line)
        if which == 'main':
            vm.oblige('during processing: the given include directories follow, in order', d.length == st['n0'] + 1, 'call', vm.cur_line)
        else:
            vm.oblige('during processing: the other include directories are unchanged', d.length == st['n0'], 'call', vm.cur_line)
        if vm.choose(2) == 1:
            raise PyRaise(I.ExcClass('CyclicIncludeError', 'Exception'), ('cycle',))
        return st['R']

    def callee_first_existing(vm, args, kwargs):
        st = vm.state
        vm.oblige('call._get_first_existing_path:(leaf, include_dirs)', args[0] is st['arg'] and args[1] is st['dirs'], 'call', vm.cur_line)
        if vm.decide(st['exists']):
            return st['found']
        return None

    def method(vm, obj, name, args, kwargs):
        if isinstance(obj, AbsList) and name == 'pop':
            return obj.m_pop(vm, args[0] if args else SInt(obj.length - 1))
        return HOOKS['method'](vm, obj, name, args, kwargs)

    h.update({'getattr': getattr_, 'external': external, 'method': method})
    return h, {'FileProcessor._process_file': callee_process_file, '_get_first_existing_path': callee_first_existing}


def dirs_restored(vm, st):
    d = st['dirs']
    j = vm.fresh('j')
    return [('include_dirs has its old length again', d.length == st['n0']),
            ('include_dirs has its old content again', z3.Implies(z3.And(0 <= j, j < st['n0']), d.elem(j).t == d.elem0(j).t))]


def dirs_post(vm, st, result):
    return dirs_restored(vm, st) + [('returns what _process_file returned', result is st['R'])]


def dirs_raises(vm, st, exc_class, exc_args):
    ok = exc_class.is_sub('FileNotFoundError') or exc_class.is_sub('CyclicIncludeError')
    return [('only FileNotFoundError / CyclicIncludeError (both reported by the parser)', ok)] + dirs_restored(vm, st)


from . import c15_sort as _c15   # AbsList.pop support

for _which, _fn in (('main', 'FileProcessor.process_main'), ('leaf', 'FileProcessor.process_leaf')):
    _h, _callees = dirs_hooks(_which)
    Contract(FP, _fn, ['C16', 'C20', 'C13'], dirs_setup(_which), dirs_post, raises=dirs_raises, hooks=_h, callees=_callees, modifies=[],
             trusted=['os.path.exists / os.path.dirname (opaque)'])
