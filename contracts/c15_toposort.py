"""C15 / C13: prophyc.model.topological_sort under contract (safety and termination; see the notes of each contract).

topological_sort.find_first_dep(dependency, start_index)   [closure over `nodes`]
    returns None, or the index of the FIRST node at or after start_index whose name is `dependency`;
    None only if no node from start_index on has that name.  Reads only.

topological_sort(nodes)
    * every mutation of the list is `nodes.insert(index, nodes.pop(found))` with index < found < len(nodes): the list
      stays a permutation of the input ("every definition exactly once"; that insert-after-pop permutes a list is the
      CPython list contract), and positions below `index` never change;
    * on normal return, every node comes after everything it depends on: for each position i and each dependency
      symbol d of nodes[i] that the list provides (providers[d] = p, p not the node itself), a node named p sits at a
      position < i (or p is a built-in type name);
    * providers maps every node name to itself and every enumerator of an Enum node to a node name of the list;
    * the loops terminate (the while loop by the rotation counter), the only exception is ModelError, raised only when
      the rotation counter exceeds len(nodes).
    * the list stays a permutation of the input: ghost position maps current<->input, inverse to each other, are
      maintained through every rotation (so "every definition exactly once" is proved, not assumed);
    * [second contract, inputs with an acyclic dependency relation: a rank of names that every dependency on another
      node of the list lowers] no exception at all: the node found for a missing dependency always exists behind
      `index`, every rotation lowers the rank of the node at `index`, so the rotation counter never exceeds len(nodes).
"""
import z3

from vf.contract import Contract, LoopAnn
from vf.pyvc import SRef, SSeq, SInt, SOpt, SBool, SStr, SOptStr, Ref, OpaqueFn, Sym, OutOfSubset, PyRaise, StrSort, Closure
from vf import interp as I
from .absobj import AbsList, HOOKS
from . import c15_sort as _pop_support          # AbsList.pop

MODEL = 'prophyc/model.py'

NAME = z3.Function('NAME', Ref, StrSort)                       # node.name


def ffd_setup(vm, module, env):
    nodes = AbsList(vm, 'nodes')
    dep = SStr(vm.fresh('dependency', StrSort))
    start = SInt(vm.fresh('start_index'))
    vm.assume(start.t >= 0)
    st = {'args': [dep, start], 'nodes': nodes, 'dep': dep, 'start': start, 'closure_env': {'nodes': nodes}, 'n0': nodes.length}
    vm.state = st
    return st


def name_getattr(vm, obj, attr):
    if isinstance(obj, SRef) and attr == 'name':
        return SStr(NAME(obj.t))
    return HOOKS['getattr'](vm, obj, attr) if 'getattr' in HOOKS else NotImplemented


def ffd_hooks():
    h = dict(HOOKS)
    h['getattr'] = name_getattr
    return h


def ffd_inv(vm, env, k):
    st = vm.state
    nodes, dep, start = st['nodes'], st['dep'], st['start']
    j = z3.Int('j')
    return [('no node of that name among those passed',
             z3.ForAll([j], z3.Implies(z3.And(start.t <= j, j < start.t + k, j < nodes.length), NAME(nodes.elem(j).t) != dep.t))),
            ('the list is not changed', z3.BoolVal(not nodes.mutations))]


def ffd_post(vm, st, result):
    nodes, dep, start = st['nodes'], st['dep'], st['start']
    n = nodes.length
    j = z3.Int('j')
    r = [('the list is not changed', z3.BoolVal(not nodes.mutations))]
    if result is None:
        r.append(('None only if no node from start_index on has that name',
                  z3.ForAll([j], z3.Implies(z3.And(start.t <= j, j < n), NAME(nodes.elem(j).t) != dep.t))))
        return r
    i = vm.as_int(result)
    r.append(('an index from start_index on', z3.And(start.t <= i, i < n)))
    r.append(('of a node with that name', NAME(nodes.elem(i).t) == dep.t))
    r.append(('the first such', z3.ForAll([j], z3.Implies(z3.And(start.t <= j, j < i), NAME(nodes.elem(j).t) != dep.t))))
    return r


Contract(MODEL, 'topological_sort.find_first_dep', ['C15', 'C13'], ffd_setup, ffd_post,
         loops={0: LoopAnn(ffd_inv, index='k')}, hooks=ffd_hooks(), modifies=[],
         notes=['closure variable `nodes`: a list of symbolic length of objects with a name'])


# ------------------------------------------------------------------------------------------------ topological_sort

NDEP = z3.Function('NDEP', Ref, z3.IntSort())                  # number of dependencies node.dependencies() yields
DEP = z3.Function('DEP', Ref, z3.IntSort(), StrSort)           # the d-th of them
ISENUM = z3.Function('ISENUM', Ref, z3.BoolSort())             # isinstance(node, Enum)
NMEM = z3.Function('NMEM', Ref, z3.IntSort())                  # len(enum.members)
MEM = z3.Function('MEM', Ref, z3.IntSort(), Ref)               # enum.members[m]
RANK = z3.Function('RANK', StrSort, z3.IntSort())              # acyclic inputs: a rank of names that every dependency lowers
StrSet = z3.ArraySort(StrSort, z3.BoolSort())
StrInt = z3.ArraySort(StrSort, z3.IntSort())
IntMap = z3.ArraySort(z3.IntSort(), z3.IntSort())


class KnownSet(Sym):
    """the `known` set of names: membership as an array; ghost `kt`: the position whose node brought a name in (-1: built-in)"""

    def __init__(self, vm, arr=None, kt=None):
        self.arr = arr if arr is not None else vm.fresh('known', StrSet)
        self.kt = kt if kt is not None else vm.fresh('known_at', StrInt)


class ProvObj(Sym):
    """the `providers` dict once the collecting loop has been entered (its content is the ghost view in the state)"""


class Prov(object):
    """ghost view of the `providers` dict: has / val; idx: the input position of the node that wrote the entry;
    mem: which of its enumerators the key is (-1: the key is the node's own name)"""

    def __init__(self, vm, empty=False):
        self.has = z3.K(StrSort, z3.BoolVal(False)) if empty else vm.fresh('prov_has', StrSet)
        self.val = vm.fresh('prov_val', z3.ArraySort(StrSort, StrSort))
        self.idx = vm.fresh('prov_idx', StrInt)
        self.mem = vm.fresh('prov_mem', StrInt)


def ts_setup_for(acyclic):
    def setup(vm, module, env):
        nodes = AbsList(vm, 'nodes')
        ident = vm.fresh('ident', IntMap)
        i = z3.Int('i')
        vm.assume(z3.ForAll([i], z3.Select(ident, i) == i, patterns=[z3.Select(ident, i)]))
        st = {'args': [nodes], 'nodes': nodes, 'n0': nodes.length, 'elem0': nodes.elem, 'closure_env': {}, 'known': None,
              'prov': Prov(vm, empty=True), 'builtins': None, 'popped': None, 'acyclic': acyclic, 'c2i': ident, 'i2c': ident}
        r = z3.Const('r', Ref)
        vm.assume(z3.ForAll([r], NDEP(r) >= 0, patterns=[NDEP(r)]))
        vm.assume(z3.ForAll([r], NMEM(r) >= 0, patterns=[NMEM(r)]))
        vm.state = st
        return st
    return setup


def _builtin(vm, s):
    st = vm.state
    return z3.Or(*[s == vm.contract.str_const(b) for b in st['builtins']]) if st['builtins'] else z3.BoolVal(False)


def _t(vm, x):
    return x.t if hasattr(x, 't') else vm.as_str(x)


def rank_instance(vm, st, j, d):
    """the acyclicity precondition at input node j and its d-th dependency, for the provider the code's table names
    (an instance of: whenever a dependency symbol of input node j is the name of input node j2, or an enumerator of the
    Enum j2, and j2 bears another name than j, then RANK(name j2) < RANK(name j); ranks lie in [0, len))"""
    p, e0 = st['prov'], st['elem0']
    x = e0(j).t
    s = DEP(x, d)
    j2 = z3.Select(p.idx, s)
    y = e0(j2).t
    m = z3.Select(p.mem, s)
    names = z3.Or(s == NAME(y), z3.And(ISENUM(y), 0 <= m, m < NMEM(y), s == NAME(MEM(y, m))))
    return z3.Implies(z3.And(0 <= j, j < st['n0'], 0 <= d, d < NDEP(x), 0 <= j2, j2 < st['n0'], names, NAME(y) != NAME(x)),
                      RANK(NAME(y)) < RANK(NAME(x)))


def rank_range(vm, st, s):
    return z3.And(0 <= RANK(s), RANK(s) < st['n0'])


def ts_hooks():
    h = dict(HOOKS)

    def getattr_(vm, obj, attr):
        if isinstance(obj, SRef) and attr == 'name':
            return SStr(NAME(obj.t))
        if isinstance(obj, SRef) and attr == 'dependencies':
            return OpaqueFn(obj, 'dependencies')
        if isinstance(obj, SRef) and attr == 'members':
            o = obj.t
            return SSeq(NMEM(o), lambda i: SRef(MEM(o, i), None, False), 'members')
        if isinstance(obj, KnownSet) and attr == 'add':
            return I.MethodOf(obj, 'add')
        if isinstance(obj, AbsList) and attr == 'pop':
            return I.MethodOf(obj, 'pop')
        if isinstance(obj, ProvObj) and attr in ('get', 'setdefault'):
            return I.MethodOf(obj, attr)
        return HOOKS['getattr'](vm, obj, attr)

    def call(vm, fn, args, kwargs, node):
        st = vm.state
        if isinstance(fn, OpaqueFn) and fn.attr == 'dependencies':
            o = fn.owner
            return SSeq(NDEP(o.t), lambda i: SStr(DEP(o.t, i)), 'deps')
        if isinstance(fn, I.Builtin) and fn.name == 'set' and len(args) == 1 and st['known'] is None:
            items = list(vm.iterate(args[0]))
            if not all(isinstance(x, str) for x in items):
                raise OutOfSubset('initial `known` set is not a set of literals')
            st['builtins'] = sorted(set(items))
            arr = z3.K(StrSort, z3.BoolVal(False))
            kt = z3.K(StrSort, z3.IntVal(-1))
            for b in st['builtins']:
                arr = z3.Store(arr, vm.contract.str_const(b), z3.BoolVal(True))
            st['known'] = KnownSet(vm, arr, kt)
            return st['known']
        if isinstance(fn, Closure) and fn.qualname.endswith('find_first_dep'):
            # by its contract (proved above): None, or the first index from start_index on of a node of that name
            nodes = st['nodes']
            dep, start = _t(vm, args[0]), vm.as_int(args[1])
            j = z3.Int('j')
            found = vm.fresh('found', z3.BoolSort())
            if vm.decide(found):
                i = vm.fresh('found_index')
                vm.assume(z3.And(start <= i, i < nodes.length, NAME(nodes.elem(i).t) == dep))
                return SInt(i)
            vm.assume(z3.ForAll([j], z3.Implies(z3.And(start <= j, j < nodes.length), NAME(nodes.elem(j).t) != dep)))
            if st['acyclic']:
                # where the provider of this dependency sits in the current list (ground instance of the line above)
                c = z3.Select(st['i2c'], z3.Select(st['prov'].idx, st['cur_dep']))
                vm.assume(z3.Implies(z3.And(start <= c, c < nodes.length), NAME(nodes.elem(c).t) != dep))
            return None
        return NotImplemented

    def method(vm, obj, name, args, kwargs):
        st = vm.state
        if isinstance(obj, KnownSet) and name == 'add':
            s = _t(vm, args[0])
            was = z3.Select(obj.arr, s)
            at = vm.path.ghost.get('idx')
            if at is None:
                raise OutOfSubset('known.add outside the main loop')
            obj.kt = z3.If(was, obj.kt, z3.Store(obj.kt, s, at))
            obj.arr = z3.Store(obj.arr, s, z3.BoolVal(True))
            return None
        if isinstance(obj, ProvObj) and name == 'get' and len(args) == 1:
            p, s = st['prov'], _t(vm, args[0])
            st['cur_dep'] = s
            return SOptStr(z3.Not(z3.Select(p.has, s)), z3.Select(p.val, s))
        if isinstance(obj, ProvObj) and name == 'setdefault' and len(args) == 2:
            p, s, v = st['prov'], _t(vm, args[0]), _t(vm, args[1])
            at = vm.path.ghost.get('kp')
            if at is None:
                raise OutOfSubset('providers.setdefault outside the collecting loop')
            if z3.eq(s, v):
                which = z3.IntVal(-1)                  # setdefault(node.name, node.name)
            else:
                which = vm.path.ghost.get('km')        # setdefault(member.name, node.name) inside the enumerator loop
                if which is None:
                    raise OutOfSubset('providers.setdefault(key, other) outside the enumerator loop')
            had = z3.Select(p.has, s)
            q = Prov(vm)
            q.has = z3.Store(p.has, s, z3.BoolVal(True))
            q.val = z3.If(had, p.val, z3.Store(p.val, s, v))
            q.idx = z3.If(had, p.idx, z3.Store(p.idx, s, at))
            q.mem = z3.If(had, p.mem, z3.Store(p.mem, s, which))
            st['prov'] = q
            return None
        if isinstance(obj, AbsList) and name == 'pop':
            p = vm.as_int(args[0])
            x = obj.m_pop(vm, args[0])
            st['popped'] = (p, x)
            return x
        if isinstance(obj, AbsList) and name == 'insert':
            # the only mutation of the list: insert(index, pop(found)) with index < found: a rotation of [index, found]
            q = vm.as_int(args[0])
            idx = vm.path.ghost.get('idx')
            pp = st['popped']
            ok = pp is not None and isinstance(args[1], SRef) and args[1] is pp[1] and idx is not None
            vm.oblige('the list changes only by insert(index, pop(found)), index < found',
                      z3.And(q == idx, q < pp[0]) if ok else z3.BoolVal(False), 'post', vm.cur_line)
            if not ok:
                raise OutOfSubset('list mutation that is not the rotation')
            vm.assume(z3.And(q == idx, q < pp[0]))
            st['popped'] = None
            obj.m_insert(vm, args[0], args[1])
            # ghost: the position maps after the rotation (definitional: new maps in terms of the old ones)
            p_ = pp[0]
            i, j = z3.Ints('i j')
            sigma = lambda x: z3.If(x < q, x, z3.If(x == q, p_, z3.If(x <= p_, x - 1, x)))         # new position -> old
            sigma_inv = lambda x: z3.If(x < q, x, z3.If(x < p_, x + 1, z3.If(x == p_, q, x)))     # old position -> new
            c2i, i2c = vm.fresh('c2i', IntMap), vm.fresh('i2c', IntMap)
            vm.assume(z3.ForAll([i], z3.Select(c2i, i) == z3.Select(st['c2i'], sigma(i)), patterns=[z3.Select(c2i, i)]))
            vm.assume(z3.ForAll([j], z3.Select(i2c, j) == sigma_inv(z3.Select(st['i2c'], j)), patterns=[z3.Select(i2c, j)]))
            st['c2i'], st['i2c'] = c2i, i2c
            return None
        return HOOKS['method'](vm, obj, name, args, kwargs)

    def contains(vm, container, item):
        if isinstance(container, KnownSet):
            return SBool(z3.Select(container.arr, _t(vm, item)))
        return NotImplemented

    def isinstance_(vm, x, c):
        if isinstance(x, SRef) and getattr(c, 'name', None) == 'Enum':
            return vm.decide(ISENUM(x.t))
        return NotImplemented

    h.update({'getattr': getattr_, 'call': call, 'method': method, 'contains': contains, 'isinstance': isinstance_})
    return h


# ---- facts

def prov_facts(vm, st, upto, inner=None):
    """providers after the nodes before position `upto` (and, inside an Enum node at `upto`, its first `inner` enumerators);
    the collecting loops run before the list is touched, so positions are input positions"""
    e0, p = st['elem0'], st['prov']
    j, m = z3.Ints('j m')
    s = z3.Const('s', StrSort)
    idx, mem = z3.Select(p.idx, s), z3.Select(p.mem, s)
    y = e0(idx).t
    r = [('every node name so far has an entry',
          z3.ForAll([j], z3.Implies(z3.And(0 <= j, j < upto), z3.Select(p.has, NAME(e0(j).t))))),
         ('every enumerator of an Enum node so far has an entry',
          z3.ForAll([j, m], z3.Implies(z3.And(0 <= j, j < upto, ISENUM(e0(j).t), 0 <= m, m < NMEM(e0(j).t)),
                                      z3.Select(p.has, NAME(MEM(e0(j).t, m)))))),
         ('every entry is the name of an input node: the key is that name, or an enumerator of that Enum',
          z3.ForAll([s], z3.Implies(z3.Select(p.has, s),
                                    z3.And(0 <= idx, idx < (upto if inner is None else upto + 1),
                                           z3.Select(p.val, s) == NAME(y),
                                           z3.Or(z3.And(mem == -1, s == NAME(y)),
                                                 z3.And(ISENUM(y), 0 <= mem, mem < NMEM(y), s == NAME(MEM(y, mem))))))))]
    if inner is not None:
        cur = e0(upto).t
        r.append(('the name of the node at hand has an entry', z3.Select(p.has, NAME(cur))))
        r.append(('its enumerators so far have an entry',
                  z3.ForAll([m], z3.Implies(z3.And(0 <= m, m < inner), z3.Select(p.has, NAME(MEM(cur, m)))))))
    return r


def satisfied(vm, st, node_t, d, pos):
    """dependency d of the node (at position pos) needs nothing more: not provided by the list, provided by the node itself,
    or provided by a node that is known and came in at a position < pos (or is a built-in)"""
    p, kn = st['prov'], st['known']
    s = DEP(node_t, d)
    v = z3.Select(p.val, s)
    return z3.Or(z3.Not(z3.Select(p.has, s)), v == NAME(node_t), z3.And(z3.Select(kn.arr, v), z3.Select(kn.kt, v) < pos))


def perm_facts(vm, st):
    nodes, e0, n = st['nodes'], st['elem0'], st['n0']
    c2i, i2c = st['c2i'], st['i2c']
    i, j = z3.Ints('i j')
    ci, ic = z3.Select(c2i, i), z3.Select(i2c, j)
    return [('length unchanged', nodes.length == n),
            ('every position holds an input node, every input node has its position, the two maps are inverse',
             z3.And(z3.ForAll([i], z3.Implies(z3.And(0 <= i, i < n),
                                              z3.And(0 <= ci, ci < n, nodes.elem(i).t == e0(ci).t, z3.Select(i2c, ci) == i)),
                              patterns=[z3.Select(c2i, i)]),
                    z3.ForAll([j], z3.Implies(z3.And(0 <= j, j < n),
                                              z3.And(0 <= ic, ic < n, e0(j).t == nodes.elem(ic).t, z3.Select(c2i, ic) == j)),
                              patterns=[z3.Select(i2c, j)])))]


def sorted_facts(vm, st, upto):
    nodes, kn = st['nodes'], st['known']
    i, d, j = z3.Ints('i d j')
    s = z3.Const('s', StrSort)
    kt = lambda x: z3.Select(kn.kt, x)
    return perm_facts(vm, st) + [
        ('the name of every node placed so far is known',
         z3.ForAll([j], z3.Implies(z3.And(0 <= j, j < upto), z3.Select(kn.arr, NAME(nodes.elem(j).t))))),
        ('a known name is a built-in or the name of a node placed before',
         z3.ForAll([s], z3.Implies(z3.Select(kn.arr, s),
                                   z3.And(kt(s) < upto, z3.Implies(kt(s) >= 0, NAME(nodes.elem(kt(s)).t) == s),
                                          z3.Implies(kt(s) < 0, _builtin(vm, s)))))),
        ('every node placed so far comes after what it depends on',
         z3.ForAll([i, d], z3.Implies(z3.And(0 <= i, i < upto, 0 <= d, d < NDEP(nodes.elem(i).t)),
                                      satisfied(vm, st, nodes.elem(i).t, d, i))))]


# ---- loops (ordinals in source order: 0 find_first_dep, 1 dependencies of the node, 2 nodes -> providers, 3 enumerators,
#      4 the positions, 5 the rotations of one position)

def fresh_nodes(vm, name):
    st = vm.state
    st['nodes'] = AbsList(vm, 'nodes')
    st['c2i'], st['i2c'] = vm.fresh('c2i', IntMap), vm.fresh('i2c', IntMap)
    return st['nodes']


def fresh_known(vm, name):
    st = vm.state
    st['known'] = KnownSet(vm)
    return st['known']


def fresh_prov(vm, name):
    st = vm.state
    st['prov'] = Prov(vm)
    return ProvObj()


def inv_deps(vm, env, k):
    st = vm.state
    node = env.get('node')
    idx = vm.path.ghost['idx']
    d = z3.Int('d')
    return [('the dependencies passed need nothing more',
             z3.ForAll([d], z3.Implies(z3.And(0 <= d, d < k), satisfied(vm, st, node.t, d, idx)))),
            ('node is the one at index', node.t == st['nodes'].elem(idx).t)]


def unfold_deps(vm, env, k):
    """acyclic inputs: the precondition at the node at hand (an input node: c2i[index]) and its k-th dependency"""
    st = vm.state
    if not st['acyclic']:
        return []
    idx = vm.path.ghost['idx']
    return [rank_instance(vm, st, z3.Select(st['c2i'], idx), k)]


def inv_collect(vm, env, k):
    st = vm.state
    return prov_facts(vm, st, k) + [('the list is not changed', z3.BoolVal(not st['nodes'].mutations))]


def inv_members(vm, env, m):
    st = vm.state
    kp = vm.path.ghost['kp']
    return prov_facts(vm, st, kp, inner=m) + [('node is the one at hand', env.get('node').t == st['elem0'](kp).t),
                                              ('it is an Enum', ISENUM(env.get('node').t))]


def inv_positions(vm, env, k):
    st = vm.state
    return sorted_facts(vm, st, k) + prov_facts(vm, st, st['n0'])


def inv_rotations(vm, env, _):
    st = vm.state
    idx = vm.path.ghost['idx']
    rot = vm.as_int(env.get('rotations'))
    r = sorted_facts(vm, st, idx) + prov_facts(vm, st, st['n0']) + [('rotations counted', z3.And(0 <= rot, rot <= st['n0'])),
                                                                  ('index in range', z3.And(0 <= idx, idx < st['n0']))]
    if st['acyclic']:
        name = NAME(st['nodes'].elem(idx).t)
        vm.assume(rank_range(vm, st, name))                 # the precondition's range clause at this name
        r.append(('every rotation lowers the rank of the node at index', RANK(name) + rot <= st['n0'] - 1))
    return r


def ts_post(vm, st, result):
    return sorted_facts(vm, st, st['n0']) + prov_facts(vm, st, st['n0']) + [('returns None', z3.BoolVal(result is None))]


def ts_raises(vm, st, exc_class, exc_args):
    n = str(getattr(exc_class, 'name', exc_class))
    if st['acyclic']:
        return [('an acyclic input is never rejected', z3.BoolVal(False))]
    return [('only ModelError (cyclic dependency)', z3.BoolVal(n.endswith('ModelError')))]


def _loops():
    return {1: LoopAnn(inv_deps, index='kd', unfold=unfold_deps),
            2: LoopAnn(inv_collect, index='kp', locals_={'providers': fresh_prov}, extra_havoc=('providers',)),
            3: LoopAnn(inv_members, index='km', locals_={'providers': fresh_prov}, extra_havoc=('providers',)),
            4: LoopAnn(inv_positions, index='idx', locals_={'nodes': fresh_nodes, 'known': fresh_known, 'rotations': 'int'},
                       extra_havoc=('nodes', 'known')),
            5: LoopAnn(inv_rotations, index='kr', locals_={'nodes': fresh_nodes, 'known': fresh_known},
                       extra_havoc=('nodes', 'known'), variant=lambda vm, env: vm.state['n0'] + 1 - vm.as_int(env.get('rotations')))}


Contract(MODEL, 'topological_sort', ['C15', 'C13'], ts_setup_for(False), ts_post, raises=ts_raises, hooks=ts_hooks(), modifies=[],
         loops=_loops(),
         notes=['find_first_dep by its contract (proved separately)'])

Contract(MODEL, 'topological_sort', ['C15', 'C13'], ts_setup_for(True), ts_post, raises=ts_raises, hooks=ts_hooks(), modifies=[],
         loops=_loops(), name='prophyc.model:topological_sort [acyclic inputs]',
         notes=['find_first_dep by its contract (proved separately)',
                'precondition (acyclic input): a rank of names in [0, len(nodes)) such that whenever a dependency symbol of a node is '
                'the name of another-named node of the list, or an enumerator of such an Enum node, that node ranks lower; '
                'used through its instances at the node at hand'])
