"""C04 / C01 (runtime side): class statics computed by the prophy metaclasses against specs/wire.py"""
import z3

from vf.contract import Contract, LoopAnn
from vf.pyvc import SRef, SSeq, SInt, SBool, Ref, ClassInfo, OutOfSubset
from vf.speclib import spec_int
from .rt_shapes import GENERATORS, OPTIONAL, SHAPES, ALIGNS, new_fields, sel, _in

U32_STATICS = {'_ALIGNMENT': 4, '_SIZE': 4}


def hook_getattr_u32(vm, obj, attr):
    """scalar.u32 statics: established by numeric_decorator (size=4) -- assumed here, see c04 numeric contract"""
    if isinstance(obj, ClassInfo) and obj.name == 'u32' and attr in U32_STATICS:
        return U32_STATICS[attr]
    return NotImplemented


RT = dict(SHAPES)
RT['_discriminator_type'] = 'obj'


# ------------------------------------------------------------------ union_generator.add_attributes

def union_attrs_setup(vm, module, env):
    vm.contract.divisor_domain = ALIGNS
    cls = vm.fresh_ref('cls', env.get('union_generator'))
    fields = new_fields(vm)
    vm.path.objattrs[(str(cls.t), '_descriptor')] = fields
    f, n = fields.fn, fields.length
    j = z3.Int('j')
    rng = lambda x: z3.And(0 <= x, x < n)
    ty = lambda t: sel(vm, 'type', t)
    al = lambda t: sel(vm, '_ALIGNMENT', ty(t))
    sz = lambda t: sel(vm, '_SIZE', ty(t))
    vm.assume(n > 0)        # prophyc's grammar requires at least one arm; max() of no arms raises
    vm.assume(z3.ForAll([j], z3.Implies(rng(j), z3.And(_in(al(f(j)), ALIGNS), sz(f(j)) >= 0, ty(f(j)) != cls.t)), patterns=[f(j)]))
    MA, MS = vm.fresh('MA'), vm.fresh('MS')
    vm.assume(z3.ForAll([j], z3.Implies(rng(j), z3.And(al(f(j)) <= MA, sz(f(j)) <= MS)), patterns=[f(j)]))
    wa, ws = vm.fresh('wa'), vm.fresh('ws')
    vm.assume(z3.And(rng(wa), al(f(wa)) == MA, rng(ws), sz(f(ws)) == MS))
    return {'args': [cls], 'cls': cls, 'MA': MA, 'MS': MS, 'closure_env': {}}


def union_attrs_post(vm, st, result):
    c = st['cls'].t
    MA, MS = SInt(st['MA']), SInt(st['MS'])
    return [('_ALIGNMENT==A(union)', sel(vm, '_ALIGNMENT', c) == spec_int(vm, 'union_alignment', MA)),
            ('_SIZE==S(union)', sel(vm, '_SIZE', c) == spec_int(vm, 'union_size', MS, MA)),
            ('fixed', z3.And(z3.Not(sel(vm, '_DYNAMIC', c)), z3.Not(sel(vm, '_UNLIMITED', c)), z3.Not(sel(vm, '_OPTIONAL', c))))]


Contract(GENERATORS, 'union_generator.add_attributes', ['C04', 'C01', 'C02'], union_attrs_setup, union_attrs_post,
         shapes=RT, hooks={'getattr': hook_getattr_u32},
         modifies=['_ALIGNMENT', '_BOUND', '_DYNAMIC', '_OPTIONAL', '_PARTIAL_ALIGNMENT', '_SIZE', '_UNLIMITED',
                   '_discriminator_type'])


# ------------------------------------------------------------------ optional()

def optional_setup(vm, module, env):
    cls = vm.fresh_ref('cls', None)
    c = cls.t
    vm.assume(z3.And(_in(sel(vm, '_ALIGNMENT', c), ALIGNS), sel(vm, '_SIZE', c) >= 0, z3.Not(sel(vm, '_DYNAMIC', c))))
    st = {'args': [cls], 'cls': cls, 'closure_env': {}}
    vm.state = st
    return st


def optional_hook_issubclass(vm, x, c):
    # the legality checks of optional() (bytes / arrays) are C12's; here: a legal base type
    return False


def optional_hook_classdef(vm, node, env):
    """class _optional(cls): pass  -- a fresh type object inheriting every static of cls"""
    base = vm.state['cls']
    new = vm.fresh_ref('_optional', None)
    for attr in ('_ALIGNMENT', '_SIZE', '_DYNAMIC', '_UNLIMITED'):
        vm.assume(sel(vm, attr, new.t) == sel(vm, attr, base.t))
    vm.assume(new.t != base.t)
    if node.body and not all(isinstance(s, ast_Pass) for s in node.body):
        raise OutOfSubset('class body of _optional is not `pass`')
    env.set(node.name, new)
    vm.state['new'] = new


import ast as _ast
ast_Pass = _ast.Pass


def optional_post(vm, st, result):
    b, r = st['cls'].t, result.t
    A, S = SInt(sel(vm, '_ALIGNMENT', b)), SInt(sel(vm, '_SIZE', b))
    return [('_OPTIONAL_ALIGNMENT==max(4,A)', sel(vm, '_OPTIONAL_ALIGNMENT', r) == spec_int(vm, 'opt_alignment', A)),
            ('_OPTIONAL_SIZE==opt_size', sel(vm, '_OPTIONAL_SIZE', r) == spec_int(vm, 'opt_size', S, A)),
            ('_OPTIONAL', sel(vm, '_OPTIONAL', r)),
            ('base statics inherited', z3.And(sel(vm, '_ALIGNMENT', r) == sel(vm, '_ALIGNMENT', b), sel(vm, '_SIZE', r) == sel(vm, '_SIZE', b))),
            ('base type untouched', z3.Not(sel(vm, '_OPTIONAL', b)) == z3.Not(z3.Select(st_pre_optional(vm), b)))]


def st_pre_optional(vm):
    return z3.Const('H__OPTIONAL', z3.ArraySort(Ref, z3.BoolSort()))


RTO = dict(RT)
RTO['_optional_type'] = 'obj'


def hook_getattr_scalar_mod(vm, obj, attr):
    from vf.interp import LazyModule
    r = hook_getattr_u32(vm, obj, attr)
    return r


Contract(OPTIONAL, 'optional', ['C04', 'C01', 'C02'], optional_setup, optional_post, shapes=RTO,
         hooks={'getattr': hook_getattr_u32, 'issubclass': optional_hook_issubclass, 'classdef': optional_hook_classdef},
         modifies=['_OPTIONAL_ALIGNMENT', '_OPTIONAL_SIZE', '_OPTIONAL', '_optional_type'],
         notes=['legal base type (not bytes / array / dynamic): rejection of the others is C12'])


# ------------------------------------------------------------------ struct_generator.add_attributes

def struct_attrs_setup(vm, module, env):
    vm.contract.divisor_domain = ALIGNS
    cls = vm.fresh_ref('cls', env.get('struct_generator'))
    fields = new_fields(vm)
    vm.path.objattrs[(str(cls.t), '_descriptor')] = fields
    f, n = fields.fn, fields.length
    i, j = z3.Ints('i j')
    rng = lambda x: z3.And(0 <= x, x < n)
    ty = lambda t: sel(vm, 'type', t)
    S = lambda a, t: z3.Select(pre[a], t)
    pre = {a: vm.heap_array(a) for a in ('_ALIGNMENT', '_SIZE', '_OPTIONAL', '_OPTIONAL_ALIGNMENT', '_OPTIONAL_SIZE',
                                         '_DYNAMIC', '_UNLIMITED', 'type', 'partial_alignment#none')}
    fa = lambda k: z3.If(S('_OPTIONAL', ty(f(k))), S('_OPTIONAL_ALIGNMENT', ty(f(k))), S('_ALIGNMENT', ty(f(k))))
    fs = lambda k: z3.If(S('_OPTIONAL', ty(f(k))), S('_OPTIONAL_SIZE', ty(f(k))), S('_SIZE', ty(f(k))))
    dyn = lambda k: S('_DYNAMIC', ty(f(k)))
    unl = lambda k: S('_UNLIMITED', ty(f(k)))
    # wf of the field types (postconditions of numeric_decorator / optional() / array() / bytes_() / add_attributes)
    vm.assume(z3.ForAll([j], z3.Implies(rng(j), z3.And(
        _in(S('_ALIGNMENT', ty(f(j))), ALIGNS), _in(S('_OPTIONAL_ALIGNMENT', ty(f(j))), (4, 8)),
        S('_SIZE', ty(f(j))) >= 0, S('_OPTIONAL_SIZE', ty(f(j))) >= 0, ty(f(j)) != cls.t)), patterns=[f(j)]))
    # descriptor fields, their types and the class are different objects
    vm.assume(z3.ForAll([i, j], z3.Implies(z3.And(rng(i), rng(j)), z3.And(f(i) != ty(f(j)), f(i) != cls.t)),
                        patterns=[z3.MultiPattern(f(i), ty(f(j)))]))
    MAXA = vm.fresh('MAXA')
    vm.assume(z3.ForAll([j], z3.Implies(rng(j), fa(j) <= MAXA), patterns=[f(j)]))
    wa = vm.fresh('wa')
    vm.assume(z3.If(n > 0, z3.And(rng(wa), fa(wa) == MAXA), MAXA == 1))
    OFFS = z3.Function('OFFS', z3.IntSort(), z3.IntSort())      # wire.S: offset after field k-1
    P = z3.Function('P', z3.IntSort(), z3.IntSort())            # sum of the field sizes
    G = z3.Function('G', z3.IntSort(), z3.IntSort())            # block alignment, scanning backwards
    vm.assume(z3.And(OFFS(0) == 0, P(0) == 0, G(0) == 1))
    st = {'args': [cls], 'cls': cls, 'fields': fields, 'fa': fa, 'fs': fs, 'dyn': dyn, 'unl': unl, 'MAXA': MAXA,
          'OFFS': OFFS, 'P': P, 'G': G, 'pre': pre, 'closure_env': {}}
    vm.state = st
    return st


def struct_attrs_hook_sum(vm, seq, elem, cond):
    """sum(<wire size of each field type>): by the fold lemma P (P(k+1) = P(k) + fs(k)) -- obligation:
    the summed element *is* the field's wire size"""
    st = vm.state
    n = st['fields'].length
    j = vm.fresh('j')
    e = vm.under(z3.And(0 <= j, j < n), lambda: vm.as_int(elem(j)))
    vm.under(z3.And(0 <= j, j < n), lambda: vm.oblige('call.sum:element is the wire size of field j', e == st['fs'](j), 'call', vm.cur_line))
    vm.oblige('call.sum:over all fields', seq.length == n, 'call', vm.cur_line)
    # P(n) by induction: instances of the definition are supplied where needed (loop 1 unfolds P at k);
    # here the total is the ghost value itself
    return SInt(st['P'](n))


def struct_attrs_hook_issubclass(vm, x, c):
    from vf.pyvc import STruth
    if isinstance(x, SRef):
        names = [getattr(k, 'name', None) for k in (c if isinstance(c, tuple) else (c,))]
        if x.t.eq(vm.state['cls'].t):
            return False        # struct_packed classes are outside the contract (never emitted by prophyc)
        ISARR = z3.Function('ISARR', Ref, z3.BoolSort())
        return STruth(ISARR(x.t))
    return NotImplemented


def loop0_inv(vm, env, k):
    """reversed scan: alignment == G(k); dynamic fields already passed carry their block alignment"""
    st = vm.state
    f, n, G = st['fields'].fn, st['fields'].length, st['G']
    i = z3.Int('i')
    pa, pan = vm.heap_array('partial_alignment'), vm.heap_array('partial_alignment#none')
    fld = lambda x: f(n - 1 - x)
    return [('alignment==G(k)', vm.as_int(env.get('alignment')) == G(k)),
            ('G in alignments', _in(G(k), ALIGNS)),
            ('partial alignments of passed fields', z3.ForAll([i], z3.Implies(z3.And(n - k <= i, i < n), z3.If(
                st['dyn'](i), z3.And(z3.Not(z3.Select(pan, f(i))), z3.Select(pa, f(i)) == G(n - 1 - i)),
                z3.Select(pan, f(i)) == z3.Select(st['pre']['partial_alignment#none'], f(i)))), patterns=[f(i)])),
            ('fields not yet passed untouched', z3.ForAll([i], z3.Implies(z3.And(0 <= i, i < n - k),
                z3.Select(pan, f(i)) == z3.Select(st['pre']['partial_alignment#none'], f(i))), patterns=[f(i)])),
            ('statics of field types untouched', _statics_same(vm, st))]


def _statics_same(vm, st):
    f, n = st['fields'].fn, st['fields'].length
    j = z3.Int('j')
    ty = lambda t: z3.Select(st['pre']['type'], t)
    same = [z3.Select(vm.heap_array(a), ty(f(j))) == z3.Select(st['pre'][a], ty(f(j)))
            for a in ('_ALIGNMENT', '_SIZE', '_OPTIONAL', '_OPTIONAL_ALIGNMENT', '_OPTIONAL_SIZE', '_DYNAMIC', '_UNLIMITED')]
    return z3.And(vm.heap_array('type') == st['pre']['type'],
                  z3.ForAll([j], z3.Implies(z3.And(0 <= j, j < n), z3.And(*same)), patterns=[f(j)]))


def loop0_unfold(vm, env, k):
    st = vm.state
    n = st['fields'].length
    idx = n - 1 - k
    return [st['G'](k + 1) == spec_int(vm, 'blk_step', SInt(st['fa'](idx)), SBool(st['dyn'](idx)), SInt(st['G'](k)))]


def loop1_inv(vm, env, k):
    """generator get_padded_sizes: offset is the documented start of field k (the total for k = n);
    the yields sum up to offset minus the plain sum of sizes"""
    st = vm.state
    n = st['fields'].length
    al_k = z3.If(k < n, st['fa'](k), st['MAXA'])
    start = spec_int(vm, 'rup', SInt(st['OFFS'](k)), SInt(al_k))
    off = vm.as_int(env.get('offset'))
    return [('offset==start(k)', off == start),
            ('yields==offset-sum(sizes)', vm.as_int(env.get('__acc__')) == off - st['P'](k)),
            ('statics of field types untouched', _statics_same(vm, st)),
            ('cls._ALIGNMENT==A(struct)', z3.Select(vm.heap_array('_ALIGNMENT'), st['cls'].t) == st['MAXA'])]


def loop1_unfold(vm, env, k):
    st = vm.state
    return [st['OFFS'](k + 1) == spec_int(vm, 'off_static_step', SInt(st['OFFS'](k)), SInt(st['fa'](k)), SInt(st['fs'](k))),
            st['P'](k + 1) == st['P'](k) + st['fs'](k)]


def struct_attrs_post(vm, st, result):
    c, f, n = st['cls'].t, st['fields'].fn, st['fields'].length
    j = z3.Int('j')
    pa, pan = vm.heap_array('partial_alignment'), vm.heap_array('partial_alignment#none')
    return [('_ALIGNMENT==A(struct)', sel(vm, '_ALIGNMENT', c) == st['MAXA']),
            ('_SIZE==S(struct)', sel(vm, '_SIZE', c) == spec_int(vm, 'rup', SInt(st['OFFS'](n)), SInt(st['MAXA']))),
            ('_DYNAMIC==any dynamic field', sel(vm, '_DYNAMIC', c) == z3.Exists([j], z3.And(0 <= j, j < n, st['dyn'](j)))),
            ('_UNLIMITED==any unlimited field', sel(vm, '_UNLIMITED', c) == z3.Exists([j], z3.And(0 <= j, j < n, st['unl'](j)))),
            ('_OPTIONAL false', z3.Not(sel(vm, '_OPTIONAL', c))),
            ('block alignment after every dynamic field', z3.ForAll([j], z3.Implies(z3.And(0 <= j, j < n, st['dyn'](j)), z3.And(
                z3.Not(z3.Select(pan, f(j))), z3.Select(pa, f(j)) == st['G'](n - 1 - j))), patterns=[f(j)])),
            ('no block alignment elsewhere', z3.ForAll([j], z3.Implies(z3.And(0 <= j, j < n, z3.Not(st['dyn'](j))),
                z3.Select(pan, f(j)) == z3.Select(st['pre']['partial_alignment#none'], f(j))), patterns=[f(j)]))]


Contract(GENERATORS, 'struct_generator.add_attributes', ['C04', 'C01', 'C02'], struct_attrs_setup, struct_attrs_post,
         shapes=RT,
         hooks={'sum': struct_attrs_hook_sum, 'issubclass': struct_attrs_hook_issubclass},
         loops={0: LoopAnn(loop0_inv, index='k', modifies=['partial_alignment', '_PARTIAL_ALIGNMENT'], unfold=loop0_unfold),
                1: LoopAnn(loop1_inv, index='k', unfold=loop1_unfold, extra_havoc=['__acc__'])},
         modifies=['_ALIGNMENT', '_BOUND', '_DYNAMIC', '_OPTIONAL', '_PARTIAL_ALIGNMENT', '_SIZE', '_UNLIMITED',
                   'partial_alignment'],
         notes=['G(i): block alignment scanning backwards (specs.wire.blk_step); equals specs.wire.blk(struct, n-1-i)',
                'struct_packed classes (never emitted by prophyc) are outside the contract'])
