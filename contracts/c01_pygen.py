"""C01 / C04 / C18: prophyc/generators/python.py -- the descriptor text emitted for one struct / union member.

The generated module is text; its meaning is fixed by the runtime constructors it names (prophy.optional, prophy.array,
prophy.bytes -- themselves under contract in c04_runtime / c01_arrays).  What is proved here is *which* constructor
expression is emitted for which member declaration:
    prophy.optional(T)                      iff the member is optional
    prophy.bytes(...) / prophy.array(T,...) iff the member is an array; bytes exactly for element type `byte`
    bound='<sizer>'                         iff the array has a sizer,   size=<n>   iff it has a size
    ('<name>', <that expression>)           exactly once, under the member's own name.
Formatting is an uninterpreted function of the literal over its operands, so "the expression" is a term; that the text
of such a term evaluates to the constructor call it spells is the (bounded) stand-in's part.
"""
import z3

from vf.contract import Contract
from vf.pyvc import SRef, SInt, SBool, SStr, SOptStr, Ref, OpaqueFn, Sym, OutOfSubset, StrSort, Closure, load_module
from .model_shapes import SHAPES, MODEL, model_class

PYGEN = 'prophyc/generators/python.py'

RT = dict(SHAPES)
RT['size'] = 'optstr'
RT['bound'] = 'optstr'


def strcat(a, b):
    return z3.Function('strcat', StrSort, StrSort, StrSort)(a, b)


def _truthy_optstr(vm, attr, m):
    from vf.pyvc import NONEMPTY
    return z3.And(z3.Not(z3.Select(vm.heap_array(attr + '#none'), m)), NONEMPTY(z3.Select(vm.heap_array(attr), m)))


def fsm_setup(vm, module, env):
    member = vm.fresh_ref('member', model_class(vm, load_module(MODEL), 'StructMember'))
    tn = SStr(vm.fresh('type_name', StrSort))
    vm.path.objattrs[(str(member.t), '_value')] = tn
    st = {'args': [member], 'member': member, 'tn': tn, 'events': [], 'closure_env': {}}
    vm.state = st
    return st


def fsm_event(vm, fmt, args, term):
    vm.state['events'].append((fmt, list(args), term))


def _t(vm, x):
    return x.t if hasattr(x, 't') else vm.as_str(x)


def fsm_post(vm, st, result):
    m = st['member'].t
    ev = st['events']
    by = lambda f: [e for e in ev if e[0] == f]
    e_opt, e_bound, e_size = by(u"%s.optional(%s)"), by(u"bound='%s'"), by(u"size=%s")
    e_bytes, e_arr, e_mem = by(u'%s.bytes(%s)'), by(u'%s.array(%s)'), by(u"('%s', %s)")
    opt = z3.Select(vm.heap_array('optional'), m)
    bound, size = _truthy_optstr(vm, 'bound', m), _truthy_optstr(vm, 'size', m)
    greedy = z3.Select(vm.heap_array('greedy'), m)
    is_array = z3.Or(bound, size, greedy)
    is_byte = st['tn'].t == vm.contract.str_const('byte')
    B = z3.BoolVal
    r = [('prophy.optional(...) iff optional', opt == B(len(e_opt) == 1)),
         ('an array constructor iff the member is an array', is_array == B(len(e_bytes) + len(e_arr) == 1)),
         ('prophy.bytes iff array of byte', z3.And(is_array, is_byte) == B(len(e_bytes) == 1)),
         ("bound='...' iff the array has a sizer", z3.And(is_array, bound) == B(len(e_bound) == 1)),
         ('size=... iff the array has a size', z3.And(is_array, size) == B(len(e_size) == 1)),
         ('exactly one member tuple', B(len(e_mem) == 1)),
         ('no other constructor text', B(len(ev) == len(e_opt) + len(e_bound) + len(e_size) + len(e_bytes) + len(e_arr) + len(e_mem)))]
    if len(e_bound) == 1:
        r.append(('the sizer named is member.bound', _t(vm, e_bound[0][1][0]) == z3.Select(vm.heap_array('bound'), m)))
    if len(e_size) == 1:
        r.append(('the size given is member.size', _t(vm, e_size[0][1][0]) == z3.Select(vm.heap_array('size'), m)))
    if len(e_mem) == 1:
        name_arg, expr_arg = e_mem[0][1]
        r.append(('tuple names the member', vm.as_str(name_arg) == z3.Select(vm.heap_array('name'), m)))
        r.append(('result is the member tuple', vm.as_str(result) == e_mem[0][2]))
        # the expression inside the tuple is the outermost constructor that applies
        outer = (e_bytes or e_arr or e_opt)
        if outer:
            r.append(('tuple holds the outermost constructor expression', vm.as_str(expr_arg) == outer[0][2]))
    # operands of the array constructors: element type first (array only), then bound, then size, separated by ', '
    parts = [e[2] for e in e_bound] + [e[2] for e in e_size]
    sep = vm.contract.str_const(', ')

    def joined(items):
        out = items[0]
        for x in items[1:]:
            out = strcat(strcat(out, sep), x)
        return out
    if len(e_bytes) == 1:
        operands = e_bytes[0][1][1]
        r.append(('bytes operands: bound, size', vm.as_str(operands) == (joined(parts) if parts else vm.contract.str_const(''))))
    # invariant of StructMember (asserted by its constructor: "Over-constraint"): not both optional and an array
    inv = z3.Not(z3.And(opt, is_array))
    return [(label, z3.Implies(inv, goal)) for label, goal in r]


Contract(PYGEN, '_form_struct_member', ['C01', 'C04', 'C18', 'C10'], fsm_setup, fsm_post, shapes=RT, modifies=[],
         hooks={'format_event': fsm_event},
         notes=['formatting as uninterpreted functions of the literal; primitive_types lookup by case split over its keys'])
