"""C01 / C19: contracts on the Python encoders against the slot layout of specs/wire.py"""
import z3

from vf.contract import Contract, LoopAnn
from vf.pyvc import SRef, SSeq, SInt, SBytes, SBool, Ref, OpaqueFn, ByteSeq, Sym, OutOfSubset
from vf.speclib import spec_int
from .rt_shapes import COMPOSITE, DESCRIPTOR, SHAPES, ALIGNS, new_fields, sel, field_alignment_spec, _in


def zeros(vm, n):
    return vm.contract.rep_fn(0)(z3.If(n < 0, z3.IntVal(0), n))


# ------------------------------------------------------------------ struct.encode

def struct_encode_setup(vm, module, env):
    vm.contract.divisor_domain = ALIGNS
    cls = env.get('struct')
    self = vm.fresh_ref('self', cls)
    fields = new_fields(vm)
    vm.path.objattrs[(str(self.t), '_descriptor')] = fields
    f, n = fields.fn, fields.length
    j = z3.Int('j')
    rng = lambda x: z3.And(0 <= x, x < n)
    ty = lambda t: sel(vm, 'type', t)
    # wf_class (postconditions of struct_generator.add_attributes / optional() / array() ...):
    vm.assume(z3.ForAll([j], z3.Implies(rng(j), z3.And(
        _in(sel(vm, '_ALIGNMENT', ty(f(j))), ALIGNS), _in(sel(vm, '_OPTIONAL_ALIGNMENT', ty(f(j))), (4, 8)),
        z3.Or(sel(vm, 'partial_alignment#none', f(j)), _in(sel(vm, 'partial_alignment', f(j)), ALIGNS)))),
        patterns=[f(j)]))
    vm.assume(_in(sel(vm, '_ALIGNMENT', self.t), ALIGNS))
    endianness = vm.contract.str_const('<endianness>')
    from vf.pyvc import SStr
    e = SStr(endianness)
    # ghost: ENCF(field) = wire.render(wire.layout(field type, field value), endianness) -- the callee's contract
    ENCF = z3.Function('ENCF', Ref, ByteSeq)
    # ghost: the spec prefix.  PRE(0) = b''; PRE(k+1) = PRE(k) ++ pad(A(field k)) ++ ENCF(k) ++ [block pad]
    PRE = z3.Function('PRE', z3.IntSort(), ByteSeq)
    vm.assume(PRE(0) == z3.Empty(ByteSeq))
    st = {'args': [self, e], 'self': self, 'fields': fields, 'PRE': PRE, 'ENCF': ENCF, 'e': e, 'closure_env': {}}
    vm.state = st
    return st


def hook_call(vm, fn, args, kwargs, node):
    if isinstance(fn, OpaqueFn) and fn.attr == 'encode_fcn':
        st = vm.state
        field = fn.owner
        # call-site obligations: parent, the field's own type, its own value, the caller's endianness
        vm.oblige('call.encode_fcn:parent is self', args[0].t == st['self'].t, 'call', vm.cur_line)
        vm.oblige('call.encode_fcn:type is field.type', args[1].t == sel(vm, 'type', field.t), 'call', vm.cur_line)
        vm.oblige('call.encode_fcn:value is the field value',
                  isinstance(args[2], FieldValue) and args[2].field.t == field.t, 'call', vm.cur_line)
        vm.oblige('call.encode_fcn:endianness passed unchanged', getattr(args[3], 't', None) is not None and args[3].t == st['e'].t,
                  'call', vm.cur_line)
        return SBytes(st['ENCF'](field.t))
    return NotImplemented


class FieldValue(Sym):
    """getattr(self, field.name, None): the current value of that field (opaque)"""

    def __init__(self, field):
        self.field = field


def hook_getattr_dyn(vm, obj, name, *default):
    # name is field.name of some field: identify the field by the term structure Select(H_name, fld)
    t = name.t
    if z3.is_app(t) and t.decl().kind() == z3.Z3_OP_SELECT:
        return FieldValue(SRef(t.arg(1), None, False))
    raise OutOfSubset('getattr with a name that is not field.name')


def struct_encode_unfold(vm, env, k):
    """definition of the spec prefix, instantiated at the loop index (no quantifier in the queries)"""
    st = vm.state
    f, PRE, ENCF = st['fields'].fn, st['PRE'], st['ENCF']
    ty = lambda t: sel(vm, 'type', t)
    l0 = z3.Length(PRE(k))
    p1 = spec_int(vm, 'pad_to', SInt(l0), SInt(field_alignment_spec(vm, ty(f(k)))))
    l1 = l0 + p1 + z3.Length(ENCF(f(k)))
    pa = sel(vm, 'partial_alignment', f(k))
    has_pa = z3.And(z3.Not(sel(vm, 'partial_alignment#none', f(k))), pa != 0)
    p2 = z3.If(has_pa, spec_int(vm, 'pad_to', SInt(l1), SInt(z3.If(has_pa, pa, 1))), 0)
    return [PRE(k + 1) == z3.Concat(PRE(k), zeros(vm, p1), ENCF(f(k)), zeros(vm, p2))]


def struct_encode_inv(vm, env, k):
    st = vm.state
    data = env.get('data')
    return [('data==spec prefix(k)', vm.as_bytes(data) == st['PRE'](k))]


def struct_encode_post(vm, st, result):
    n = st['fields'].length
    pre = st['PRE'](n)
    final = spec_int(vm, 'pad_to', SInt(z3.Length(pre)), SInt(sel(vm, '_ALIGNMENT', st['self'].t)))
    return [('result==enc(struct)', vm.as_bytes(result) == z3.Concat(pre, zeros(vm, final))),
            ('len(result) multiple of alignment', z3.Length(vm.as_bytes(result)) % sel(vm, '_ALIGNMENT', st['self'].t) == 0)]


Contract(COMPOSITE, 'struct.encode', ['C01', 'C19', 'C03'], struct_encode_setup, struct_encode_post, shapes=SHAPES,
         modifies=[], loops={0: LoopAnn(struct_encode_inv, index='k', unfold=struct_encode_unfold)},
         hooks={'call': hook_call, 'getattr_dyn': hook_getattr_dyn},
         notes=['field encoders by contract: field.encode_fcn(parent, type, value, e) == enc(field type, value, e)',
                'struct_packed (never emitted by prophyc) is outside the contract'])
