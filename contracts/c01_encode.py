"""C01 / C19: contracts on the Python encoders against the slot layout of specs/wire.py"""
import z3

from vf.contract import Contract, LoopAnn
from vf.pyvc import SRef, SSeq, SInt, SBytes, SBool, Ref, OpaqueFn, ByteSeq, Sym, OutOfSubset
from vf.speclib import spec_int
from .rt_shapes import COMPOSITE, DESCRIPTOR, SHAPES, ALIGNS, new_fields, sel, field_alignment_spec, _in


def zeros(vm, n):
    return vm.contract.rep_fn(0)(z3.If(n < 0, z3.IntVal(0), n))


# ------------------------------------------------------------------ struct.encode

def struct_encode_setup(vm, module, env):
    vm.contract.divisor_domain = ALIGNS
    cls = env.get('struct')
    self = vm.fresh_ref('self', cls)
    fields = new_fields(vm)
    vm.path.objattrs[(str(self.t), '_descriptor')] = fields
    f, n = fields.fn, fields.length
    j = z3.Int('j')
    rng = lambda x: z3.And(0 <= x, x < n)
    ty = lambda t: sel(vm, 'type', t)
    # wf_class (postconditions of struct_generator.add_attributes / optional() / array() ...):
    vm.assume(z3.ForAll([j], z3.Implies(rng(j), z3.And(
        _in(sel(vm, '_ALIGNMENT', ty(f(j))), ALIGNS), _in(sel(vm, '_OPTIONAL_ALIGNMENT', ty(f(j))), (4, 8)),
        z3.Or(sel(vm, 'partial_alignment#none', f(j)), _in(sel(vm, 'partial_alignment', f(j)), ALIGNS)))),
        patterns=[f(j)]))
    vm.assume(_in(sel(vm, '_ALIGNMENT', self.t), ALIGNS))
    endianness = vm.contract.str_const('<endianness>')
    from vf.pyvc import SStr
    e = SStr(endianness)
    # ghost: ENCF(field) = wire.render(wire.layout(field type, field value), endianness) -- the callee's contract
    ENCF = z3.Function('ENCF', Ref, ByteSeq)
    # ghost: the spec prefix.  PRE(0) = b''; PRE(k+1) = PRE(k) ++ pad(A(field k)) ++ ENCF(k) ++ [block pad]
    PRE = z3.Function('PRE', z3.IntSort(), ByteSeq)
    vm.assume(PRE(0) == z3.Empty(ByteSeq))
    st = {'args': [self, e], 'self': self, 'fields': fields, 'PRE': PRE, 'ENCF': ENCF, 'e': e, 'closure_env': {}}
    vm.state = st
    return st


def hook_call(vm, fn, args, kwargs, node):
    if isinstance(fn, OpaqueFn) and fn.attr == 'encode_fcn':
        st = vm.state
        field = fn.owner
        # call-site obligations: parent, the field's own type, its own value, the caller's endianness
        vm.oblige('call.encode_fcn:parent is self', args[0].t == st['self'].t, 'call', vm.cur_line)
        vm.oblige('call.encode_fcn:type is field.type', args[1].t == sel(vm, 'type', field.t), 'call', vm.cur_line)
        vm.oblige('call.encode_fcn:value is the field value',
                  isinstance(args[2], FieldValue) and args[2].field.t == field.t, 'call', vm.cur_line)
        vm.oblige('call.encode_fcn:endianness passed unchanged', getattr(args[3], 't', None) is not None and args[3].t == st['e'].t,
                  'call', vm.cur_line)
        return SBytes(st['ENCF'](field.t))
    return NotImplemented


class FieldValue(Sym):
    """getattr(self, field.name, None): the current value of that field (opaque)"""

    def __init__(self, field):
        self.field = field


def hook_getattr_dyn(vm, obj, name, *default):
    # name is field.name of some field: identify the field by the term structure Select(H_name, fld)
    t = name.t
    if z3.is_app(t) and t.decl().kind() == z3.Z3_OP_SELECT:
        return FieldValue(SRef(t.arg(1), None, False))
    raise OutOfSubset('getattr with a name that is not field.name')


def struct_encode_unfold(vm, env, k):
    """definition of the spec prefix, instantiated at the loop index (no quantifier in the queries)"""
    st = vm.state
    f, PRE, ENCF = st['fields'].fn, st['PRE'], st['ENCF']
    ty = lambda t: sel(vm, 'type', t)
    l0 = z3.Length(PRE(k))
    p1 = spec_int(vm, 'pad_to', SInt(l0), SInt(field_alignment_spec(vm, ty(f(k)))))
    l1 = l0 + p1 + z3.Length(ENCF(f(k)))
    pa = sel(vm, 'partial_alignment', f(k))
    has_pa = z3.And(z3.Not(sel(vm, 'partial_alignment#none', f(k))), pa != 0)
    p2 = z3.If(has_pa, spec_int(vm, 'pad_to', SInt(l1), SInt(z3.If(has_pa, pa, 1))), 0)
    return [PRE(k + 1) == z3.Concat(PRE(k), zeros(vm, p1), ENCF(f(k)), zeros(vm, p2))]


def struct_encode_inv(vm, env, k):
    st = vm.state
    data = env.get('data')
    return [('data==spec prefix(k)', vm.as_bytes(data) == st['PRE'](k))]


def struct_encode_post(vm, st, result):
    n = st['fields'].length
    pre = st['PRE'](n)
    final = spec_int(vm, 'pad_to', SInt(z3.Length(pre)), SInt(sel(vm, '_ALIGNMENT', st['self'].t)))
    return [('result==enc(struct)', vm.as_bytes(result) == z3.Concat(pre, zeros(vm, final))),
            ('len(result) multiple of alignment', z3.Length(vm.as_bytes(result)) % sel(vm, '_ALIGNMENT', st['self'].t) == 0)]


Contract(COMPOSITE, 'struct.encode', ['C01', 'C19', 'C03'], struct_encode_setup, struct_encode_post, shapes=SHAPES,
         modifies=[], loops={0: LoopAnn(struct_encode_inv, index='k', unfold=struct_encode_unfold)},
         hooks={'call': hook_call, 'getattr_dyn': hook_getattr_dyn},
         notes=['field encoders by contract: field.encode_fcn(parent, type, value, e) == enc(field type, value, e)',
                'struct_packed (never emitted by prophyc) is outside the contract'])


# ------------------------------------------------------------------ shared opaque pieces

class AnyValue(Sym):
    """a field value: None, or a present value whose truthiness is independent of its presence
    (0, 0.0, an enum member numbered 0 and an empty array are falsy but present)"""

    def __init__(self, vm, name='value'):
        self.isnone = vm.fresh(name + '#none', z3.BoolSort())
        self.falsy = vm.fresh(name + '#falsy', z3.BoolSort())
        self.id = vm.fresh(name + '#id', Ref)

    def sym_truthy(self, vm):
        return z3.And(z3.Not(self.isnone), z3.Not(self.falsy))

    def sym_is_none(self, vm):
        return self.isnone


class OpaqueType(Sym):
    """a type object of which only named callables are used"""

    def __init__(self, tag):
        self.tag = tag


def e_const(vm):
    return SStr(vm.contract.str_const('<endianness>'))


from vf.pyvc import SStr


# ------------------------------------------------------------------ descriptor.encode_optional

def encopt_setup(vm, module, env):
    type_ = vm.fresh_ref('type_', None)
    t = type_.t
    # wf of the optional type: postcondition of optional() (contracts/c04_runtime.py)
    vm.assume(z3.And(_in(sel(vm, '_OPTIONAL_ALIGNMENT', t), (4, 8)), sel(vm, '_SIZE', t) >= 0,
                     sel(vm, '_OPTIONAL_SIZE', t) == sel(vm, '_OPTIONAL_ALIGNMENT', t) + sel(vm, '_SIZE', t)))
    parent = vm.fresh_ref('parent', None)
    value = AnyValue(vm)
    e = e_const(vm)
    PACKU32 = z3.Function('PACKU32', z3.IntSort(), ByteSeq)     # u32._encode(x, e): 4 bytes (numeric encode contract)
    ENCB = z3.Function('ENCB', Ref, ByteSeq)                    # base encoder on the present value
    vm.assume(z3.Length(PACKU32(1)) == 4)
    vm.assume(z3.Length(ENCB(value.id)) == sel(vm, '_SIZE', t))  # base type is fixed: len(enc) == S(base) (C04 lemma)
    st = {'args': [parent, type_, value, e], 'type': type_, 'parent': parent, 'value': value, 'e': e, 'PACKU32': PACKU32,
          'ENCB': ENCB, 'closure_env': {}}
    vm.state = st
    return st


def encopt_getattr(vm, obj, attr):
    st = vm.state
    if isinstance(obj, SRef) and obj.t.eq(st['type'].t):
        if attr == '_optional_type':
            return OpaqueType('u32')
        if attr == '__bases__':
            return (OpaqueType('base'),)
        if attr == '_encode':
            return OpaqueFn(obj, '_encode')
    if isinstance(obj, OpaqueType) and attr == '_encode':
        return OpaqueFn(obj, '_encode')
    return NotImplemented


def encopt_call(vm, fn, args, kwargs, node):
    st = vm.state
    if isinstance(fn, OpaqueFn) and fn.attr == '_encode':
        if isinstance(fn.owner, OpaqueType) and fn.owner.tag == 'u32':
            flag, e = args
            vm.oblige('call.flag:endianness passed unchanged', e.t == st['e'].t, 'call', vm.cur_line)
            return SBytes(st['PACKU32'](vm.as_int(flag)))
        if isinstance(fn.owner, SRef):
            vm.oblige('call.base encoder:(parent, base type, the value, endianness)', z3.And(
                args[0].t == st['parent'].t, isinstance(args[1], OpaqueType) and args[1].tag == 'base',
                args[2] is st['value'], args[3].t == st['e'].t), 'call', vm.cur_line)
            return SBytes(st['ENCB'](st['value'].id))
    return NotImplemented


def encopt_post(vm, st, result):
    t, v = st['type'].t, st['value']
    r = vm.as_bytes(result)
    oa, osz = sel(vm, '_OPTIONAL_ALIGNMENT', t), sel(vm, '_OPTIONAL_SIZE', t)
    present = z3.Concat(st['PACKU32'](1), zeros(vm, oa - 4), st['ENCB'](v.id))
    return [('absent: zero-filled slot of the optional size', z3.Implies(v.isnone, r == zeros(vm, osz))),
            ('present: flag 1, padding to the optional alignment, value', z3.Implies(z3.Not(v.isnone), r == present)),
            ('slot has the full optional size', z3.Length(r) == osz)]


Contract(DESCRIPTOR, 'encode_optional', ['C01', 'C02', 'C04', 'C19'], encopt_setup, encopt_post, shapes=SHAPES, modifies=[],
         hooks={'getattr': encopt_getattr, 'call': encopt_call},
         notes=['flag encoder u32._encode and the base encoder by contract'])


# ------------------------------------------------------------------ union.encode

def uenc_setup(vm, module, env):
    cls = env.get('union')
    self = vm.fresh_ref('self', cls)
    s = self.t
    d = vm.fresh_ref('d', None)          # self._discriminated (a descriptor field)
    vm.assume(z3.Select(vm.heap_array('_discriminated'), s) == d.t)
    vm.assume(z3.And(_in(sel(vm, '_ALIGNMENT', s), (4, 8)), sel(vm, '_SIZE', s) >= sel(vm, '_ALIGNMENT', s)))
    e = e_const(vm)
    PACKU32 = z3.Function('PACKU32', z3.IntSort(), ByteSeq)
    ENCF = z3.Function('ENCF', Ref, ByteSeq)
    j = z3.Int('j')
    vm.assume(z3.ForAll([j], z3.Length(PACKU32(j)) == 4, patterns=[PACKU32(j)]))
    # wf_class (union_generator.add_attributes): every arm fits: A + len(enc(arm)) <= S
    vm.assume(sel(vm, '_ALIGNMENT', s) + z3.Length(ENCF(d.t)) <= sel(vm, '_SIZE', s))
    st = {'args': [self, e], 'self': self, 'd': d, 'e': e, 'PACKU32': PACKU32, 'ENCF': ENCF, 'closure_env': {}}
    vm.state = st
    return st


def uenc_getattr(vm, obj, attr):
    st = vm.state
    if isinstance(obj, SRef) and obj.t.eq(st['self'].t) and attr == '_discriminator_type':
        return OpaqueType('u32')
    if isinstance(obj, OpaqueType) and attr == '_encode':
        return OpaqueFn(obj, '_encode')
    return NotImplemented


def uenc_call(vm, fn, args, kwargs, node):
    st = vm.state
    if isinstance(fn, OpaqueFn) and fn.attr == '_encode' and isinstance(fn.owner, OpaqueType):
        disc, e = args
        vm.oblige('call.discriminator:endianness passed unchanged', e.t == st['e'].t, 'call', vm.cur_line)
        return SBytes(st['PACKU32'](vm.as_int(disc)))
    if isinstance(fn, OpaqueFn) and fn.attr == 'encode_fcn':
        vm.oblige('call.encode_fcn:(self, arm type, arm value, endianness)', z3.And(
            args[0].t == st['self'].t, args[1].t == sel(vm, 'type', st['d'].t),
            isinstance(args[2], FieldValue) and args[2].field.t == st['d'].t, args[3].t == st['e'].t), 'call', vm.cur_line)
        return SBytes(st['ENCF'](st['d'].t))
    return NotImplemented


def uenc_post(vm, st, result):
    s, d = st['self'].t, st['d'].t
    A, S = sel(vm, '_ALIGNMENT', s), sel(vm, '_SIZE', s)
    body = st['ENCF'](d)
    head = z3.Concat(st['PACKU32'](sel(vm, 'discriminator', d)), zeros(vm, A - 4), body)
    return [('discriminator, padding to A, arm, zero fill to S', vm.as_bytes(result) == z3.Concat(head, zeros(vm, S - A - z3.Length(body)))),
            ('slot has the full union size', z3.Length(vm.as_bytes(result)) == S)]


Contract(COMPOSITE, 'union.encode', ['C01', 'C19', 'C04'], uenc_setup, uenc_post, shapes=SHAPES, modifies=[],
         hooks={'getattr': uenc_getattr, 'call': uenc_call, 'getattr_dyn': hook_getattr_dyn})
