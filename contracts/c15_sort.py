"""C15 / C13: definition order -- prophyc.model.topological_sort and the dependencies() methods"""
import z3

from vf.contract import Contract, LoopAnn
from vf.pyvc import SRef, SSeq, SInt, SOpt, SBool, SStr, Ref, OpaqueFn, Sym, OutOfSubset, PyRaise, ClassInfo, StrSort
from vf import interp as I
from .absobj import AbsList, HOOKS, clamp_index
from .model_shapes import MODEL, SHAPES, model_class

RT = dict(SHAPES)

NAME = z3.Function('NAME', Ref, StrSort)                       # node.name
NDEP = z3.Function('NDEP', Ref, z3.IntSort())                  # number of dependencies node.dependencies() yields
DEP = z3.Function('DEP', Ref, z3.IntSort(), StrSort)           # the i-th of them
PHAS = z3.Function('PHAS', StrSort, z3.BoolSort())             # providers: symbol is defined by some node of the list
PVAL = z3.Function('PVAL', StrSort, StrSort)                   # providers[symbol] = name of the defining node
RANK = z3.Function('RANK', StrSort, z3.IntSort())              # ghost (acyclic group): dependency depth of a node name


class KnownSet(Sym):
    """the `known` set of names: membership as a z3 array"""

    def __init__(self, vm):
        self.arr = vm.fresh('known', z3.ArraySort(StrSort, z3.BoolSort()))

    def sym_getattr(self, vm, attr):
        if attr == 'add':
            return I.MethodOf(self, 'add')
        return NotImplemented


class Providers(Sym):
    def sym_getattr(self, vm, attr):
        if attr in ('get', 'setdefault'):
            return I.MethodOf(self, attr)
        return NotImplemented


class OptStr(Sym):
    def __init__(self, isnone, t):
        self.isnone, self.t = isnone, t

    def sym_is_none(self, vm):
        return self.isnone


def ts_setup(acyclic):
    def setup(vm, module, env):
        nodes = AbsList(vm, 'nodes')
        n = nodes.length
        st = {'args': [nodes], 'nodes': nodes, 'n0': n, 'acyclic': acyclic, 'closure_env': {}, 'known0': None}
        # the node objects of the list are pairwise distinct
        i, j = z3.Ints('i j')
        vm.assume(z3.ForAll([i, j], z3.Implies(z3.And(0 <= i, i < j, j < n), nodes.elem0(i).t != nodes.elem0(j).t),
                            patterns=[z3.MultiPattern(nodes.elem0(i).t, nodes.elem0(j).t)]))
        r = z3.Const('r', Ref)
        vm.assume(z3.ForAll([r], NDEP(r) >= 0, patterns=[NDEP(r)]))
        vm.state = st
        return st
    return setup


def ts_hooks():
    h = dict(HOOKS)

    def getattr_(vm, obj, attr):
        if isinstance(obj, SRef) and attr == 'name':
            return SStr(NAME(obj.t))
        if isinstance(obj, SRef) and attr == 'dependencies':
            return OpaqueFn(obj, 'dependencies')
        if isinstance(obj, SRef) and attr == 'members':
            return []                      # enumerators are taken into `providers` by the (assumed) construction, see notes
        return HOOKS['getattr'](vm, obj, attr)

    def call(vm, fn, args, kwargs, node):
        if isinstance(fn, OpaqueFn) and fn.attr == 'dependencies':
            o = fn.owner
            return SSeq(NDEP(o.t), lambda i: SStr(DEP(o.t, i)), 'deps')
        return NotImplemented

    def method(vm, obj, name, args, kwargs):
        st = vm.state
        if isinstance(obj, KnownSet) and name == 'add':
            obj.arr = z3.Store(obj.arr, vm.as_str(args[0]), z3.BoolVal(True))
            return None
        if isinstance(obj, Providers) and name == 'get':
            s = vm.as_str(args[0])
            return OptStr(z3.Not(PHAS(s)), PVAL(s))
        if isinstance(obj, Providers) and name == 'setdefault':
            return None
        if isinstance(obj, AbsList) and name == 'pop':
            return obj.m_pop(vm, args[0])
        return HOOKS['method'](vm, obj, name, args, kwargs)

    def contains(vm, container, item):
        if isinstance(container, KnownSet):
            return SBool(z3.Select(container.arr, vm.as_str(item)))
        return NotImplemented

    def isinstance_(vm, x, c):
        if isinstance(x, SRef):
            return False                   # Enum members: see `members` above
        return NotImplemented

    h.update({'getattr': getattr_, 'call': call, 'method': method, 'contains': contains, 'isinstance': isinstance_})
    return h


# the abstract list needs pop(i)
def _m_pop(self, vm, idx):
    n, old = self.length, self.elem
    i0 = vm.as_int(idx)
    ok = z3.And(i0 >= -n, i0 < n)
    if vm.decide(z3.Not(ok)):
        raise PyRaise(I.ExcClass('IndexError'), ('pop index out of range',))
    p = z3.If(i0 < 0, i0 + n, i0)
    x = old(p)
    self.length = n - 1
    self.elem = lambda i: vm.merge(i < p, old(i), old(i + 1))
    self.mutations.append(('pop',))
    return x


AbsList.m_pop = _m_pop
_orig_sym_getattr = AbsList.sym_getattr
AbsList.sym_getattr = lambda self, vm, attr: I.MethodOf(self, 'pop') if attr == 'pop' else _orig_sym_getattr(self, vm, attr)
