"""
contracts/cxx_gen.py -- CxxVC contracts on prophyc-generated C++ (<schema>.ppf.cpp / .ppf.hpp), per schema.

The generator (prophyc/generators/cpp_full.py) is Python that assembles text; what is verified here is its *output* for
every struct and union of an enumerated / sampled schema family (translation validation): the bodies of
    message_impl<T>::decode<E>, message_impl<T>::encode<E>, T::get_byte_size
as clang instantiates them from the generated file, for all values (symbolic vector sizes, optional flags,
discriminators, nested sizes), against

  decode (C07, C03): RLO <= pos' <= end; true only with pos' == pos + get_byte_size(x') (so an accepted input re-encodes
                     to exactly the bytes consumed), never past `end`; every primitive is called within its precondition
                     (bounds, alignment of native loads, vector capacity);
  encode (C05, C03): returns pos + get_byte_size(x) and every primitive writes inside [pos, pos + get_byte_size(x));
  get_byte_size (C05): a multiple of the wire alignment, >= the minimal encoding; == encoded_byte_size == the
                     documented size for fixed types.
  layout (C03):      at every member the encode cursor is at the offset specs/wire.py assigns to that member
                     (symbolic array lengths) -- see `offsets`.
Quantification: all values, for each schema of the family (the schemas are enumerated: stated as such in the evidence).
Header functions are used by contract (contracts/cxx_header.py), verified separately on the real headers.
"""
import z3

from vf.cxxvc import Contract, CInt, CObj, CPtr, BV64, OutOfReach, fresh
from specs import wire as W
from . import cxx_header as H

bv = H.bv


def type_table(types):
    """wire facts per generated type name (from specs/wire.py on the abstract schema)"""
    out = {}
    for t in types:
        fixed = W.stiff(t) == 0
        out[t.name] = {'fixed_size': W.S(t) if fixed else -1, 'align': W.A(t), 'min_size': W.min_size(t),
                       'schema': t}
    return out


def narrow_sizers(t):
    """[(array field name, max count)] for arrays counted by a sizer narrower than 64 bits"""
    out = []
    if not isinstance(t, W.Struct):
        return out
    for f in t.fields:
        if f.sizer_of and isinstance(f.ty, W.Int):
            for a in f.sizer_of:
                arr = [g for g in t.fields if g.name == a][0]
                if isinstance(arr.ty, (W.Array, W.Bytes)) and arr.ty.mode == W.DYNAMIC:
                    hi = (1 << (8 * f.ty.size - (1 if f.ty.signed else 0))) - 1
                    out.append((a, hi, f.ty.size))
    return out


def exec_gbs_factory(cx):
    """value of x.get_byte_size() by symbolic execution of the generated body of T::get_byte_size"""
    by_type = {}
    for fn in cx.ix.instantiated_functions('get_byte_size'):
        rec = cx.ix.owner_record(fn)
        if rec is not None:
            by_type[rec.get('name')] = fn

    def exec_gbs(st, obj):
        name = (obj.ct.name or '').split('::')[-1]
        fn = by_type.get(name)
        if fn is None:
            return cx.gbs_of(st, obj)
        this = CPtr(fresh('this', BV64), obj.ct)
        this.obj_path = obj.path
        saved = cx.current
        res = cx.inline(st.copy(), fn, [], {}, this=this)
        if len(res) != 1:
            raise OutOfReach('get_byte_size of %s forks' % name)
        s2, v = res[0]
        # the execution may have created ghost attributes / assumptions (sizes of nested objects): keep them
        st.pc[:] = s2.pc
        st.objs.update(s2.objs)
        st.elems.update(s2.elems)
        return v.t
    return exec_gbs, by_type


def gbs_contract():
    """T::get_byte_size() const"""
    def match(q, sig):
        return q.endswith('::get_byte_size') and 'prophy::generated::' in q

    def tinfo(cx, a):
        fn = a['__fn']
        rec = cx.ix.owner_record(fn)
        return cx.types[rec.get('name')], rec.get('name')

    def requires(cx, st, a):
        info, name = tinfo(cx, a)
        r = []
        for arr, hi, _ in narrow_sizers(info['schema']):
            pass
        return r

    def ensures(cx, s0, a0, s1, a1, ret):
        info, name = tinfo(cx, a0)
        r = [('aligned', (ret.t & bv(info['align'] - 1)) == 0), ('min', z3.UGE(ret.t, bv(info['min_size'])))]
        if info['fixed_size'] >= 0:
            r.append(('fixed', ret.t == bv(info['fixed_size'])))
            r.append(('encoded_byte_size', bv(cx.encoded_byte_size(name)) == bv(info['fixed_size'])))
        else:
            r.append(('encoded_byte_size', cx.encoded_byte_size(name) == -1))
        return r

    def setup(cx, st, a):
        # sizes of the vectors are far from overflow (environment assumption): created on first use by cx.vec_size
        pass

    return Contract('get_byte_size', match, requires, ensures, setup=setup, props=('C05', 'C07', 'C03'))


def _rup(x, a):
    return (x + bv(a - 1)) & bv(~(a - 1) & ((1 << 64) - 1))


def spec_offsets(cx, st, t, xpath):
    """offset of every field of struct t as docs/encoding.rst assigns it (specs/wire.py: field_offsets), as 64-bit terms
    over the symbolic state of the C++ object at `xpath` (vector sizes, sizes of nested dynamic structs)"""
    from vf.cxxvc import CT
    offs, off = [], bv(0)
    for i, f in enumerate(t.fields):
        off = _rup(off, W.A(f.ty))
        offs.append(off)
        off = off + _field_size(cx, st, f, xpath)
        if W.is_dynamic_field(f.ty):
            off = _rup(off, W.blk(t, i))
    return offs, _rup(off, W.A(t))


def _field_size(cx, st, f, xpath):
    from vf.cxxvc import CT
    ty = f.ty
    path = '%s.%s' % (xpath, f.name)
    if f.sizer_of:
        return bv(ty.size)
    if isinstance(ty, (W.Int, W.Float, W.Enum)):
        return bv(W.S(ty))
    if isinstance(ty, W.Optional):
        return bv(W.S(ty))
    if isinstance(ty, W.Union):
        return bv(W.S(ty))
    if isinstance(ty, W.Struct):
        if W.stiff(ty) == 0:
            return bv(W.S(ty))
        return cx.gbs_of(st, CObj(path, CT('obj', name='prophy::generated::' + ty.name)))
    if isinstance(ty, W.Bytes):
        if ty.mode in (W.FIXED, W.LIMITED):
            return bv(ty.n)
        return cx.vec_size(st, path)
    if isinstance(ty, W.Array):
        es = W.S(ty.elem) if W.stiff(ty.elem) == 0 else None
        if ty.mode in (W.FIXED, W.LIMITED):
            return bv(ty.n * es)
        n = cx.vec_size(st, path)
        if es is not None:
            return n * bv(es)
        return cx.sumsize(st, path, n)
    raise OutOfReach('field type %r' % (ty,))


def layout_obligations(cx, st, trace, t, pos0, xpath='x'):
    """the k-th member call of a generated struct codec happens with the cursor at pos0 + (documented offset of the
    k-th field); a complete run makes exactly one member call per field"""
    if not isinstance(t, W.Struct):
        return []
    offs, total = spec_offsets(cx, st, t, xpath)
    out = []
    for k, (name, cur) in enumerate(trace):
        if k >= len(offs):
            out.append(('layout.count', z3.BoolVal(False)))
            break
        out.append(('layout.field%d.%s' % (k, t.fields[k].name), cur == pos0 + offs[k]))
    return out


def all_contracts(restrict_sizers=True):
    cs = []
    for c in H.all_contracts():
        if c.name in ('message_impl::decode', 'message_impl::encode'):
            continue
        c.verify = False            # header functions are verified on the header driver, used here by contract
        cs.append(c)
    base_dec = H.gen_decode_contract()

    def dec_ensures(cx, s0, a0, s1, a1, ret):
        r = base_dec.ensures(cx, s0, a0, s1, a1, ret)
        if cx.current and cx.current[2] is a0['__fn']:
            info = cx.type_info(a0['x'].ct)
            r += layout_obligations(cx, s1, s1.trace, info['schema'], a0['pos'].addr)
        return r

    dec = Contract(base_dec.name, base_dec.match, base_dec.requires, dec_ensures, modifies=('x', 'pos'), setup=H.setup_read,
                   props=('C07', 'C03'), params=('x', 'pos', 'end'))
    enc = gen_encode_contract(restrict_sizers)
    return [dec, enc, gbs_contract()] + cs


def gen_encode_contract(restrict_sizers=True):
    base = H.gen_encode_contract()

    def requires(cx, st, a):
        r = base.requires(cx, st, a)
        info = cx.type_info(a['x'].ct)
        if restrict_sizers and a['x'].path == 'x':
            for arr, hi, size in narrow_sizers(info['schema']):
                r.append(('sizer.range.%s' % arr, z3.ULE(cx.vec_size(st, 'x.' + arr), bv(hi))))
        return r

    def ensures(cx, s0, a0, s1, a1, ret):
        r = base.ensures(cx, s0, a0, s1, a1, ret)
        if cx.current and cx.current[2] is a0['__fn'] and restrict_sizers:
            t = cx.type_info(a0['x'].ct)['schema']
            if isinstance(t, W.Struct):
                r += layout_obligations(cx, s1, s1.trace, t, a0['pos'].addr)
                r.append(('layout.complete', z3.BoolVal(len(s1.trace) == len(t.fields))))
                offs, total = spec_offsets(cx, s1, t, 'x')
                r.append(('layout.total', ret.addr == a0['pos'].addr + total))
        return r

    name = 'message_impl::encode' if restrict_sizers else 'message_impl::encode[any array length]'
    c = Contract(name, base.match, requires, ensures, modifies=('mem',), setup=H.setup_write, props=('C05', 'C03'),
                 params=('x', 'pos'))
    return c
