"""shape table of prophyc.model nodes (typing assumption, checked at run time by the stand-ins)"""
import z3

from vf.pyvc import SRef, SSeq, SInt, Ref
from vf.contract import Contract

MODEL = 'prophyc/model.py'

SHAPES = {
    'alignment': 'opt', 'byte_size': 'opt', 'padding': 'opt', 'numeric_size': 'opt',
    'kind': 'int', 'bound': 'truth', 'size': 'truth', 'greedy': 'bool', 'optional': 'bool',
    '_value': 'obj', 'definition': ('optref', None), 'type_name': 'str', 'name': 'str',
}


def model_class(vm, module, name):
    env = vm.module_env(module)
    return env.get(name)


def new_members(vm, module, cls_name, base='m'):
    """a sequence of symbolic length of pairwise distinct member objects of class cls_name"""
    cls = model_class(vm, module, cls_name)
    n = vm.fresh('n_' + base)
    f = z3.Function('%s_at!%d' % (base, next(vm._fresh)), z3.IntSort(), Ref)
    vm.assume(n >= 0)
    if not hasattr(vm, 'lengths'):
        vm.lengths = []
    vm.lengths.append(n)
    i, j = z3.Ints('i j')
    # distinct objects, all of exactly this class
    vm.assume(z3.ForAll([i, j], z3.Implies(z3.And(0 <= i, i < j, j < n), f(i) != f(j)), patterns=[z3.MultiPattern(f(i), f(j))]))
    vm.assume(z3.ForAll([i], vm.clsid(f(i)) == vm.class_id(cls), patterns=[f(i)]))
    seq = SSeq(n, lambda k: SRef(f(k), cls, True), base)
    seq.fn = f
    return seq


def int_attr(vm, attr, ref_term):
    return z3.Select(vm.heap_array(attr), ref_term)


def none_attr(vm, attr, ref_term):
    return z3.Select(vm.heap_array(attr + '#none'), ref_term)
