"""C10: the value check every enum field, optional, union arm and array element assignment goes through --
prophy.generators.enum_generator.add_attributes.check (installed as the classmethod `_check` of every generated enum).

For EVERY value handed in -- a name, a plain integer, an enumerator object (an int subclass instance, of this or of
any other enum type), anything else -- the check either returns `cls(n)` for a number n that is one of the enum's own
enumerator values (for a name: the value that name has), or raises ProphyError; and it raises exactly when the value is
not a name / number of this enum.  So no enum-typed slot can hold a number outside its enum, whatever object carried it.
name_to_int / int_to_name are ghost maps built from the same enumerator list (assumed: every value of name_to_int is
a key of int_to_name -- both are comprehensions over cls._enumerators in the enclosing function).
"""
import z3

from vf.contract import Contract
from vf.pyvc import SInt, SBool, SStr, SOpt, Sym, OutOfSubset, PyRaise, StrSort
from vf import interp as I

GEN = 'prophy/generators.py'

N2I_HAS = z3.Function('name_to_int.has', StrSort, z3.BoolSort())
N2I = z3.Function('name_to_int.value', StrSort, z3.IntSort())
I2N_HAS = z3.Function('int_to_name.has', z3.IntSort(), z3.BoolSort())


class Map(Sym):
    def __init__(self, which):
        self.which = which


class EnumCls(Sym):
    """the enum class the check belongs to"""


class Enumerator(Sym):
    """an enumerator object handed in: an int (its number) that is also an instance of prophy.enum"""

    def __init__(self, t):
        self.t = t


class Made(Sym):
    def __init__(self, arg):
        self.arg = arg


class Other(Sym):
    pass


def check_setup(kind):
    def setup(vm, module, env):
        cls = EnumCls()
        if kind == 'name':
            value = SStr(vm.fresh('value', StrSort))
        elif kind == 'int':
            value = SInt(vm.fresh('value'))
        elif kind == 'enumerator':
            value = Enumerator(vm.fresh('value'))
        else:
            value = Other()
        s = z3.Const('s', StrSort)
        vm.assume(z3.ForAll([s], z3.Implies(N2I_HAS(s), I2N_HAS(N2I(s))), patterns=[N2I(s)]))
        st = {'args': [cls, value], 'cls': cls, 'value': value, 'kind': kind,
              'closure_env': {'name_to_int': Map('n2i'), 'int_to_name': Map('i2n')}}
        vm.state = st
        return st
    return setup


def _num(vm, x):
    if isinstance(x, Enumerator):
        return x.t
    return vm.as_int(x)


def check_hooks():
    def isinstance_(vm, x, c):
        st = vm.state
        if x is not st['value']:
            return NotImplemented
        names = [getattr(k, 'name', None) or getattr(k, '__name__', None) or str(k) for k in (c if isinstance(c, tuple) else (c,))]
        kind = st['kind']
        if any(n in ('str', 'unicode', 'basestring') for n in names):
            return kind == 'name'
        if any(n in ('int', 'long') for n in names):
            return kind in ('int', 'enumerator')
        if any(str(n).split('.')[-1] in ('enum', 'enum8') for n in names):
            return kind == 'enumerator'
        raise OutOfSubset('isinstance against %r' % (names,))

    def getattr_(vm, obj, attr):
        if isinstance(obj, Map) and attr == 'get':
            return I.MethodOf(obj, 'get')
        if isinstance(obj, EnumCls) and attr == '__name__':
            return SStr(vm.fresh('cls_name', StrSort))
        return NotImplemented

    def method(vm, obj, name, args, kwargs):
        if isinstance(obj, Map) and obj.which == 'n2i' and name == 'get' and len(args) == 1:
            s = vm.as_str(args[0])
            return SOpt(z3.Not(N2I_HAS(s)), N2I(s))
        return NotImplemented

    def contains(vm, container, item):
        if isinstance(container, Map) and container.which == 'i2n':
            return SBool(I2N_HAS(_num(vm, item)))
        if isinstance(container, Map) and container.which == 'n2i':
            return SBool(N2I_HAS(vm.as_str(item)))
        return NotImplemented

    def call(vm, fn, args, kwargs, node):
        if isinstance(fn, EnumCls):
            if len(args) != 1 or kwargs:
                raise OutOfSubset('enum constructor shape')
            return Made(args[0])
        return NotImplemented

    return {'isinstance': isinstance_, 'getattr': getattr_, 'method': method, 'contains': contains, 'call': call}


def valid(vm, st):
    v, kind = st['value'], st['kind']
    if kind == 'name':
        return N2I_HAS(v.t)
    if kind in ('int', 'enumerator'):
        return I2N_HAS(_num(vm, v))
    return z3.BoolVal(False)


def check_post(vm, st, result):
    if not isinstance(result, Made):
        return [('returns an enumerator of this enum', z3.BoolVal(False))]
    a = result.arg
    if isinstance(a, SOpt):
        n, none = a.val, a.isnone
    else:
        n, none = _num(vm, a), z3.BoolVal(False)
    want = N2I(st['value'].t) if st['kind'] == 'name' else (_num(vm, st['value']) if st['kind'] in ('int', 'enumerator') else None)
    r = [('the number stored is one of this enum\'s enumerator values', z3.And(z3.Not(none), I2N_HAS(n))),
         ('accepted only when the value is a name / number of this enum', valid(vm, st))]
    if want is not None:
        r.append(('it is the number the value denotes', n == want))
    return r


def check_raises(vm, st, exc_class, exc_args):
    return [('only ProphyError', z3.BoolVal(exc_class.is_sub('ProphyError'))),
            ('rejected only when the value is not a name / number of this enum', z3.Not(valid(vm, st)))]


for _kind in ('name', 'int', 'enumerator', 'other'):
    Contract(GEN, 'enum_generator.add_attributes.check', ['C10', 'C06'], check_setup(_kind), check_post, raises=check_raises,
             modifies=[], hooks=check_hooks(), name='prophy.generators:enum_generator._check[value:%s]' % _kind,
             notes=['every value of name_to_int is a key of int_to_name (both built from cls._enumerators in add_attributes)'])
