"""C11: copy_from yields an equal, fully independent message (composite_base.copy_from, struct.set_field,
struct/union._copy_implementation, bound_composite_array.extend)"""
import z3

from vf.contract import Contract, LoopAnn
from vf.pyvc import SRef, SSeq, SInt, SOpt, SBytes, SBool, SStr, Ref, OpaqueFn, ByteSeq, Sym, OutOfSubset, PyRaise, ClassInfo
from vf import interp as I
from .rt_shapes import COMPOSITE, CONTAINER, SHAPES, sel, _in
from .absobj import AbsList, FieldsMap, HOOKS, clamp_index
from .c01_encode import OpaqueType
from .c02_decode import PROPHY_ERROR

RT = dict(SHAPES)
RT['_TYPE'] = 'obj'
RT['_values'] = 'obj'
RT['_ghost_copied_from'] = ('optref', None)      # ghost: x.copy_from(y) happened => copied_from(x) == y  (callee contract)


# ------------------------------------------------------------------ bound_composite_array.extend

def cext_setup(vm, module, env):
    cls = env.get('bound_composite_array')
    self = vm.fresh_ref('self', cls)
    values = AbsList(vm, 'values')
    vm.path.objattrs[(str(self.t), '_values')] = values
    vm.path.objattrs[(str(self.t), '_TYPE')] = OpaqueType('elem')
    ml = sel(vm, '_max_len', self.t)
    vm.assume(ml >= 0)
    vm.assume(z3.Implies(ml > 0, values.length <= ml))
    seq = AbsList(vm, 'elem_seq')
    FRESH = z3.Function('FRESH', z3.IntSort(), Ref)     # the element object created in iteration k
    st = {'args': [self, seq], 'self': self, 'values': values, 'seq': seq, 'ml': ml, 'n0': values.length, 'FRESH': FRESH,
          'closure_env': {}}
    vm.state = st
    return st


def cext_call(vm, fn, args, kwargs, node):
    st = vm.state
    if isinstance(fn, OpaqueType) and fn.tag == 'elem':                  # composite_cls(): a fresh default element
        k = vm.path.ghost.get('k')
        if k is None:
            raise OutOfSubset('element construction outside the loop')
        new = SRef(st['FRESH'](k), None, False)
        j = vm.fresh('j')
        # freshness: different from every existing element, every source message and every earlier fresh element
        vm.assume(z3.ForAll([j], z3.Implies(z3.And(0 <= j, j < st['n0']), st['values'].elem0(j).t != new.t)))
        vm.assume(z3.ForAll([j], z3.Implies(z3.And(0 <= j, j < st['seq'].length), st['seq'].elem(j).t != new.t)))
        vm.assume(z3.ForAll([j], z3.Implies(z3.And(0 <= j, j < k), st['FRESH'](j) != new.t)))
        vm.assume(z3.Select(vm.heap_array('_ghost_copied_from#none'), new.t))
        return new
    if isinstance(fn, OpaqueFn) and fn.attr == 'copy_from':
        # element.copy_from(message): callee contract (this module) -- may raise TypeError for a foreign type
        vm.store(fn.owner, '_ghost_copied_from', args[0])
        return None
    if isinstance(fn, OpaqueFn) and fn.attr == 'validate_copy_from':
        # the element type's own check of the source: accepts, or raises ProphyError; reads only
        if vm.choose(2) == 1:
            raise PyRaise(PROPHY_ERROR, ('wrong type',))
        return None
    return NotImplemented


def cext_getattr(vm, obj, attr):
    if isinstance(obj, SRef) and attr == 'copy_from' and not obj.t.eq(vm.state['self'].t):
        return OpaqueFn(obj, 'copy_from')
    if isinstance(obj, OpaqueType) and obj.tag == 'elem' and attr == 'validate_copy_from':
        return OpaqueFn(obj, 'validate_copy_from')
    if isinstance(obj, SRef) and attr == '_fields' and not obj.t.eq(vm.state['self'].t):
        # the field map of a source message: only its emptiness can matter to this function
        return SBool(z3.Function('has_fields_set', Ref, z3.BoolSort())(obj.t))
    return HOOKS['getattr'](vm, obj, attr)


def cext_inv(vm, env, k):
    st = vm.state
    v, n0, seq = st['values'], st['n0'], st['seq']
    j, i2 = z3.Ints('j i2')
    cf, cfn = vm.heap_array('_ghost_copied_from'), vm.heap_array('_ghost_copied_from#none')
    return [('k copies appended', v.length == n0 + k),
            ('each appended element is a fresh object holding a copy of the k-th message', z3.ForAll([j], z3.Implies(z3.And(0 <= j, j < k), z3.And(
                v.elem(n0 + j).t == st['FRESH'](j), z3.Not(z3.Select(cfn, st['FRESH'](j))), z3.Select(cf, st['FRESH'](j)) == seq.elem(j).t)),
                patterns=[st['FRESH'](j)])),
            ('old elements unchanged', z3.ForAll([j], z3.Implies(z3.And(0 <= j, j < n0), v.elem(j).t == v.elem0(j).t), patterns=[v.elem0(j).t])),
            ('appended elements are not source messages', z3.ForAll([j, i2], z3.Implies(z3.And(0 <= j, j < k, 0 <= i2, i2 < seq.length),
                                                                                      st['FRESH'](j) != seq.elem(i2).t),
                                                                   patterns=[z3.MultiPattern(st['FRESH'](j), seq.elem(i2).t)]))]


class LoopList(AbsList):
    pass


def cext_havoc_values(vm, name):
    raise OutOfSubset('unused')


def cext_post(vm, st, result):
    v, n0, seq = st['values'], st['n0'], st['seq']
    j = vm.fresh('j')
    cf, cfn = vm.heap_array('_ghost_copied_from'), vm.heap_array('_ghost_copied_from#none')
    inr = z3.And(0 <= j, j < seq.length)
    return [('grown by len(elem_seq)', v.length == n0 + seq.length),
            ('limit respected', z3.Implies(st['ml'] > 0, v.length <= st['ml'])),
            ('element j appended is a copy of message j', z3.Implies(inr, z3.And(z3.Not(z3.Select(cfn, v.elem(n0 + j).t)),
                                                                              z3.Select(cf, v.elem(n0 + j).t) == seq.elem(j).t))),
            ('no source message is stored by reference', z3.Implies(inr, v.elem(n0 + j).t != seq.elem(j).t))]


def cext_raises(vm, st, exc_class, exc_args):
    return [('class is ProphyError', exc_class.is_sub('ProphyError')), ('array unchanged on rejection', not st['values'].mutations)]


def cext_hooks():
    h = dict(HOOKS)
    h['call'] = cext_call
    h['getattr'] = cext_getattr
    return h


class ValuesLoop(LoopAnn):
    """the loop appends to self._values: the abstract list is havocked at the cut point like a local"""

    def havoc(self, vm, node, env):
        LoopAnn.havoc(self, vm, node, env)
        v = vm.state['values']
        n = vm.fresh('n_values_k')
        f = z3.Function('values_k!%d' % next(vm._fresh), z3.IntSort(), Ref)
        vm.assume(n >= 0)
        v.length, v.elem = n, (lambda i: SRef(f(i), None, False))


Contract(CONTAINER, 'bound_composite_array.extend', ['C11', 'C10'], cext_setup, cext_post, shapes=RT, raises=cext_raises,
         hooks=cext_hooks(), modifies=['_ghost_copied_from'],
         loops={0: ValuesLoop(cext_inv, index='k', modifies=['_ghost_copied_from'])},
         notes=['element.copy_from(message) by contract: afterwards the element holds an equal, independent copy of message'])


# ------------------------------------------------------------------ _composite_base.copy_from

COMPOSITE_BASE = 'prophy/composite_base.py'


class Msg(Sym):
    def __init__(self, tag):
        self.tag = tag


def cf_setup(vm, module, env):
    cls = env.get('_composite_base')
    self = vm.fresh_ref('self', cls)
    other = vm.fresh_ref('other', None)
    fields = FieldsMap(vm, SStr(vm.contract.str_const('<any key>')), lambda: Msg('old value'))
    vm.path.objattrs[(str(self.t), '_fields')] = fields
    st = {'args': [self, other], 'self': self, 'other': other, 'fields': fields, 'events': [], 'is_instance': vm.fresh('isinst', z3.BoolSort()),
          'closure_env': {}}
    vm.state = st
    return st


def cf_isinstance(vm, x, c):
    st = vm.state
    if isinstance(x, SRef) and x.t.eq(st['other'].t):
        return SBool(st['is_instance'])
    return NotImplemented


def cf_callee_impl(vm, args, kwargs):
    st = vm.state
    vm.oblige('call._copy_implementation:(self, other) after clearing', args[0].t == st['self'].t and args[1].t.eq(st['other'].t)
              and st['fields'].ops == [('clear',)], 'call', vm.cur_line)
    st['events'].append('impl')
    return None


def cf_post(vm, st, result):
    same = st['self'].t == st['other'].t
    return [('other is an instance of the same class', st['is_instance']),
            ('self-copy is a no-op; otherwise: clear, then copy every field', z3.If(same, z3.BoolVal(not st['fields'].ops and not st['events']),
                                                                                    z3.BoolVal(st['events'] == ['impl'])))]


def cf_raises(vm, st, exc_class, exc_args):
    return [('TypeError only for a foreign type', exc_class.is_sub('TypeError')), ('rejected only a non-instance', z3.Not(st['is_instance'])),
            ('message unchanged on rejection', not st['fields'].mutated())]


class TypeOfOther(Sym):
    """type(other)"""


def cf_type(vm, x):
    st = vm.state
    if isinstance(x, SRef) and x.t.eq(st['other'].t):
        return TypeOfOther()
    return NotImplemented


def cf_equal(vm, a, b):
    """type(other) == <the receiver's class>: message classes compare by *structure* (the generator metaclass defines __eq__
    over bases, field names and field types), so this is true for every instance and for look-alike classes as well: a
    predicate of its own, implied by -- but not implying -- `other is an instance`"""
    st = vm.state
    if isinstance(a, TypeOfOther) or isinstance(b, TypeOfOther):
        if 'same_structure' not in st:
            st['same_structure'] = vm.fresh('type_equal_by_structure', z3.BoolSort())
            vm.assume(z3.Implies(st['is_instance'], st['same_structure']))
        return SBool(st['same_structure'])
    return NotImplemented


def cf_hooks():
    h = dict(HOOKS)
    h['isinstance'] = cf_isinstance
    h['type'] = cf_type
    h['equal'] = cf_equal
    return h


Contract(COMPOSITE_BASE, '_composite_base.copy_from', ['C11'], cf_setup, cf_post, shapes=RT, raises=cf_raises, hooks=cf_hooks(),
         callees={'_composite_base._copy_implementation': cf_callee_impl}, modifies=[],
         notes=['validate_copy_from is a classmethod: isinstance(rhs, cls) with cls the receiver\'s class'])


# ------------------------------------------------------------------ struct.set_field

class Arr(Sym):
    """an array object (rhs or lhs of set_field): only its static flags and slicing/extend/copy are used"""

    def __init__(self, vm, tag):
        self.tag = tag
        self.dynamic = vm.fresh(tag + '_DYNAMIC', z3.BoolSort())
        self.bound = vm.fresh(tag + '_BOUND', z3.BoolSort())
        self.events = []

    def sym_getattr(self, vm, attr):
        from vf.pyvc import STruth
        if attr == '_DYNAMIC':
            return SBool(self.dynamic)
        if attr == '_BOUND':
            return STruth(self.bound)
        if attr == '_TYPE':
            return OpaqueType('elemtype')
        if attr in ('extend', 'copy_from'):
            return I.MethodOf(self, attr)
        return NotImplemented

    def sym_slice(self, vm, lo, hi):
        c = SliceCopy(self, lo, hi)
        return c


class SliceCopy(Sym):
    """x[:] -- a NEW list holding the same elements"""

    def __init__(self, src, lo, hi):
        self.src, self.lo, self.hi = src, lo, hi


def sf_setup(kind):
    def setup(vm, module, env):
        cls = env.get('struct')
        self = vm.fresh_ref('self', cls)
        name = SStr(vm.contract.str_const('<name>'))
        fields = FieldsMap(vm, name, lambda: Msg('old value'))
        vm.path.objattrs[(str(self.t), '_fields')] = fields
        st = {'self': self, 'name': name, 'fields': fields, 'kind': kind, 'events': [], 'closure_env': {}}
        if kind == 'array':
            st['rhs'] = Arr(vm, 'rhs')
            st['lhs'] = Arr(vm, 'lhs')
            st['elem_composite'] = vm.fresh('elem_is_composite', z3.BoolSort())
            # fixed composite arrays (element-wise copy) are the [rhs:fixed-array] contract
            vm.assume(z3.Or(z3.Not(st['elem_composite']), st['rhs'].dynamic, st['rhs'].bound))
        elif kind == 'composite':
            st['rhs'] = Msg('rhs composite')
            st['lhs_none'] = vm.fresh('lhs_is_none', z3.BoolSort())
            st['lhs'] = Msg('lhs composite')
        else:
            st['rhs'] = Msg('rhs immutable value')
            st['lhs'] = Msg('lhs value')
        st['args'] = [self, name, st['rhs']]
        vm.state = st
        return st
    return setup


class MaybeNone(Sym):
    def __init__(self, isnone, obj):
        self.isnone, self.obj = isnone, obj

    def sym_is_none(self, vm):
        return self.isnone


def sf_getattr_dyn(vm, obj, name, *default):
    st = vm.state
    vm.oblige('call.getattr:(self, name)', obj.t.eq(st['self'].t) and name.t.eq(st['name'].t), 'call', vm.cur_line)
    if st['kind'] == 'composite':
        if 'marked_present' in st['events']:
            return st['lhs']
        return MaybeNone(st['lhs_none'], st['lhs'])
    return st['lhs']


def sf_setattr_dyn(vm, obj, name, val):
    st = vm.state
    vm.oblige('call.setattr:(self, name, True)', obj.t.eq(st['self'].t) and name.t.eq(st['name'].t) and val is True, 'call', vm.cur_line)
    st['events'].append('marked_present')
    return None


def sf_isinstance(vm, x, c):
    st = vm.state
    names = [getattr(k, 'name', None) for k in (c if isinstance(c, tuple) else (c,))]
    if x is st['rhs'] and 'base_array' in names:
        return st['kind'] == 'array'
    if x is st['rhs'] and set(names) <= {'struct', 'union'} and names:
        # a composite value is a struct or a union (either, for the universally quantified rhs); nothing else is one
        if st['kind'] != 'composite':
            return False
        if set(names) == {'struct', 'union'}:
            return True
        if 'rhs_is_struct' not in st:
            st['rhs_is_struct'] = vm.fresh('rhs_is_struct', z3.BoolSort())
        b = st['rhs_is_struct']
        return vm.decide(b if names[0] == 'struct' else z3.Not(b))
    return NotImplemented


def sf_issubclass(vm, x, c):
    st = vm.state
    if isinstance(x, OpaqueType) and x.tag == 'elemtype':
        return SBool(st['elem_composite'])
    if isinstance(x, OpaqueType) and x.tag == 'type(rhs)':
        names = set(getattr(k, 'name', None) for k in (c if isinstance(c, tuple) else (c,)))
        if st['kind'] != 'composite':
            return False
        if names == {'struct', 'union'}:
            return True
        if names and names <= {'struct', 'union'}:
            # asked about one of the two only: a composite value may be either (universally quantified rhs)
            if 'rhs_is_struct' not in st:
                st['rhs_is_struct'] = vm.fresh('rhs_is_struct', z3.BoolSort())
            b = st['rhs_is_struct']
            return vm.decide(b if names == {'struct'} else z3.Not(b))
        return NotImplemented
    return NotImplemented


def sf_type(vm, x):
    if x is vm.state['rhs']:
        return OpaqueType('type(rhs)')
    return NotImplemented


def sf_method(vm, obj, name, args, kwargs):
    st = vm.state
    if isinstance(obj, Arr) and name == 'extend':
        obj.events.append(('extend', args[0]))
        return None
    if isinstance(obj, Msg) and name == 'copy_from':
        obj_events = st['events']
        obj_events.append(('copy_from', obj, args[0]))
        return None
    return HOOKS['method'](vm, obj, name, args, kwargs)


def sf_iterate(vm, it):
    """walking an array of this contract element by element (the path of *fixed* composite arrays, which has its own
    contract): explored for the instance in which the walked array is empty -- for a growable destination that is the
    state right after its fields were cleared; the walk is recorded, the postcondition decides"""
    if isinstance(it, Arr):
        it.events.append(('walked',))
        return []
    return NotImplemented


def sf_getattr(vm, obj, attr):
    if isinstance(obj, Msg) and attr == 'copy_from':
        return I.MethodOf(obj, 'copy_from')
    if isinstance(obj, MaybeNone):
        vm.oblige('noexc.AttributeError:None.%s' % attr, z3.Not(obj.isnone), 'noexc', vm.cur_line)
        vm.assume(z3.Not(obj.isnone))
        return sf_getattr(vm, obj.obj, attr)
    return HOOKS['getattr'](vm, obj, attr)


def sf_delitem(vm, obj, key):
    if isinstance(obj, Arr):
        obj.events.append(('del', key))
        return None
    return NotImplemented


def sf_setslice(vm, obj, lo, hi, val):
    if isinstance(obj, Arr):
        obj.events.append(('setslice', lo, hi, val))
        return None
    return NotImplemented


def sf_post(vm, st, result):
    k = st['kind']
    f = st['fields']
    if k == 'immutable':
        return [('an immutable value (int / bytes / enum / None) is stored as is', f.ops == [('set', st['rhs'])])]
    if k == 'composite':
        ev = st['events']
        copied = [e for e in ev if isinstance(e, tuple) and e[0] == 'copy_from']
        return [('the nested message is copied into self\'s own nested message, never stored by reference',
                 len(copied) == 1 and copied[0][1] is st['lhs'] and copied[0][2] is st['rhs'] and not f.mutated()),
                ('an absent optional is first made present', z3.BoolVal('marked_present' in ev) == st['lhs_none'])]
    lhs, rhs = st['lhs'], st['rhs']
    whole = lambda s: isinstance(s, SliceCopy) and s.src is rhs and s.lo is None and s.hi is None
    growable = z3.Or(rhs.dynamic, rhs.bound)
    cleared_and_extended = (len(lhs.events) == 2 and lhs.events[0] == ('del', ('slice', None, None)) and lhs.events[1][0] == 'extend'
                            and whole(lhs.events[1][1]))
    scalar_copied = len(lhs.events) == 1 and lhs.events[0][0] == 'setslice' and lhs.events[0][1] is None and lhs.events[0][2] is None \
        and whole(lhs.events[0][3])
    return [('the array object of other is never stored in self', not f.mutated()),
            ('scalar arrays: self\'s array takes a copy of the elements', z3.Implies(z3.Not(st['elem_composite']), z3.BoolVal(scalar_copied))),
            ('dynamic / limited / greedy composite arrays: cleared, then extended with element copies',
             z3.Implies(z3.And(st['elem_composite'], growable), z3.BoolVal(cleared_and_extended)))]


def sf_hooks():
    h = dict(HOOKS)
    h.update({'getattr_dyn': sf_getattr_dyn, 'setattr_dyn': sf_setattr_dyn, 'isinstance': sf_isinstance, 'issubclass': sf_issubclass,
              'type': sf_type, 'method': sf_method, 'getattr': sf_getattr, 'delitem': sf_delitem, 'setslice': sf_setslice,
              'iterate': sf_iterate})
    return h


class FixedLoop(LoopAnn):
    pass


for _kind in ('array', 'composite', 'immutable'):
    Contract(COMPOSITE, 'struct.set_field', ['C11'], sf_setup(_kind), sf_post, shapes=RT, hooks=sf_hooks(), modifies=[],
             name='prophy.composite:struct.set_field[rhs:%s]' % _kind,
             notes=['fixed composite arrays (element-wise copy_from over zip(lhs, rhs)): see the [rhs:fixed-array] contract'])


# ---- fixed composite arrays: element-wise copy_from over zip(lhs, rhs)

class FixedArr(AbsList):
    def sym_getattr(self, vm, attr):
        from vf.pyvc import STruth
        if attr == '_DYNAMIC':
            return False
        if attr == '_BOUND':
            return None
        if attr == '_TYPE':
            return OpaqueType('elemtype')
        return AbsList.sym_getattr(self, vm, attr)


def sff_setup(vm, module, env):
    cls = env.get('struct')
    self = vm.fresh_ref('self', cls)
    name = SStr(vm.contract.str_const('<name>'))
    fields = FieldsMap(vm, name, lambda: Msg('old value'))
    vm.path.objattrs[(str(self.t), '_fields')] = fields
    lhs, rhs = FixedArr(vm, 'lhs'), FixedArr(vm, 'rhs')
    vm.assume(lhs.length == rhs.length)            # same class => same fixed length (fixed arrays always hold max_len elements)
    i, j = z3.Ints('i j')
    vm.assume(z3.ForAll([i, j], z3.Implies(z3.And(0 <= i, i < lhs.length, 0 <= j, j < rhs.length), lhs.elem(i).t != rhs.elem(j).t),
                        patterns=[z3.MultiPattern(lhs.elem(i).t, rhs.elem(j).t)]))
    vm.assume(z3.ForAll([i, j], z3.Implies(z3.And(0 <= i, i < j, j < lhs.length), lhs.elem(i).t != lhs.elem(j).t),
                        patterns=[z3.MultiPattern(lhs.elem(i).t, lhs.elem(j).t)]))
    st = {'args': [self, name, rhs], 'self': self, 'name': name, 'fields': fields, 'lhs': lhs, 'rhs': rhs, 'kind': 'array',
          'elem_composite': z3.BoolVal(True), 'events': [], 'closure_env': {}}
    vm.state = st
    return st


def sff_call(vm, fn, args, kwargs, node):
    if isinstance(fn, OpaqueFn) and fn.attr == 'copy_from':
        vm.store(fn.owner, '_ghost_copied_from', args[0])
        return None
    return NotImplemented


def sff_getattr(vm, obj, attr):
    if isinstance(obj, SRef) and attr == 'copy_from' and not obj.t.eq(vm.state['self'].t):
        return OpaqueFn(obj, 'copy_from')
    return HOOKS['getattr'](vm, obj, attr)


def sff_inv(vm, env, k):
    st = vm.state
    j = z3.Int('j')
    cf, cfn = vm.heap_array('_ghost_copied_from'), vm.heap_array('_ghost_copied_from#none')
    return [('elements < k copied pairwise', z3.ForAll([j], z3.Implies(z3.And(0 <= j, j < k), z3.And(
        z3.Not(z3.Select(cfn, st['lhs'].elem(j).t)), z3.Select(cf, st['lhs'].elem(j).t) == st['rhs'].elem(j).t)),
        patterns=[st['lhs'].elem(j).t]))]


def sff_post(vm, st, result):
    j = vm.fresh('j')
    cf, cfn = vm.heap_array('_ghost_copied_from'), vm.heap_array('_ghost_copied_from#none')
    lhs, rhs = st['lhs'], st['rhs']
    return [('every element copied from its counterpart', z3.Implies(z3.And(0 <= j, j < lhs.length), z3.And(
        z3.Not(z3.Select(cfn, lhs.elem(j).t)), z3.Select(cf, lhs.elem(j).t) == rhs.elem(j).t))),
            ('self keeps its own element objects; nothing of other is stored', z3.BoolVal(not st['fields'].mutated() and not lhs.mutations))]


def sff_hooks():
    h = sf_hooks()
    h['call'] = sff_call
    h['getattr'] = sff_getattr
    h['isinstance'] = lambda vm, x, c: (True if x is vm.state['rhs'] else NotImplemented)
    h['issubclass'] = lambda vm, x, c: (True if isinstance(x, OpaqueType) and x.tag == 'elemtype' else NotImplemented)
    h['getattr_dyn'] = lambda vm, obj, name, *d: vm.state['lhs']
    return h


Contract(COMPOSITE, 'struct.set_field', ['C11'], sff_setup, sff_post, shapes=RT, hooks=sff_hooks(), modifies=['_ghost_copied_from'],
         name='prophy.composite:struct.set_field[rhs:fixed-array]',
         loops={0: LoopAnn(sff_inv, index='k', modifies=['_ghost_copied_from'])})


# ------------------------------------------------------------------ struct._copy_implementation / union._copy_implementation

def sci_setup(vm, module, env):
    cls = env.get('struct')
    self, other = vm.fresh_ref('self', cls), vm.fresh_ref('other', cls)
    items = {'<field a>': Msg('value a'), '<field b>': Msg('value b')}
    vm.path.objattrs[(str(other.t), '_fields')] = items
    st = {'args': [self, other], 'self': self, 'other': other, 'items': items, 'calls': [], 'closure_env': {}}
    vm.state = st
    return st


def sci_callee(vm, args, kwargs):
    st = vm.state
    vm.oblige('call.set_field:on self', args[0].t.eq(st['self'].t), 'call', vm.cur_line)
    st['calls'].append((args[1], args[2]))
    return None


Contract(COMPOSITE, 'struct._copy_implementation', ['C11'], sci_setup,
         lambda vm, st, r: [('every stored field of other is copied through set_field(name, value), in order',
                             st['calls'] == list(st['items'].items()))],
         shapes=RT, modifies=[], callees={'struct.set_field': sci_callee},
         notes=['checked for a message holding two fields (the loop over other._fields is unrolled; any finite dict behaves alike)'])


def uci_setup(vm, module, env):
    cls = env.get('union')
    self, other = vm.fresh_ref('self', cls), vm.fresh_ref('other', cls)
    d = vm.fresh_ref('arm', None)
    vm.assume(z3.Select(vm.heap_array('_discriminated'), other.t) == d.t)
    st = {'args': [self, other], 'self': self, 'other': other, 'd': d, 'iscomp': vm.fresh('arm_is_composite', z3.BoolSort()),
          'rhs': Msg('arm value of other'), 'lhs': Msg('own arm value'), 'events': [], 'closure_env': {}}
    vm.state = st
    return st


def uci_getattr_dyn(vm, obj, name, *default):
    st = vm.state
    arm_name = z3.Select(vm.heap_array('name'), z3.Select(vm.heap_array('_discriminated'), st['self'].t))
    vm.oblige('call.getattr:name of the (already switched) discriminated arm', name.t.eq(arm_name), 'call', vm.cur_line)
    if obj.t.eq(st['other'].t):
        return st['rhs']
    if obj.t.eq(st['self'].t):
        return st['lhs']
    return NotImplemented


def uci_setattr_dyn(vm, obj, name, val):
    st = vm.state
    vm.oblige('call.setattr:(self, arm name, value of other)', obj.t.eq(st['self'].t) and val is st['rhs'], 'call', vm.cur_line)
    st['events'].append('setattr')
    return None


def uci_issubclass(vm, x, c):
    return SBool(vm.state['iscomp'])


def uci_post(vm, st, result):
    ev = st['events']
    return [('the discriminated arm is taken over', z3.Select(vm.heap_array('_discriminated'), st['self'].t) == st['d'].t),
            ('composite arm: copied into self\'s own arm object, never stored by reference',
             z3.Implies(st['iscomp'], z3.BoolVal(ev == [('copy_from', st['lhs'], st['rhs'])]))),
            ('scalar arm: assigned through the property setter (checked, immutable)', z3.Implies(z3.Not(st['iscomp']), z3.BoolVal(ev == ['setattr'])))]


def uci_hooks():
    h = sf_hooks()
    h.update({'getattr_dyn': uci_getattr_dyn, 'setattr_dyn': uci_setattr_dyn, 'issubclass': uci_issubclass})
    return h


Contract(COMPOSITE, 'union._copy_implementation', ['C11'], uci_setup, uci_post, shapes=RT, hooks=uci_hooks(), modifies=['_discriminated'])
