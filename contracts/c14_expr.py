"""C14: constant expressions denote one integer -- the semantic actions of both evaluators against specs/expr.py"""
import z3

from vf.contract import Contract, LoopAnn
from vf.pyvc import SRef, SSeq, SInt, SOpt, SBytes, SBool, SStr, Ref, OpaqueFn, ByteSeq, Sym, OutOfSubset, PyRaise, ClassInfo, StrSort
from vf import interp as I
from vf.speclib import spec_call

PARSER = 'prophyc/parsers/prophy.py'
CALC = 'prophyc/calc.py'
MODEL = 'prophyc/model.py'
import os
SPEC_EXPR = os.path.join(os.path.dirname(os.path.dirname(os.path.abspath(__file__))), 'specs', 'expr.py')

OPS = ['+', '-', '*', '/', '<<', '>>']


class Prod(Sym):
    """a ply YaccProduction: p[i] values, p[0] result, p.slice[0].lineno/lexpos, p.lineno(i), p.lexpos(i)"""

    def __init__(self, values):
        self.values = dict(values)
        self.result = None
        self.slot0 = Slot()

    def sym_getattr(self, vm, attr):
        if attr == 'slice':
            return [self.slot0]
        if attr in ('lineno', 'lexpos'):
            return I.MethodOf(self, attr)
        return NotImplemented


class Slot(Sym):
    def __init__(self):
        self.attrs = {}


def prod_hooks(extra=None):
    def index(vm, obj, idx):
        if isinstance(obj, Prod):
            return obj.values[idx]
        return NotImplemented

    def setitem(vm, obj, idx, val):
        if isinstance(obj, Prod):
            vm.oblige('store:result goes to p[0]', idx == 0, 'call', vm.cur_line)
            obj.result = val
            return None
        return NotImplemented

    def method(vm, obj, name, args, kwargs):
        if isinstance(obj, Prod) and name in ('lineno', 'lexpos'):
            return SInt(vm.fresh(name))
        return NotImplemented

    def setattr_(vm, obj, attr, val):
        if isinstance(obj, Slot):
            obj.attrs[attr] = val
            return None
        return NotImplemented

    def getattr_(vm, obj, attr):
        if hasattr(obj, 'sym_getattr'):
            return obj.sym_getattr(vm, attr)
        return NotImplemented

    h = {'index': index, 'setitem': setitem, 'method': method, 'setattr': setattr_, 'getattr': getattr_}
    h.update(extra or {})
    return h


def spec_binop(vm, op, a, b):
    """specs.expr.binop executed symbolically (same text the stand-in executes natively)"""
    return vm.as_int(spec_call(vm, 'binop', op, SInt(a), SInt(b), module=SPEC_EXPR))


def binop_setup(ops, cls_name, with_self):
    def make(op):
        def setup(vm, module, env):
            a, b = vm.fresh('a'), vm.fresh('b')
            p = Prod({1: SInt(a), 2: op, 3: SInt(b)})
            self = vm.fresh_ref('self', env.get(cls_name))
            st = {'args': ([self, p] if with_self else [p]), 'p': p, 'a': a, 'b': b, 'op': op, 'errors': [], 'closure_env': {}}
            vm.state = st
            return st
        return setup
    return make


def parser_error_callee(vm, args, kwargs):
    vm.state['errors'].append(args[1])
    return None


def binop_post(vm, st, result):
    p, a, b, op = st['p'], st['a'], st['b'], st['op']
    r = p.result
    goals = []
    if st['errors']:
        zero_div = op == '/' and True
        is_int = isinstance(r, (SInt, int)) and not isinstance(r, bool)
        goals.append(('after a diagnostic p[0] is still an int (the parser goes on with it)', z3.BoolVal(is_int)))
        goals.append(('a diagnostic only for division by zero / a negative shift count, value 0',
                      z3.And(z3.BoolVal(op in ('/', '<<', '>>')), (b == 0) if op == '/' else (b < 0),
                             (vm.as_int(r) == 0) if is_int else z3.BoolVal(False))))
    else:
        goals.append(('p[0] is an int', isinstance(r, (SInt, int)) and not isinstance(r, bool)))
        if isinstance(r, (SInt, int)):
            goals.append(('p[0] == the integer value of  a %s b' % op, vm.as_int(r) == spec_binop(vm, op, a, b)))
    return goals


for _op in OPS:
    Contract(PARSER, 'Parser.p_expression_binop', ['C14', 'C13'], binop_setup(OPS, 'Parser', True)(_op), binop_post, modifies=[],
             hooks=prod_hooks(), callees={'Parser._parser_error': parser_error_callee},
             name='prophyc.parsers.prophy:Parser.p_expression_binop[%s]' % _op)


def calc_raises(vm, st, exc_class, exc_args):
    return [('only ZeroDivisionError / ValueError(negative shift), on the inputs the property excludes',
             z3.And(z3.BoolVal(exc_class.is_sub('ZeroDivisionError') or exc_class.is_sub('ValueError')),
                    (st['b'] == 0) if st['op'] == '/' else (st['b'] < 0)))]


for _op in OPS + ['|']:
    Contract(CALC, 'Calc.p_expression_binop', ['C14'], binop_setup(OPS, 'Calc', False)(_op), binop_post, modifies=[], raises=calc_raises,
             hooks=prod_hooks(), name='prophyc.calc:Calc.p_expression_binop[%s]' % _op)


# ------------------------------------------------------------------ the small actions: uminus / group / number / constant

def unary_setup(cls_name, with_self, pos):
    def setup(vm, module, env):
        x = vm.fresh('x')
        vals = {1: '(', 2: SInt(x), 3: ')'} if pos == 2 else {1: SInt(x)}
        if pos == 'uminus':
            vals = {1: '-', 2: SInt(x)}
        p = Prod(vals)
        self = vm.fresh_ref('self', env.get(cls_name))
        st = {'args': ([self, p] if with_self else [p]), 'p': p, 'x': x, 'closure_env': {}}
        vm.state = st
        return st
    return setup


def _same(vm, st, result):
    return [('p[0] == the operand', vm.as_int(st['p'].result) == st['x'])]


def _neg(vm, st, result):
    return [('p[0] == -operand', vm.as_int(st['p'].result) == -st['x'])]


for _mod, _cls, _ws in ((PARSER, 'Parser', True), (CALC, 'Calc', False)):
    Contract(_mod, '%s.p_expression_uminus' % _cls, ['C14'], unary_setup(_cls, _ws, 'uminus'), _neg, modifies=[], hooks=prod_hooks())
    Contract(_mod, '%s.p_expression_group' % _cls, ['C14'], unary_setup(_cls, _ws, 2), _same, modifies=[], hooks=prod_hooks())
    Contract(_mod, '%s.p_expression_number' % _cls, ['C14'], unary_setup(_cls, _ws, 1), _same, modifies=[], hooks=prod_hooks())
Contract(PARSER, 'Parser.p_constant', ['C14'], unary_setup('Parser', True, 1), _same, modifies=[], hooks=prod_hooks())


# ------------------------------------------------------------------ literal tokens: int(text, base) with the base of the token class

class Tok(Sym):
    def __init__(self, vm):
        self.text = SStr(vm.fresh('text', StrSort))
        self.value = self.text

    def sym_getattr(self, vm, attr):
        if attr == 'value':
            return self.value
        return NotImplemented


INTOF = z3.Function('INTOF', StrSort, z3.IntSort(), z3.IntSort())     # CPython int(text, base)


def tok_setup(cls_name, with_self):
    def setup(vm, module, env):
        t = Tok(vm)
        self = vm.fresh_ref('self', env.get(cls_name))
        st = {'args': ([self, t] if with_self else [t]), 't': t, 'closure_env': {}}
        vm.state = st
        return st
    return setup


def tok_hooks():
    def int_hook(vm, args):
        if isinstance(args[0], SStr):
            base = args[1] if len(args) > 1 else 10
            return SInt(INTOF(args[0].t, z3.IntVal(base)))
        return NotImplemented

    def setattr_(vm, obj, attr, val):
        if isinstance(obj, Tok) and attr == 'value':
            obj.value = val
            return None
        return NotImplemented

    def getattr_(vm, obj, attr):
        if hasattr(obj, 'sym_getattr'):
            return obj.sym_getattr(vm, attr)
        return NotImplemented

    return {'int': int_hook, 'setattr': setattr_, 'getattr': getattr_}


def tok_post(base):
    def post(vm, st, result):
        t = st['t']
        return [('token value == int(text, %d)' % base, vm.as_int(t.value) == INTOF(t.text.t, z3.IntVal(base))),
                ('the token is returned', result is t)]
    return post


Contract(PARSER, 'Parser.t_CONST16', ['C14'], tok_setup('Parser', True), tok_post(16), modifies=[], hooks=tok_hooks())
Contract(PARSER, 'Parser.t_CONST8', ['C14'], tok_setup('Parser', True), tok_post(8), modifies=[], hooks=tok_hooks())
Contract(PARSER, 'Parser.t_CONST10', ['C14'], tok_setup('Parser', True), tok_post(10), modifies=[], hooks=tok_hooks())
Contract(CALC, 'Calc.t_CONST16', ['C14'], tok_setup('Calc', False), tok_post(16), modifies=[], hooks=tok_hooks())
Contract(CALC, 'Calc.t_CONST10', ['C14'], tok_setup('Calc', False), tok_post(10), modifies=[], hooks=tok_hooks())


# ------------------------------------------------------------------ the two precedence tables agree (and are the language's)

def table_setup(vm, module, env):
    calc_env = vm.module_env(I.load_module(CALC))
    spec_env = vm.module_env(I.load_module(SPEC_EXPR))
    st = {'args': [None, None], 'parser': env.get('Parser').attrs.get('precedence'), 'calc': calc_env.get('Calc').attrs.get('precedence'),
          'spec': spec_env.get('PRECEDENCE'), 'literals_p': env.get('Parser').attrs.get('literals'),
          'literals_c': calc_env.get('Calc').attrs.get('literals'), 'closure_env': {}}
    vm.state = st
    return st


def table_post(vm, st, result):
    common = lambda lits: sorted(x for x in lits if x in '+-*/()')
    return [('parse-time and model-time evaluators carry the same precedence table', st['parser'] == st['calc'] and st['parser'] is not None),
            ('it is the language\'s table (specs/expr.py)', st['parser'] == st['spec']),
            ('both accept the same arithmetic literals', common(st['literals_p']) == common(st['literals_c']))]


Contract(PARSER, 'Parser.p_empty', ['C14'], table_setup, table_post, modifies=[], name='prophyc.parsers.prophy:Parser.precedence==Calc.precedence',
         hooks={'call': lambda vm, fn, args, kwargs, node: NotImplemented},
         notes=['ground obligation over the two class attributes read from the current source (the anchor function body is not used)'])


# ------------------------------------------------------------------ names

class ConstDecls(Sym):
    """self.constdecls: name -> Constant/EnumMember node (its .value is str(int))"""

    def sym_getattr(self, vm, attr):
        if attr == 'get':
            return I.MethodOf(self, 'get')
        return NotImplemented


class ConstNode(Sym):
    def __init__(self, vm):
        self.v = vm.fresh('const_value')

    def sym_truthy(self, vm):
        return True

    def sym_getattr(self, vm, attr):
        if attr == 'value':
            return StrOfInt(self.v)
        return NotImplemented


class StrOfInt(Sym):
    """str(v) for an int v (model.Constant.value as written by p_constant_def / p_enum_member)"""

    def __init__(self, v):
        self.v = v


def pname_setup(vm, module, env):
    name = SStr(vm.fresh('name', StrSort))
    p = Prod({1: name})
    self = vm.fresh_ref('self', env.get('Parser'))
    decls = ConstDecls()
    declared = vm.fresh('declared', z3.BoolSort())
    node = ConstNode(vm)
    st = {'args': [self, p], 'p': p, 'name': name, 'decls': decls, 'declared': declared, 'node': node, 'errors': [], 'closure_env': {}}
    vm.state = st
    return st


def pname_hooks():
    h = prod_hooks()
    base_getattr, base_method = h['getattr'], h['method']

    def getattr_(vm, obj, attr):
        st = vm.state
        if isinstance(obj, SRef) and obj.t.eq(st['args'][0].t) and attr == 'constdecls':
            return st['decls']
        return base_getattr(vm, obj, attr)

    def method(vm, obj, name, args, kwargs):
        st = vm.state
        if isinstance(obj, ConstDecls) and name == 'get':
            vm.oblige('call.constdecls.get:(the identifier)', args[0].t.eq(st['name'].t), 'call', vm.cur_line)
            if vm.decide(st['declared']):
                return st['node']
            return None
        return base_method(vm, obj, name, args, kwargs)

    def int_hook(vm, args):
        if isinstance(args[0], StrOfInt):
            return SInt(args[0].v)
        return NotImplemented

    h.update({'getattr': getattr_, 'method': method, 'int': int_hook})
    return h


def parser_check_callee(vm, args, kwargs):
    cond = vm.truthy(args[1])
    if isinstance(cond, bool):
        if not cond:
            vm.state['errors'].append(args[2])
    else:
        raise OutOfSubset('symbolic _parser_check condition')
    return None


def pname_post(vm, st, result):
    r = st['p'].result
    return [('declared name: p[0] is the constant\'s integer value', z3.Implies(st['declared'], vm.as_int(r) == st['node'].v)),
            ('undeclared name: diagnostic and 0', z3.Implies(z3.Not(st['declared']), z3.And(vm.as_int(r) == 0, z3.BoolVal(len(st['errors']) == 1)))),
            ('no diagnostic for a declared name', z3.Implies(st['declared'], z3.BoolVal(not st['errors'])))]


Contract(PARSER, 'Parser.p_expression_name', ['C14'], pname_setup, pname_post, modifies=[], hooks=pname_hooks(),
         callees={'Parser._parser_check': parser_check_callee},
         notes=['Constant.value is str(<int>) (written by p_constant_def / p_enum_member): int(str(v)) == v'])


# ---- Calc.p_expression_name: follow names through self.vars until an int

class VarVal(Sym):
    """a value in the constants dict: an int, or a name (typedef alias chains), identified by a Ref"""

    def __init__(self, t):
        self.t = t


ISINT = z3.Function('ISINT', Ref, z3.BoolSort())
IVAL = z3.Function('IVAL', Ref, z3.IntSort())
HAS = z3.Function('HAS', Ref, z3.BoolSort())
VARS = z3.Function('VARS', Ref, Ref)
RANK = z3.Function('RANK', Ref, z3.IntSort())
RESOLVE = z3.Function('RESOLVE', Ref, z3.IntSort())


def cname_setup(vm, module, env):
    k0 = vm.fresh('name', Ref)
    p = Prod({1: VarVal(k0)})
    self = vm.fresh_ref('self', env.get('Calc'))
    r = z3.Const('r', Ref)
    # the constants dict is acyclic (values are ints, or names resolving in finitely many steps): ghost rank
    vm.assume(z3.ForAll([r], z3.Implies(z3.And(z3.Not(ISINT(r)), HAS(r)), z3.And(RANK(VARS(r)) < RANK(r), RANK(r) >= 0)), patterns=[VARS(r)]))
    vm.assume(z3.ForAll([r], RANK(r) >= 0, patterns=[RANK(r)]))
    # spec: RESOLVE(x) = x if int, else RESOLVE(vars[x])
    vm.assume(z3.ForAll([r], z3.Implies(ISINT(r), RESOLVE(r) == IVAL(r)), patterns=[RESOLVE(r)]))
    vm.assume(z3.ForAll([r], z3.Implies(z3.And(z3.Not(ISINT(r)), HAS(r)), RESOLVE(r) == RESOLVE(VARS(r))), patterns=[VARS(r)]))
    vm.assume(z3.Not(ISINT(k0)))       # p[1] is a NAME token
    st = {'args': [self, p], 'p': p, 'k0': k0, 'self': self, 'closure_env': {}}
    vm.state = st
    return st


def cname_hooks():
    h = prod_hooks()
    base_index, base_getattr = h['index'], h['getattr']

    def index(vm, obj, idx):
        if isinstance(obj, VarsDict):
            if vm.decide(HAS(idx.t)):
                return VarVal(VARS(idx.t))
            raise PyRaise(I.ExcClass('KeyError'), ('missing',))
        if isinstance(obj, Prod) and idx == 0:
            return obj.result
        return base_index(vm, obj, idx)

    def getattr_(vm, obj, attr):
        st = vm.state
        if isinstance(obj, SRef) and obj.t.eq(st['self'].t) and attr == 'vars':
            return VarsDict()
        return base_getattr(vm, obj, attr)

    def isinstance_(vm, x, c):
        if isinstance(x, VarVal):
            return SBool(ISINT(x.t))
        return NotImplemented

    h.update({'index': index, 'getattr': getattr_, 'isinstance': isinstance_})
    return h


class VarsDict(Sym):
    pass


class ProdLoop(LoopAnn):
    """p[0] is loop state held in the production object"""

    def havoc(self, vm, node, env):
        LoopAnn.havoc(self, vm, node, env)
        vm.state['p'].result = VarVal(vm.fresh('p0', Ref))


def cname_inv(vm, env, k):
    st = vm.state
    cur = st['p'].result
    return [('p[0] resolves to the same integer as the name', RESOLVE(cur.t) == RESOLVE(st['k0']))]


def cname_variant(vm, env):
    return RANK(vm.state['p'].result.t)


def cname_post(vm, st, result):
    cur = st['p'].result
    return [('p[0] is an int', ISINT(cur.t)), ('p[0] == the integer the name resolves to', IVAL(cur.t) == RESOLVE(st['k0']))]


def cname_raises(vm, st, exc_class, exc_args):
    return [('only calc.ParseError (designed channel)', exc_class.is_sub('ParseError'))]


Contract(CALC, 'Calc.p_expression_name', ['C14', 'C13'], cname_setup, cname_post, modifies=[], raises=cname_raises, hooks=cname_hooks(),
         loops={0: ProdLoop(cname_inv, variant=cname_variant)},
         notes=['termination needs an acyclic constants dict (ghost rank); _collect_constants builds it from definitions '
                'processed in dependency order'])


# ------------------------------------------------------------------ Calc.eval: a function of (expression, constants) -- no state carried over

class Obj(Sym):
    def __init__(self, tag):
        self.tag = tag
        self.attrs = {}

    def sym_getattr(self, vm, attr):
        if attr in self.attrs:
            return self.attrs[attr]
        if self.tag == 'parser' and attr == 'parse':
            return I.MethodOf(self, 'parse')
        if self.tag == 'calc':
            # any other attribute of the evaluator: state left behind by earlier calls, about which nothing is known
            self.attrs[attr] = PriorState(attr)
            return self.attrs[attr]
        return NotImplemented


class PriorState(Sym):
    """an attribute of the evaluator that earlier calls may have left in any state: membership tests are undetermined,
    lookups yield an unknown value, stores are remembered"""

    def __init__(self, name):
        self.name, self.stored = name, []


def ceval_setup(vm, module, env):
    self = Obj('calc')
    self.attrs['lexer'] = Obj('lexer')
    self.attrs['parser'] = Obj('parser')
    self.attrs['vars'] = Obj('old vars')
    expr, vars_ = Obj('expr'), Obj('vars_')
    st = {'args': [self, expr, vars_], 'self': self, 'expr': expr, 'vars': vars_, 'calls': [], 'R': Obj('parse result'), 'closure_env': {}}
    vm.state = st
    return st


def ceval_hooks():
    def getattr_(vm, obj, attr):
        if hasattr(obj, 'sym_getattr'):
            return obj.sym_getattr(vm, attr)
        return NotImplemented

    def setattr_(vm, obj, attr, val):
        if isinstance(obj, Obj):
            obj.attrs[attr] = val
            return None
        return NotImplemented

    def method(vm, obj, name, args, kwargs):
        st = vm.state
        if isinstance(obj, Obj) and obj.tag == 'parser' and name == 'parse':
            st['calls'].append((args, kwargs, st['self'].attrs.get('vars')))
            return st['R']
        return NotImplemented

    def contains(vm, container, item):
        if isinstance(container, PriorState):
            return SBool(vm.fresh('%s.has' % container.name, z3.BoolSort()))
        return NotImplemented

    def index(vm, obj, idx):
        if isinstance(obj, PriorState):
            for k, v in reversed(obj.stored):
                if k is idx:
                    return v
            return Obj('value left in self.%s by an earlier call' % obj.name)
        return NotImplemented

    def setitem(vm, obj, idx, val):
        if isinstance(obj, PriorState):
            obj.stored.append((idx, val))
            return None
        return NotImplemented

    return {'getattr': getattr_, 'setattr': setattr_, 'method': method, 'contains': contains, 'index': index, 'setitem': setitem}


def ceval_post(vm, st, result):
    c = st['calls']
    ok = (len(c) == 1 and len(c[0][0]) == 1 and c[0][0][0] is st['expr'] and c[0][1] == {'lexer': st['self'].attrs['lexer']}
          and c[0][2] is st['vars'])
    return [('the expression is parsed afresh, with exactly the constants given, and that value is returned', ok and result is st['R'])]


Contract(CALC, 'Calc.eval', ['C14', 'C20'], ceval_setup, ceval_post, modifies=[], hooks=ceval_hooks())


# ------------------------------------------------------------------ model.to_int / Constant.eval_int

class TextVal(Sym):
    """a size / value string: either a plain integer numeral (int() succeeds) or an expression over names"""

    def __init__(self, vm):
        self.is_numeral = vm.fresh('is_numeral', z3.BoolSort())
        self.num = vm.fresh('numeral_value')
        self.t = vm.fresh('text', StrSort)


def toint_setup(vm, module, env):
    x = TextVal(vm)
    consts = Obj('constants')
    st = {'args': [x, consts], 'x': x, 'consts': consts, 'in_consts': vm.fresh('in_constants', z3.BoolSort()),
          'cval': SOpt(vm.fresh('cval#none', z3.BoolSort()), vm.fresh('cval')), 'CALC': vm.fresh('calc_value'), 'calc_calls': [],
          'closure_env': {}}
    vm.state = st
    return st


def toint_hooks():
    def int_hook(vm, args):
        x = args[0]
        if isinstance(x, TextVal):
            if vm.decide(x.is_numeral):
                return SInt(x.num)
            raise PyRaise(I.ExcClass('ValueError'), ('invalid literal',))
        return NotImplemented

    def getattr_(vm, obj, attr):
        st = vm.state
        if obj is st['consts'] and attr == 'get':
            return I.MethodOf(obj, 'get')
        if isinstance(obj, I.LazyModule) or getattr(obj, 'relpath', None):
            return NotImplemented
        return NotImplemented

    def method(vm, obj, name, args, kwargs):
        st = vm.state
        if obj is st['consts'] and name == 'get':
            vm.oblige('call.constants.get:(the text)', args[0] is st['x'], 'call', vm.cur_line)
            if vm.decide(st['in_consts']):
                return st['cval']
            return None
        return NotImplemented

    def call(vm, fn, args, kwargs, node):
        st = vm.state
        if isinstance(fn, I.Closure) and fn.qualname == 'eval' and fn.node.name == 'eval':
            vm.oblige('call.calc.eval:(the text, the constants)', args[0] is st['x'] and args[1] is st['consts'], 'call', vm.cur_line)
            st['calc_calls'].append(1)
            if vm.choose(2) == 1:
                raise PyRaise(I.ExcClass('ParseError', 'Exception'), ('calc error',))
            return SInt(st['CALC'])
        return NotImplemented

    return {'int': int_hook, 'getattr': getattr_, 'method': method, 'call': call}


def toint_post(vm, st, result):
    x = st['x']
    known = z3.And(st['in_consts'], z3.Not(st['cval'].isnone))
    r = vm.as_int(result)
    return [('a numeral is its own value', z3.Implies(x.is_numeral, r == x.num)),
            ('a known constant name is that constant\'s value', z3.Implies(z3.And(z3.Not(x.is_numeral), known), r == st['cval'].val)),
            ('anything else is evaluated by the model-time evaluator', z3.Implies(z3.And(z3.Not(x.is_numeral), z3.Not(known)), r == st['CALC']))]


def toint_raises(vm, st, exc_class, exc_args):
    return [('only calc.ParseError escapes (callers turn it into a warning)', exc_class.is_sub('ParseError'))]


Contract(MODEL, 'to_int', ['C14'], toint_setup, toint_post, modifies=[], raises=toint_raises, hooks=toint_hooks())
