"""C08: prophyc/generators/cpp.py -- what the raw header declares for one struct member, and the padding fields.

_Padder.generate_padding(p): for every p in 1..7 (the whole domain the assert admits) the emitted fields are
    uint8_t/uint16_t/uint32_t declarations whose sizes sum to p  (finite domain: executed for each p, complete).
translate_struct.gen_member(member, padder): the declaration text consists of exactly, in this order,
    [ "prophy::bool_t has_<name>;"  [ 4 bytes of padding   iff the value's own alignment is 8 ] ]   iff member.optional
    the field itself: "<type> <name>;" or "<type> <name>[<size or 1>];"
    [ member.padding bytes of padding ]                                                             iff padding > 0
Trusted denotation (ABI, C08's stated assumption): in a packed struct these declarations occupy 4, p, byte_size, p bytes.
Together with C04 (member.padding reproduces the documented offsets) this is the per-member part of C08; that g++ lays the
declarations out back to back is measured by the bounded stand-in.
"""
import z3

from vf.contract import Contract
from vf.pyvc import SRef, SInt, SBool, SStr, Ref, OpaqueFn, Sym, OutOfSubset, StrSort, Closure
from vf.pyvc import load_module
from .model_shapes import SHAPES, MODEL, model_class

CPP = 'prophyc/generators/cpp.py'

RT = dict(SHAPES)
RT['size'] = 'optstr'
RT['bound'] = 'optstr'

PAD = z3.Function('PADTEXT', z3.IntSort(), z3.IntSort(), StrSort)      # text of the k-th padding request, of p bytes
TYPENAME = z3.Function('TYPENAME', StrSort, StrSort)                    # C++ spelling of a prophy type name
VALIGN = z3.Function('VALIGN', Ref, z3.IntSort())                       # alignment of the member's own type


def strcat(a, b):
    return z3.Function('strcat', StrSort, StrSort, StrSort)(a, b)


class PadderObj(Sym):
    def sym_getattr(self, vm, attr):
        if attr == 'generate_padding':
            return OpaqueFn(self, 'generate_padding')
        return NotImplemented


def gm_setup(vm, module, env):
    member = vm.fresh_ref('member', model_class(vm, load_module(MODEL), 'StructMember'))
    padder = PadderObj()
    # C04 (evaluate_struct_size, discharged in this same check): a member's padding is an alignment marker (< 0) or < 8
    pv = z3.Select(vm.heap_array('padding'), member.t)
    vm.assume(z3.Or(z3.Select(vm.heap_array('padding#none'), member.t), pv < 8))
    tn = SStr(vm.fresh('type_name', StrSort))
    vm.path.objattrs[(str(member.t), '_value')] = tn          # type_name is a property over _value
    st = {'args': [member, padder], 'member': member, 'events': [], 'closure_env': {}, 'tn': tn}
    vm.state = st
    return st


def gm_call(vm, fn, args, kwargs, node):
    st = vm.state
    if isinstance(fn, OpaqueFn) and fn.attr == 'generate_padding':
        p = vm.as_int(args[0])
        vm.oblige('call.generate_padding: 0 < padding < 8', z3.And(0 < p, p < 8), 'call', vm.cur_line)
        k = len([e for e in st['events'] if e[0] == 'pad'])
        t = PAD(z3.IntVal(k), p)
        st['events'].append(('pad', p, t))
        return SStr(t)
    if isinstance(fn, Closure) and fn.qualname.endswith('_value_alignment'):
        vm.oblige('call._value_alignment(member)', args[0].t == st['member'].t, 'call', vm.cur_line)
        return SInt(VALIGN(st['member'].t))
    return NotImplemented


def gm_getattr(vm, obj, attr):
    if isinstance(obj, PadderObj) and attr == 'generate_padding':
        return OpaqueFn(obj, 'generate_padding')
    return NotImplemented


def gm_method(vm, obj, name, args, kwargs):
    if isinstance(obj, dict) and name == 'get' and isinstance(args[0], SStr):
        return SStr(TYPENAME(args[0].t))
    return NotImplemented


def gm_format(vm, fmt, args, kwargs):
    st = vm.state
    from vf.pyvc import SOptStr
    args = [SStr(a.t) if isinstance(a, SOptStr) else a for a in args]     # a present optional string renders as itself
    t = vm.format_term(fmt, tuple(args))
    if t is None:
        raise OutOfSubset('format operand without a rendering')
    if fmt.startswith('prophy::bool_t has_'):
        st['events'].append(('flag', None, t))
    elif fmt.startswith('{0} {1}'):
        st['events'].append(('field', fmt, t, list(args)))
    else:
        st['events'].append(('annotation', fmt, t))
    return SStr(t)


def gm_post(vm, st, result):
    """events are recorded in the order the pieces are *created* (field, then flag, then paddings); the text order is
    flag, [4 bytes], field, [member.padding bytes]"""
    m = st['member'].t
    ev = [e for e in st['events'] if e[0] != 'annotation']
    kinds = [e[0] for e in ev]
    opt = z3.Select(vm.heap_array('optional'), m)
    pnone = z3.Select(vm.heap_array('padding#none'), m)
    pval = z3.Select(vm.heap_array('padding'), m)
    has_pad = z3.And(z3.Not(pnone), pval > 0)
    wide = z3.And(opt, VALIGN(m) == 8)
    r = []
    flags = [e for e in ev if e[0] == 'flag']
    fields = [e for e in ev if e[0] == 'field']
    pads = [e for e in ev if e[0] == 'pad']
    r.append(('has_ flag iff optional', opt == z3.BoolVal(len(flags) == 1)))
    r.append(('exactly one field declaration, at most one flag, at most two paddings',
              z3.BoolVal(len(fields) == 1 and len(flags) <= 1 and len(pads) <= 2)))
    if len(fields) != 1 or len(flags) > 1 or len(pads) > 2:
        return r
    b2i = lambda c: z3.If(c, 1, 0)
    r.append(('number of paddings == (optional and value 8-aligned) + (padding > 0)', len(pads) == b2i(wide) + b2i(has_pad)))
    field, flag = fields[0], (flags[0] if flags else None)
    cat = lambda parts: __import__('functools').reduce(strcat, parts)
    if len(pads) == 2:
        r.append(('first padding is the 4 bytes between flag and value', pads[0][1] == 4))
        r.append(('second padding is member.padding', pads[1][1] == pval))
        want = cat([flag[2], pads[0][2], field[2], pads[1][2]]) if flag else None
        r.append(('text: flag, 4 bytes, field, padding', vm.as_str(result) == want if flag else z3.BoolVal(False)))
    elif len(pads) == 1:
        r.append(('the padding is 4 bytes between flag and value, or member.padding after the field',
                  z3.If(wide, pads[0][1] == 4, pads[0][1] == pval)))
        if flag:
            want = z3.If(wide, cat([flag[2], pads[0][2], field[2]]), cat([flag[2], field[2], pads[0][2]]))
        else:
            want = cat([field[2], pads[0][2]])
        r.append(('text: pieces in layout order', vm.as_str(result) == want))
    else:
        want = cat([flag[2], field[2]]) if flag else field[2]
        r.append(('text: pieces in layout order', vm.as_str(result) == want))
    args = field[3]
    r.append(('field names the member', vm.as_str(args[1]) == z3.Select(vm.heap_array('name'), m)))
    return r


Contract(CPP, '_HppDefinitionsTranslator.translate_struct.gen_member', ['C08'], gm_setup, gm_post, shapes=RT, modifies=[],
         hooks={'call': gm_call, 'method': gm_method, 'format': gm_format, 'getattr': gm_getattr},
         notes=['padder.generate_padding by contract; primitive_types.get and _value_alignment opaque'])


# ------------------------------------------------------------------ _Padder.generate_padding

def pad_setup(vm, module, env):
    cls = env.get('_Padder')
    self = vm.fresh_ref('self', cls)
    vm.path.objattrs[(str(self.t), 'index')] = 0
    p = vm.choose(7) + 1            # the whole admitted domain 1..7, one concrete value per path
    st = {'args': [self, p], 'self': self, 'p': p, 'closure_env': {}}
    vm.state = st
    return st


SIZES = {'uint8_t': 1, 'uint16_t': 2, 'uint32_t': 4}


def pad_post(vm, st, result):
    if not isinstance(result, str):
        return [('concrete text', z3.BoolVal(False))]
    lines = [l for l in result.split('\n') if l]
    total = 0
    ok = True
    for i, l in enumerate(lines):
        ty = l.split()[0]
        ok = ok and ty in SIZES and l.split()[1].rstrip(';') == '_padding%d' % i
        total += SIZES.get(ty, 0)
    return [('declared padding fields sum to the requested size', z3.BoolVal(ok and total == st['p'])),
            ('fields are numbered consecutively', z3.BoolVal(ok))]


Contract(CPP, '_Padder.generate_padding', ['C08'], pad_setup, pad_post, shapes={'index': 'obj'}, modifies=['index'],
         notes=['finite domain 1..7 enumerated: complete'])


# ------------------------------------------------------------------ _HppDefinitionsTranslator.translate_union

INDENT = z3.Function('INDENTTEXT', StrSort, z3.IntSort(), StrSort)     # _indent(text, n)
UMEM = z3.Function('UMEM', z3.IntSort(), Ref)                           # j-th member of the union


class UnionMembers(Sym):
    """union.members: iterated by the two generator expressions; a generic element stands for all of them"""


def tu_setup(vm, module, env):
    self = vm.fresh_ref('self', None)
    union = vm.fresh_ref('union', None)
    members = UnionMembers()
    vm.path.objattrs[(str(union.t), 'members')] = members
    st = {'args': [self, union], 'union': union, 'members': members, 'joins': [], 'templates': [], 'closure_env': {},
          'elems': []}
    vm.state = st
    # C08 quantifies over schemas with known sizes: the union's alignment has been evaluated
    vm.assume(z3.Not(z3.Select(vm.heap_array('alignment#none'), union.t)))
    return st


def tu_iterate(vm, it):
    st = vm.state
    if isinstance(it, UnionMembers):
        j = vm.fresh('j')
        e = SRef(UMEM(j), model_class(vm, load_module(MODEL), 'UnionMember'), True)
        tn = SStr(vm.fresh('arm_type_name', StrSort))
        vm.path.objattrs[(str(e.t), '_value')] = tn
        st['elems'].append(e)
        return [e]
    return NotImplemented


def tu_call(vm, fn, args, kwargs, node):
    if isinstance(fn, Closure) and fn.qualname.endswith('_value_alignment'):
        # the alignment of a member's own type: by its contract an opaque function of the member (see gen_member)
        return SInt(VALIGN(args[0].t))
    if isinstance(fn, Closure) and fn.qualname.endswith('_indent'):
        return SStr(INDENT(vm.as_str(args[0]), vm.as_int(args[1])))
    if isinstance(fn, OpaqueFn) and fn.attr == 'generate_padding':
        # _Padder.generate_padding by contract (this module): text declaring p bytes of padding
        p = vm.as_int(args[0])
        vm.oblige('call.generate_padding: 0 < padding < 8', z3.And(0 < p, p < 8), 'call', vm.cur_line)
        return SStr(PAD(z3.IntVal(0), p))
    return NotImplemented


def tu_instantiate(vm, cls, args, kwargs):
    if getattr(cls, 'name', None) == '_Padder':
        return PadderObj()
    return NotImplemented


def tu_str_join(vm, sep, gen):
    st = vm.state
    items = vm.iterate(gen)
    e = st['elems'][-1] if st['elems'] else None
    ok = len(items) == 1 and e is not None
    name = z3.Select(vm.heap_array('name'), e.t) if ok else None
    if sep == ',\n':
        want = vm.format_term('discriminator_{0} = {1}', (SStr(name), _disc_value(vm, e))) if ok else None
        vm.oblige('enumerators: one `discriminator_<arm> = <value>` per arm', vm.as_str(items[0]) == want if ok and want is not None
                  else z3.BoolVal(False), 'call', vm.cur_line)
        st['joins'].append('enum')
        return SStr(vm.fresh('enum_fields', StrSort))
    if sep == '':
        vm.oblige('anonymous union: one `<type> <arm>;` per arm',
                  z3.BoolVal(ok and isinstance(items[0], SStr)), 'call', vm.cur_line)
        st['joins'].append('union')
        return SStr(vm.fresh('union_fields', StrSort))
    return NotImplemented


def _disc_value(vm, e):
    return vm.load(e, 'discriminator') if hasattr(vm, 'load') else None


def tu_format(vm, fmt, args, kwargs):
    st = vm.state
    if kwargs:
        st['templates'].append((fmt, dict(kwargs)))
        vals = tuple(kwargs[k] for k in sorted(kwargs))
        vals = tuple(SStr(v.t) if type(v).__name__ == 'SOptStr' else v for v in vals)
        t = vm.format_term(fmt + '|' + ','.join(sorted(kwargs)), vals)
        if t is None:
            return SStr(vm.fresh('template', StrSort))
        return SStr(t)
    return NotImplemented


def tu_post(vm, st, result):
    u = st['union'].t
    al = z3.Select(vm.heap_array('alignment'), u)
    part = [t for t in st['templates'] if 'padding' in t[1]]
    whole = [t for t in st['templates'] if 'parts' in t[1]]
    r = [('the discriminator enum and the anonymous union are generated from union.members', z3.BoolVal(sorted(st['joins']) == ['enum', 'union'])),
         ('one part template, one union template', z3.BoolVal(len(part) == 1 and len(whole) == 1))]
    if len(part) == 1:
        pad = part[0][1]['padding']
        four = strcat(PAD(z3.IntVal(0), z3.IntVal(4)), vm.contract.str_const('\n'))
        r.append(('4 bytes of padding after the discriminator iff the union is 8-aligned',
                  z3.If(al == 8, vm.as_str(pad) == four, vm.as_str(pad) == vm.contract.str_const(''))))
    if len(whole) == 1:
        a = whole[0][1]['align']
        r.append(('PROPHY_STRUCT(alignment of the union)', vm.as_int(a) == al if not isinstance(a, str) else z3.BoolVal(False)))
    return r


RTU = dict(SHAPES)
RTU['members'] = 'obj'
RTU['discriminator'] = 'str'

Contract(CPP, '_HppDefinitionsTranslator.translate_union', ['C08'], tu_setup, tu_post, shapes=RTU, modifies=[],
         hooks={'iterate': tu_iterate, 'call': tu_call, 'str_join': tu_str_join, 'format': tu_format, 'instantiate': tu_instantiate,
                'getattr': gm_getattr},
         notes=['_indent opaque; the texts of the enumerators / arms are formatting terms of a generic arm'])


# ------------------------------------------------------------------ translate_struct.gen_part

class PartList(Sym):
    """a part: non-empty list of members; only part[0] is inspected here"""

    def __init__(self, first):
        self.first = first


def gp_setup(vm, module, env):
    first = vm.fresh_ref('first_member', None)
    part = PartList(first)
    index = SInt(vm.fresh('index'))
    vm.assume(index.t >= 0)
    padder = PadderObj()
    st = {'args': [index, part, padder], 'index': index, 'part': part, 'padder': padder, 'first': first, 'templates': [],
          'blocks': [], 'closure_env': {'gen_block': OpaqueFn(part, 'gen_block')}}
    vm.state = st
    return st


def gp_index(vm, obj, idx):
    if isinstance(obj, PartList):
        vm.oblige('part[0]', vm.as_int(idx) == 0 if isinstance(idx, Sym) else z3.BoolVal(idx == 0), 'call', vm.cur_line)
        return obj.first
    return NotImplemented


def gp_call(vm, fn, args, kwargs, node):
    st = vm.state
    if isinstance(fn, OpaqueFn) and fn.attr == 'gen_block':
        vm.oblige('call.gen_block(part, padder): the same part, the struct\'s single padder',
                  z3.BoolVal(args[0] is st['part'] and args[1] is st['padder']), 'call', vm.cur_line)
        t = SStr(vm.fresh('block', StrSort))
        st['blocks'].append(t)
        return t
    if isinstance(fn, Closure) and fn.qualname.endswith('_indent'):
        return SStr(INDENT(vm.as_str(args[0]), vm.as_int(args[1])))
    return NotImplemented


def gp_format(vm, fmt, args, kwargs):
    if kwargs:
        vm.state['templates'].append((fmt, dict(kwargs)))
        return SStr(vm.fresh('template', StrSort))
    return NotImplemented


def gp_post(vm, st, result):
    t = st['templates']
    r = [('one part template', z3.BoolVal(len(t) == 1 and len(st['blocks']) == 1))]
    if len(t) == 1 and len(st['blocks']) == 1:
        kw = t[0][1]
        al = kw.get('align')
        first_al = vm.load(st['first'], 'alignment')
        r.append(('the part is named part<index + 2> (parts are numbered from 2)', vm.as_int(kw.get('index')) == st['index'].t + 2))
        r.append(('its block is the declarations of its members', z3.BoolVal(kw.get('block') is st['blocks'][0])))
        r.append(('PROPHY_STRUCT(alignment of the part\'s first member, which model.evaluate_partial_padding_size raised to the '
                  'part\'s maximum)', z3.BoolVal(al is first_al) if not hasattr(al, 'val') else z3.And(al.isnone == first_al.isnone, al.val == first_al.val)))
    return r


Contract(CPP, '_HppDefinitionsTranslator.translate_struct.gen_part', ['C08'], gp_setup, gp_post, shapes=RT, modifies=[],
         hooks={'index': gp_index, 'call': gp_call, 'format': gp_format},
         notes=['gen_block by contract (gen_member per member); _indent opaque'])
