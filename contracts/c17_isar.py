"""C17: prophyc/parsers/isar.py -- which members an isar <member> (with its <dimension>) denotes.

make_struct_members(xml_elem, dynamic_array): for every attribute assignment of the element (attribute values are
opaque strings; the few string tests the code makes -- "@" in s[0], the THIS_IS_VARIABLE_SIZE_ARRAY marker, lower(),
upper() -- are uninterpreted predicates / functions of them, the same terms in code and in the table below) the result is
exactly the member list of the dimension-form table (the isar convention; docs/other_schemas.rst documents the
isVariableSize form, the stand-in `frontends` checks the forms end to end against the prophy-language description):

    no <dimension>                         [ name : type, optional flag as given ]
    otherwise, with SIZE = size, or "size*size2" when size2 is given (every form: 2-d arrays are flattened):
      [ has_<name> : u32 ]                 iff optional="true"
      variableSizeFieldName="@n"           name : type [bound n]                              (ext-sized)
      SIZE contains the VARIABLE marker    name : type [bound numOf<Name>]                    (dynamic, existing sizer)
      isVariableSize present               sizer (variableSizeFieldName | <name>_len) : (variableSizeFieldType | u32),
                                           name : type [bound sizer, limit SIZE]  (limit dropped for dynamic_array)
      otherwise                            name : type [size SIZE]                            (fixed)
A missing name / type attribute raises model.ParseError and nothing else does.
ElementTree's Element.get / find / attrib are the (assumed) accessors.
"""
import z3

from vf.contract import Contract, LoopAnn
from vf.pyvc import SRef, SSeq, SInt, SBool, SStr, SOptStr, Ref, OpaqueFn, Sym, OutOfSubset, StrSort, Closure, ClassInfo, NONEMPTY, PyRaise
from vf import interp as I

ISAR = 'prophyc/parsers/isar.py'

LOWER = z3.Function('str.lower', StrSort, StrSort)
UPPER = z3.Function('str.upper', StrSort, StrSort)
CHAR0 = z3.Function('str.first', StrSort, StrSort)             # s[0]
TAIL = z3.Function('str.tail', StrSort, StrSort)               # s[1:]
HAS_AT = z3.Function('contains.at', StrSort, z3.BoolSort())    # "@" in s
HAS_MARK = z3.Function('contains.THIS_IS_VARIABLE_SIZE_ARRAY', StrSort, z3.BoolSort())


def strcat(a, b):
    return z3.Function('strcat', StrSort, StrSort, StrSort)(a, b)


class Elem(Sym):
    """an ElementTree element: attributes are optional opaque strings, fixed for the run"""

    def __init__(self, vm, tag, attrs, child=None):
        self.tag = tag
        self.attrs = {a: SOptStr(vm.fresh('%s.%s#none' % (tag, a), z3.BoolSort()), vm.fresh('%s.%s' % (tag, a), StrSort)) for a in attrs}
        self.child = child              # (name, present: z3 bool, Elem)

    def sym_getattr(self, vm, attr):
        if attr in ('get', 'find'):
            return I.MethodOf(self, attr)
        if attr == 'attrib':
            return Attrib(self)
        if attr == 'tag':
            return self.tag
        return NotImplemented


class Attrib(Sym):
    def __init__(self, elem):
        self.elem = elem


class Member(Sym):
    """a model.StructMember under construction: the constructor arguments"""

    def __init__(self, name, type_, bound, size, optional):
        self.name, self.type_, self.bound, self.size, self.optional = name, type_, bound, size, optional


def none_str():
    return SOptStr(z3.BoolVal(True), z3.Const('str.none', StrSort))


def as_opt(vm, x):
    if x is None:
        return none_str()
    if isinstance(x, SOptStr):
        return x
    return SOptStr(z3.BoolVal(False), vm.as_str(x))


def msm_setup(vm, module, env):
    dim = Elem(vm, 'dimension', ['size', 'size2', 'variableSizeFieldName', 'variableSizeFieldType', 'isVariableSize'])
    has_dim = vm.fresh('has_dimension', z3.BoolSort())
    elem = Elem(vm, 'member', ['name', 'type', 'optional', 'comment'], child=('dimension', has_dim, dim))
    dyn = SBool(vm.fresh('dynamic_array', z3.BoolSort()))
    st = {'args': [elem, dyn], 'elem': elem, 'dim': dim, 'has_dim': has_dim, 'dyn': dyn, 'events': [], 'closure_env': {}}
    vm.state = st
    return st


def msm_method(vm, obj, name, args, kwargs):
    if isinstance(obj, Elem) and name == 'get':
        key = args[0]
        if not isinstance(key, str) or key not in obj.attrs:
            raise OutOfSubset('attribute %r of <%s> is not in the contract' % (key, obj.tag))
        v = obj.attrs[key]
        if len(args) > 1 and args[1] is not None:
            d = args[1]
            return SStr(z3.If(v.isnone, vm.as_str(d), v.t))
        return v
    if isinstance(obj, Elem) and name == 'find':
        if obj.child is None or args[0] != obj.child[0]:
            raise OutOfSubset('find(%r)' % (args[0],))
        return obj.child[2] if vm.decide(obj.child[1]) else None
    if isinstance(obj, (SStr, SOptStr)) and name in ('lower', 'upper'):
        return SStr((LOWER if name == 'lower' else UPPER)(obj.t))
    return NotImplemented


def msm_getattr(vm, obj, attr):
    if isinstance(obj, (SStr, SOptStr)) and attr in ('lower', 'upper'):
        return I.MethodOf(obj, attr)
    if isinstance(obj, Elem):
        r = obj.sym_getattr(vm, attr)
        if r is not NotImplemented:
            return r
    return NotImplemented


def msm_contains(vm, container, item):
    if isinstance(container, Attrib) and isinstance(item, str):
        return SBool(z3.Not(container.elem.attrs[item].isnone))
    if isinstance(container, (SStr, SOptStr)) and item == '@':
        return SBool(HAS_AT(container.t))
    if isinstance(container, (SStr, SOptStr)) and item == 'THIS_IS_VARIABLE_SIZE_ARRAY':
        return SBool(HAS_MARK(container.t))
    return NotImplemented


def msm_index(vm, obj, idx):
    if isinstance(obj, (SStr, SOptStr)) and idx == 0:
        return SStr(CHAR0(obj.t))
    return NotImplemented


def msm_slice(vm, obj, lo, hi):
    if isinstance(obj, (SStr, SOptStr)) and lo == 1 and hi is None:
        return SStr(TAIL(obj.t))
    return NotImplemented


def _is_member_ctor(fn):
    n = getattr(fn, 'name', None) or getattr(fn, 'qualname', None) or ''
    return isinstance(n, str) and n.split('.')[-1] == 'StructMember'


def msm_call(vm, fn, args, kwargs, node):
    st = vm.state
    if _is_member_ctor(fn):
        known = ('bound', 'size', 'optional', 'docstring')
        if len(args) != 2 or any(k not in known for k in kwargs):
            raise OutOfSubset('StructMember constructor shape')
        opt = kwargs.get('optional', False)
        m = Member(as_opt(vm, args[0]), as_opt(vm, args[1]), as_opt(vm, kwargs.get('bound')), as_opt(vm, kwargs.get('size')),
                   vm.truthy(opt) if isinstance(opt, Sym) else z3.BoolVal(bool(opt)))
        st['events'].append(m)
        return m
    if isinstance(fn, Closure) and fn.qualname.endswith('get_required'):
        # get_required(elem, attr): the attribute, or model.ParseError when it is missing (its two lines, summarised)
        v = args[0].attrs[args[1]]
        if vm.decide(v.isnone):
            raise PyRaise(I.ExcClass('ParseError'))
        return SStr(v.t)
    if isinstance(fn, Closure) and fn.qualname.endswith('get_docstr'):
        return SOptStr(vm.fresh('doc#none', z3.BoolSort()), vm.fresh('doc', StrSort))
    return NotImplemented


def msm_format(vm, fmt, args, kwargs):
    args = [SStr(a.t) if isinstance(a, SOptStr) else a for a in args]
    t = vm.format_term(fmt, tuple(args))
    if t is None:
        raise OutOfSubset('format operand without a rendering')
    return SStr(t)


def _truthy(o):
    return z3.And(z3.Not(o.isnone), NONEMPTY(o.t))


def _same_opt(a, b):
    return z3.And(a.isnone == b.isnone, z3.Or(a.isnone, a.t == b.t))


def _same(m, name, type_, bound, size, optional):
    return z3.And(_same_opt(m.name, name), _same_opt(m.type_, type_), _same_opt(m.bound, bound), _same_opt(m.size, size),
                  m.optional == optional)


def msm_post(vm, st, result):
    e, d = st['elem'].attrs, st['dim'].attrs
    c = vm.contract.str_const
    S = lambda t: SOptStr(z3.BoolVal(False), t)
    NONE = none_str()
    has_dim = st['has_dim']
    name, type_ = e['name'], e['type']
    optional = z3.And(_truthy(e['optional']), LOWER(e['optional'].t) == c('true'))
    # SIZE: "size*size2" when size2 is given, in every form
    folded = vm.format_term('{}*{}', (SStr(d['size'].t), SStr(d['size2'].t)))
    size = SOptStr(z3.If(_truthy(d['size2']), z3.BoolVal(False), d['size'].isnone), z3.If(_truthy(d['size2']), folded, d['size'].t))
    vsfn = d['variableSizeFieldName']
    ext = z3.And(_truthy(vsfn), HAS_AT(CHAR0(vsfn.t)))
    mark = z3.And(z3.Not(ext), _truthy(size), HAS_MARK(size.t))
    isvar = z3.And(z3.Not(ext), z3.Not(mark), z3.Not(d['isVariableSize'].isnone))
    fixed = z3.And(z3.Not(ext), z3.Not(mark), z3.Not(isvar))
    sizer = z3.If(vsfn.isnone, strcat(name.t, c('_len')), vsfn.t)
    sizer_type = z3.If(d['variableSizeFieldType'].isnone, c('u32'), d['variableSizeFieldType'].t)
    num_of = strcat(strcat(c('numOf'), UPPER(CHAR0(name.t))), TAIL(name.t))
    dyn = vm.truthy(st['dyn'])
    ev = st['events']
    k = len(ev)
    c0 = z3.And(has_dim, optional)
    c1 = z3.And(has_dim, isvar)
    b2i = lambda x: z3.If(x, 1, 0)
    r = [('number of members: [has_ flag] [sizer] member', k == 1 + b2i(c0) + b2i(c1)),
         ('at most three members', z3.BoolVal(1 <= k <= 3))]
    if not 1 <= k <= 3:
        return r
    flag = lambda m: _same(m, S(strcat(c('has_'), name.t)), S(c('u32')), NONE, NONE, z3.BoolVal(False))
    szr = lambda m: _same(m, S(sizer), S(sizer_type), NONE, NONE, z3.BoolVal(False))
    main = ev[-1]
    bound_want = SOptStr(z3.Or(z3.Not(has_dim), fixed),
                         z3.If(ext, TAIL(vsfn.t), z3.If(mark, num_of, sizer)))
    size_none = z3.Or(z3.Not(has_dim), ext, mark, z3.And(isvar, dyn), size.isnone)
    size_want = SOptStr(size_none, size.t)
    r.append(('the member itself: name, type, bound and size of its dimension form',
              _same(main, name, type_, bound_want, size_want, z3.And(z3.Not(has_dim), optional))))
    if k == 3:
        r.append(('has_ flag first', flag(ev[0])))
        r.append(('sizer second', szr(ev[1])))
    elif k == 2:
        r.append(('the extra member is the has_ flag or the sizer', z3.If(c0, flag(ev[0]), szr(ev[0]))))
    if isinstance(result, list):
        r.append(('result lists the members in this order', z3.BoolVal(len(result) == k and all(a is b for a, b in zip(result, ev)))))
    else:
        r.append(('result is a list of the members', z3.BoolVal(False)))
    return r


def msm_raises(vm, st, exc_class, exc_args):
    e = st['elem'].attrs
    n = getattr(exc_class, 'name', str(exc_class))
    return [('only ParseError, only for a missing name / type attribute',
             z3.And(z3.BoolVal(str(n).endswith('ParseError')), z3.Or(e['name'].isnone, e['type'].isnone)))]


Contract(ISAR, 'make_struct_members', ['C17'], msm_setup, msm_post, raises=msm_raises, modifies=[],
         hooks={'getattr': msm_getattr, 'method': msm_method, 'contains': msm_contains, 'index': msm_index, 'slice': msm_slice, 'call': msm_call,
                'format': msm_format},
         notes=['attribute values are opaque strings; "@" in s[0], the VARIABLE marker, lower/upper, s[0], s[1:] are uninterpreted',
                'ElementTree Element.get/find/attrib assumed'])


# ------------------------------------------------------------------------------------------------ make_enum
#
# make_enum(xml_elem): for every <enum> with any number of <enum-member> children the result is an Enum named as the
# element whose i-th member is EnumMember(name_i, expand_operators(v_i')), where v_i' is the child's value, except that a
# value that reads as a negative integer n is replaced by the text "0x%X" of n + 2**32 (the unsigned 32-bit reading
# the prophy language uses for negative enumerators).  No children: None.  Exceptions: ParseError for a missing
# name / value attribute, and the ValueError of check_for_duplicates (the recorded C13 finding).
# Assumed: int(s, 0) raises ValueError exactly for non-numeric text (NUMERIC), "0x{:X}".format(n) spells n (HEXTEXT);
# expand_operators is an opaque function of its argument here; check_for_duplicates is summarised (reads only).

from .absobj import AbsList

NCHILD = z3.Function('xml.nchild', z3.IntSort())
C_NONE = {a: z3.Function('child.%s#none' % a, z3.IntSort(), z3.BoolSort()) for a in ('name', 'value', 'comment')}
C_VAL = {a: z3.Function('child.%s' % a, z3.IntSort(), StrSort) for a in ('name', 'value', 'comment')}
NUMERIC = z3.Function('int0.numeric', StrSort, z3.BoolSort())      # int(s, 0) does not raise
INTOF = z3.Function('int0.value', StrSort, z3.IntSort())           # its value
HEXTEXT = z3.Function('format.0x%X', z3.IntSort(), StrSort)
EXPAND = z3.Function('expand_operators', StrSort, StrSort)
ENAME = z3.Function('EnumMember.name', Ref, StrSort)
EVALUE = z3.Function('EnumMember.value', Ref, StrSort)


class EnumElem(Elem):
    pass


class ChildElem(Sym):
    def __init__(self, i):
        self.i = i
        self.tag = 'enum-member'

    def attr(self, a):
        return SOptStr(C_NONE[a](self.i), C_VAL[a](self.i))


class EnumObj(Sym):
    def __init__(self, name, members):
        self.name, self.members = name, members


def me_setup(vm, module, env):
    elem = EnumElem(vm, 'enum', ['name', 'comment'])
    vm.assume(NCHILD() >= 0)
    st = {'args': [elem], 'elem': elem, 'closure_env': {}, 'members': None, 'enum': None}
    vm.state = st
    return st


def want_value(i):
    v = C_VAL['value'](i)
    neg = z3.And(NUMERIC(v), INTOF(v) < 0)
    return EXPAND(z3.If(neg, HEXTEXT(4294967296 + INTOF(v)), v))


def me_hooks():
    def getattr_(vm, obj, attr):
        if isinstance(obj, ChildElem) and attr == 'get':
            return I.MethodOf(obj, 'get')
        if isinstance(obj, ChildElem) and attr == 'tag':
            return obj.tag
        if isinstance(obj, EnumObj) and attr in ('name', 'members'):
            return getattr(obj, attr)
        if isinstance(obj, AbsList) and attr in ('append', 'extend', 'insert'):
            return I.MethodOf(obj, attr)
        return msm_getattr(vm, obj, attr)

    def method(vm, obj, name, args, kwargs):
        if isinstance(obj, ChildElem) and name == 'get':
            v = obj.attr(args[0])
            if len(args) > 1 and args[1] is not None:
                return SStr(z3.If(v.isnone, vm.as_str(args[1]), v.t))
            return v
        if isinstance(obj, AbsList) and name == 'append':
            obj.m_append(vm, args[0])
            return None
        if isinstance(obj, AbsList) and name == 'extend':
            obj.m_extend(vm, args[0])
            return None
        if isinstance(obj, AbsList) and name == 'insert':
            obj.m_insert(vm, args[0], args[1])
            return None
        return msm_method(vm, obj, name, args, kwargs)

    def call(vm, fn, args, kwargs, node):
        st = vm.state
        n = getattr(fn, 'name', None) or getattr(fn, 'qualname', None) or ''
        last = n.split('.')[-1] if isinstance(n, str) else ''
        if isinstance(fn, Closure) and last == 'get_required':
            e, a = args[0], args[1]
            v = e.attr(a) if isinstance(e, ChildElem) else e.attrs[a]
            if vm.decide(v.isnone):
                raise PyRaise(I.ExcClass('ParseError'))
            return SStr(v.t)
        if isinstance(fn, Closure) and last == 'get_docstr':
            return SOptStr(vm.fresh('doc#none', z3.BoolSort()), vm.fresh('doc', StrSort))
        if isinstance(fn, Closure) and last == 'expand_operators':
            return SStr(EXPAND(vm.as_str(args[0])))
        if isinstance(fn, Closure) and last == 'check_for_duplicates':
            if vm.decide(vm.fresh('duplicate_values', z3.BoolSort())):
                raise PyRaise(I.ExcClass('ValueError'))
            return None
        if last == 'EnumMember':
            if len(args) != 2 or any(k != 'docstring' for k in kwargs):
                raise OutOfSubset('EnumMember constructor shape')
            r = vm.fresh_ref('enum_member', None)
            vm.assume(z3.And(ENAME(r.t) == vm.as_str(args[0]), EVALUE(r.t) == vm.as_str(args[1])))
            return r
        if last == 'Enum' and not isinstance(fn, Closure):
            if len(args) != 2 or any(k != 'docstring' for k in kwargs):
                raise OutOfSubset('Enum constructor shape')
            st['enum'] = EnumObj(args[0], args[1])
            return st['enum']
        return NotImplemented

    def int_(vm, args):
        if len(args) == 2 and args[1] == 0 and isinstance(args[0], SStr):
            s = args[0].t
            if vm.decide(NUMERIC(s)):
                return SInt(INTOF(s))
            raise PyRaise(I.ExcClass('ValueError'))
        return NotImplemented

    def format_(vm, fmt, args, kwargs):
        if fmt == '0x{:X}' and len(args) == 1:
            return SStr(HEXTEXT(vm.as_int(args[0])))
        return msm_format(vm, fmt, args, kwargs)

    def len_(vm, x):
        return NotImplemented

    def iterate(vm, it):
        if isinstance(it, EnumElem):
            return SSeq(NCHILD(), lambda i: ChildElem(i), 'children')
        return NotImplemented

    return {'getattr': getattr_, 'method': method, 'call': call, 'int': int_, 'format': format_, 'iterate': iterate,
            'contains': msm_contains, 'index': msm_index, 'slice': msm_slice}


EnumElem.sym_len = lambda self, vm: SInt(NCHILD())


def fresh_members(vm, name):
    st = vm.state
    st['members'] = AbsList(vm, 'members')
    return st['members']


def members_facts(vm, ms, k):
    if isinstance(ms, list):
        return [('members collected so far', z3.BoolVal(len(ms) == 0) if z3.is_int_value(z3.simplify(k)) and z3.simplify(k).as_long() == 0
                 else z3.And(k == 0, z3.BoolVal(len(ms) == 0)))]
    j = z3.Int('j')
    return [('one member per child so far', ms.length == k),
            ('each named as its child, valued by the (sign-converted, operator-expanded) value of its child',
             z3.ForAll([j], z3.Implies(z3.And(0 <= j, j < k),
                                       z3.And(ENAME(ms.elem(j).t) == C_VAL['name'](j), EVALUE(ms.elem(j).t) == want_value(j)))))]


def me_inv(vm, env, k):
    return members_facts(vm, env.get('members'), k)


def me_post(vm, st, result):
    if result is None:
        return [('None only for an element without children', NCHILD() == 0)]
    if not isinstance(result, EnumObj):
        return [('result is the Enum built here', z3.BoolVal(False))]
    r = [('an Enum only for an element with children', NCHILD() > 0),
         ('named as the element', vm.as_str(result.name) == st['elem'].attrs['name'].t)]
    return r + members_facts(vm, result.members, NCHILD())


def me_raises(vm, st, exc_class, exc_args):
    n = str(getattr(exc_class, 'name', exc_class))
    return [('only ParseError (missing attribute) or the ValueError of check_for_duplicates',
             z3.BoolVal(n.endswith('ParseError') or n.endswith('ValueError')))]


Contract(ISAR, 'make_enum', ['C17'], me_setup, me_post, raises=me_raises, modifies=[], hooks=me_hooks(),
         loops={1: LoopAnn(me_inv, index='k', locals_={'members': fresh_members}, extra_havoc=('members',))},
         notes=['int(s, 0) / "0x{:X}".format as uninterpreted NUMERIC / INTOF / HEXTEXT; expand_operators opaque; '
                'check_for_duplicates summarised (raises ValueError or returns, reads only)'])


# ------------------------------------------------------------------------------------------------ make_union
#
# make_union(xml_elem): an element without children denotes nothing (None); otherwise a Union named as the element with
# exactly one arm per child, in order: UnionMember(name_i, type_i, discriminatorValue_i) -- the discriminator text is
# taken over as written.  ParseError for a missing name / type / discriminatorValue and nothing else.

U_NONE = {a: z3.Function('arm.%s#none' % a, z3.IntSort(), z3.BoolSort()) for a in ('name', 'type', 'discriminatorValue', 'comment')}
U_VAL = {a: z3.Function('arm.%s' % a, z3.IntSort(), StrSort) for a in ('name', 'type', 'discriminatorValue', 'comment')}
UNAME = z3.Function('UnionMember.name', Ref, StrSort)
UTYPE = z3.Function('UnionMember.type_name', Ref, StrSort)
UDISC = z3.Function('UnionMember.discriminator', Ref, StrSort)


class UnionElem(Elem):
    pass


class ArmElem(Sym):
    def __init__(self, i):
        self.i = i
        self.tag = 'member'

    def attr(self, a):
        return SOptStr(U_NONE[a](self.i), U_VAL[a](self.i))


UnionElem.sym_len = lambda self, vm: SInt(NCHILD())


def mu_setup(vm, module, env):
    elem = UnionElem(vm, 'union', ['name', 'comment'])
    vm.assume(NCHILD() >= 0)
    st = {'args': [elem], 'elem': elem, 'closure_env': {}, 'members': None, 'enum': None}
    vm.state = st
    return st


def mu_hooks():
    base = me_hooks()

    def getattr_(vm, obj, attr):
        if isinstance(obj, ArmElem) and attr == 'get':
            return I.MethodOf(obj, 'get')
        if isinstance(obj, ArmElem) and attr == 'tag':
            return obj.tag
        return base['getattr'](vm, obj, attr)

    def method(vm, obj, name, args, kwargs):
        if isinstance(obj, ArmElem) and name == 'get':
            v = obj.attr(args[0])
            if len(args) > 1 and args[1] is not None:
                return SStr(z3.If(v.isnone, vm.as_str(args[1]), v.t))
            return v
        return base['method'](vm, obj, name, args, kwargs)

    def call(vm, fn, args, kwargs, node):
        st = vm.state
        n = getattr(fn, 'name', None) or getattr(fn, 'qualname', None) or ''
        last = n.split('.')[-1] if isinstance(n, str) else ''
        if isinstance(fn, Closure) and last == 'get_required' and isinstance(args[0], ArmElem):
            v = args[0].attr(args[1])
            if vm.decide(v.isnone):
                raise PyRaise(I.ExcClass('ParseError'))
            return SStr(v.t)
        if last == 'UnionMember':
            if len(args) != 3 or any(k != 'docstring' for k in kwargs):
                raise OutOfSubset('UnionMember constructor shape')
            r = vm.fresh_ref('union_member', None)
            vm.assume(z3.And(UNAME(r.t) == vm.as_str(args[0]), UTYPE(r.t) == vm.as_str(args[1]), UDISC(r.t) == vm.as_str(args[2])))
            return r
        if last == 'Union' and not isinstance(fn, Closure):
            if len(args) != 2 or any(k != 'docstring' for k in kwargs):
                raise OutOfSubset('Union constructor shape')
            st['enum'] = EnumObj(args[0], args[1])
            return st['enum']
        return base['call'](vm, fn, args, kwargs, node)

    def iterate(vm, it):
        if isinstance(it, UnionElem):
            return SSeq(NCHILD(), lambda i: ArmElem(i), 'children')
        return NotImplemented

    h = dict(base)
    h.update({'getattr': getattr_, 'method': method, 'call': call, 'iterate': iterate})
    return h


def arms_facts(vm, ms, k):
    if isinstance(ms, list):
        return [('arms collected so far', z3.And(k == 0, z3.BoolVal(len(ms) == 0)))]
    j = z3.Int('j')
    return [('one arm per child so far', ms.length == k),
            ('each arm carries the name, type and discriminator of its child',
             z3.ForAll([j], z3.Implies(z3.And(0 <= j, j < k),
                                       z3.And(UNAME(ms.elem(j).t) == U_VAL['name'](j), UTYPE(ms.elem(j).t) == U_VAL['type'](j),
                                              UDISC(ms.elem(j).t) == U_VAL['discriminatorValue'](j)))))]


def mu_post(vm, st, result):
    if result is None:
        return [('None only for an element without children', NCHILD() == 0)]
    if not isinstance(result, EnumObj):
        return [('result is the Union built here', z3.BoolVal(False))]
    return [('a Union only for an element with children', NCHILD() > 0),
            ('named as the element', vm.as_str(result.name) == st['elem'].attrs['name'].t)] + arms_facts(vm, result.members, NCHILD())


def mu_raises(vm, st, exc_class, exc_args):
    n = str(getattr(exc_class, 'name', exc_class))
    return [('only ParseError (missing attribute)', z3.BoolVal(n.endswith('ParseError')))]


Contract(ISAR, 'make_union', ['C17'], mu_setup, mu_post, raises=mu_raises, modifies=[], hooks=mu_hooks(),
         loops={0: LoopAnn(lambda vm, env, k: arms_facts(vm, env.get('members'), k), index='k',
                           locals_={'members': fresh_members}, extra_havoc=('members',))},
         notes=['ElementTree accessors assumed; attribute values opaque'])


# ------------------------------------------------------------------------------------------------ make_struct
#
# make_struct(xml_elem, last_member_array_is_dynamic): an element without children denotes nothing (None); otherwise a
# Struct named as the element whose member list is the concatenation, in child order, of what make_struct_members
# (by its contract above: a list of one to three members) yields for each child, called with that child and with the
# flag as given (so a <message>, for which the flag is set, drops the limit of every variable-size array).

SM_LEN = z3.Function('members_of.len', z3.IntSort(), z3.IntSort())            # how many members child i denotes (1..3)
SM_AT = z3.Function('members_of.at', z3.IntSort(), z3.IntSort(), Ref)         # the j-th of them
SM_OFF = z3.Function('members_of.offset', z3.IntSort(), z3.IntSort())         # sum of the lengths before child i


class StructElem(Elem):
    pass


class MemberChild(Sym):
    def __init__(self, i):
        self.i = i


StructElem.sym_len = lambda self, vm: SInt(NCHILD())


def ms_setup(vm, module, env):
    elem = StructElem(vm, 'struct', ['name', 'comment'])
    flag = SBool(vm.fresh('last_member_array_is_dynamic', z3.BoolSort()))
    vm.assume(NCHILD() >= 0)
    vm.assume(SM_OFF(0) == 0)
    st = {'args': [elem, flag], 'elem': elem, 'flag': flag, 'closure_env': {}, 'members': None, 'enum': None}
    vm.state = st
    return st


def ms_hooks():
    base = me_hooks()

    def call(vm, fn, args, kwargs, node):
        st = vm.state
        n = getattr(fn, 'name', None) or getattr(fn, 'qualname', None) or ''
        last = n.split('.')[-1] if isinstance(n, str) else ''
        if isinstance(fn, Closure) and last == 'make_struct_members':
            ok = len(args) == 2 and not kwargs and isinstance(args[0], MemberChild)
            given = (vm.truthy(args[1]) if isinstance(args[1], Sym) else z3.BoolVal(bool(args[1]))) if ok else None
            if given is not None and not z3.is_expr(given):
                given = z3.BoolVal(bool(given))
            vm.oblige('call.make_struct_members:(the child at hand, the flag as given)',
                      (given == st['flag'].t) if ok else z3.BoolVal(False), 'call', vm.cur_line)
            if not (args and isinstance(args[0], MemberChild)):
                raise OutOfSubset('make_struct_members called on something else than a child')
            i = args[0].i
            vm.assume(z3.And(1 <= SM_LEN(i), SM_LEN(i) <= 3))            # its contract: one to three members
            if vm.choose(2) == 1:
                raise PyRaise(I.ExcClass('ParseError'))                 # ... or ParseError for a missing attribute
            return SSeq(SM_LEN(i), lambda j: SRef(SM_AT(i, j), None, False), 'members_of_child')
        if last == 'Struct' and not isinstance(fn, Closure):
            if len(args) != 2 or any(k != 'docstring' for k in kwargs):
                raise OutOfSubset('Struct constructor shape')
            st['enum'] = EnumObj(args[0], args[1])
            return st['enum']
        return base['call'](vm, fn, args, kwargs, node)

    def iterate(vm, it):
        if isinstance(it, StructElem):
            return SSeq(NCHILD(), lambda i: MemberChild(i), 'children')
        return NotImplemented

    h = dict(base)
    h.update({'call': call, 'iterate': iterate})
    return h


def concat_facts(vm, ms, k, inner=None):
    """members == members_of(child 0) ++ ... ++ members_of(child k-1) [ ++ the first `inner` of child k ]"""
    if isinstance(ms, list):
        return [('members collected so far', z3.And(k == 0, z3.BoolVal(len(ms) == 0 and inner is None)))]
    i, j = z3.Ints('i j')
    r = [('as many members as the children so far denote', ms.length == SM_OFF(k) + (inner if inner is not None else 0)),
         ('the members of every child so far, in order, at their place',
          z3.ForAll([i, j], z3.Implies(z3.And(0 <= i, i < k, 0 <= j, j < SM_LEN(i)), ms.elem(SM_OFF(i) + j).t == SM_AT(i, j)),
                    patterns=[SM_AT(i, j)]))]
    r.append(('the places of earlier children lie below those of later ones',
              z3.ForAll([i], z3.Implies(z3.And(0 <= i, i < k), z3.And(SM_OFF(i) >= 0, SM_LEN(i) >= 1, SM_OFF(i) + SM_LEN(i) <= SM_OFF(k))),
                        patterns=[SM_OFF(i)])))
    if inner is not None:
        r.append(('the members of the child at hand so far', z3.ForAll([j], z3.Implies(z3.And(0 <= j, j < inner),
                                                                                       ms.elem(SM_OFF(k) + j).t == SM_AT(k, j)),
                                                                       patterns=[SM_AT(k, j)])))
    return r


def ms_unfold(vm, env, k):
    return [SM_OFF(k + 1) == SM_OFF(k) + SM_LEN(k), z3.And(1 <= SM_LEN(k), SM_LEN(k) <= 3), SM_OFF(k) >= 0]


def ms_outer(vm, env, k):
    return concat_facts(vm, env.get('members'), k) + [('offsets are sums of lengths', SM_OFF(k) >= 0)]


def ms_inner(vm, env, j):
    k = vm.path.ghost['k']
    return concat_facts(vm, env.get('members'), k, inner=j) + [('offsets are sums of lengths', SM_OFF(k) >= 0)]


def ms_inner_unfold(vm, env, j):
    k = vm.path.ghost['k']
    return [SM_OFF(k + 1) == SM_OFF(k) + SM_LEN(k)]


def ms_post(vm, st, result):
    if result is None:
        return [('None only for an element without children', NCHILD() == 0)]
    if not isinstance(result, EnumObj):
        return [('result is the Struct built here', z3.BoolVal(False))]
    return [('a Struct only for an element with children', NCHILD() > 0),
            ('named as the element', vm.as_str(result.name) == st['elem'].attrs['name'].t)] + concat_facts(vm, result.members, NCHILD())


_MS = Contract(ISAR, 'make_struct', ['C17'], ms_setup, ms_post, raises=mu_raises, modifies=[], hooks=ms_hooks(),
         loops={0: LoopAnn(ms_outer, index='k', locals_={'members': fresh_members}, extra_havoc=('members',), unfold=ms_unfold),
                1: LoopAnn(ms_inner, index='j', locals_={'members': fresh_members}, extra_havoc=('members',), unfold=ms_inner_unfold)},
         notes=['make_struct_members by its contract (one to three members, or ParseError)',
                'offset(i+1) = offset(i) + len(i): the definition of the running sum, unfolded at the loop index'])
_MS.optional_loops = (1,)        # `members.extend(make_struct_members(...))` would express the inner loop without a loop
