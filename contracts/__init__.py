"""registry: property -> contract modules, bounded stand-ins, trusted base"""

PYVC_TRUST = [
    'PyVC engine (vf/): symbolic semantics of the accepted Python subset; Python int = mathematical integer (exact)',
    'builtin table vf/builtins.py (len/max/min/sum/any/all/isinstance/range/zip/... contracts)',
    'shape tables in contracts/*_shapes.py (attribute sorts of model nodes / generated classes)',
    'z3 4.x / cvc5 1.0 soundness',
]

PROPS = {
    'C01': {
        'modules': ['contracts.c01_encode', 'contracts.c01_arrays', 'contracts.c01_wrappers', 'contracts.c04_runtime',
                    'contracts.c01_pygen'],
        'standins': ['py_codec'],
        'trusted': PYVC_TRUST + ['struct.pack(e+id, x) (CPython struct module): trusted leaf'],
        'assumptions': ['prophyc text -> generated class mapping (python generator + exec): bounded stand-in only'],
        'level': 'proof',
    },
    'C02': {
        'modules': ['contracts.c02_decode', 'contracts.c02_arrays', 'contracts.c01_wrappers', 'contracts.c04_runtime'],
        'standins': ['py_codec'],
        'trusted': PYVC_TRUST + ['struct.unpack inverts struct.pack (CPython struct module): trusted leaf'],
        'assumptions': ['arrays counted by a sizer round-trip only up to 65536 elements (documented guard)'],
        'level': 'proof',
    },
    'C06': {
        'modules': ['contracts.c02_decode', 'contracts.c02_arrays', 'contracts.c01_wrappers'],
        'standins': ['py_fuzz'],
        'trusted': PYVC_TRUST + ['struct.unpack raises struct.error only on a length mismatch'],
        'assumptions': [],
        'level': 'proof',
    },
    'C10': {
        'modules': ['contracts.c10_api', 'contracts.c10_props', 'contracts.c10_enum'],
        'standins': ['py_api'],
        'trusted': PYVC_TRUST + ['CPython list/dict operation semantics as modelled in contracts/absobj.py'],
        'assumptions': ['histories: every public operation preserves wf_msg and refines the model => every finite history does (induction)'],
        'level': 'proof',
    },
    'C11': {
        'modules': ['contracts.c11_copy'],
        'standins': ['py_api'],
        'trusted': PYVC_TRUST + ['CPython list/dict operation semantics as modelled in contracts/absobj.py'],
        'assumptions': ['nested copy_from calls by contract (induction over the nesting depth of the schema)'],
        'level': 'proof',
    },
    'C14': {
        'modules': ['contracts.c14_expr', 'contracts.c14_literal', 'contracts.c04_member'],
        'standins': ['expr_eval'],
        'trusted': PYVC_TRUST + ['ply builds the parse tree its grammar and precedence table define and calls one action per reduction',
                                 'CPython int(text, base) / str(int)'],
        'assumptions': ['x << y modelled as x * POW2(y) with POW2 uninterpreted and positive (same term in code and spec)'],
        'level': 'proof',
    },
    'C15': {
        'modules': ['contracts.c15_deps', 'contracts.c15_toposort'],
        'standins': ['isar_order'],
        'trusted': PYVC_TRUST + ['re.findall tokenisation of identifiers (_expression_symbols)'],
        'assumptions': ['topological_sort is proved against abstract nodes (name, dependencies(), Enum members as uninterpreted functions); '
                        'that dependencies() yields what its own contract (c15_deps) says links the two',
                        'acyclic input is stated as: a rank of names in [0, len(nodes)) that every dependency on another-named node of the list lowers',
                        'IsarParser.parse (collection by element kind) and the end-to-end claim (equal layouts for every permutation) are '
                        'exercised by the bounded stand-in',
                        'sack input needs libclang Python bindings that are not installed: not checked'],
        'level': 'proof',
    },
    'C12': {
        'modules': ['contracts.c12_legal', 'contracts.c04_model', 'contracts.c12_runtime', 'contracts.c12_names'],
        'standins': ['legality'],
        'trusted': PYVC_TRUST,
        'assumptions': ['"g++ compiles it" has no contract formulation: bounded compile run', 'parser-side (prophy text) checks other than name uniqueness (c12_names) and sizer lookup (c12_legal) are exercised by the bounded stand-in'],
        'level': 'proof',
    },
    'C13': {
        'modules': ['contracts.c14_expr', 'contracts.c13_term', 'contracts.c15_toposort', 'contracts.c12_legal', 'contracts.c13_options'],
        'standins': ['prophyc_robust', 'isar_order'],
        'trusted': PYVC_TRUST + ['ply / ElementTree / argparse internals (assumed contracts)'],
        'assumptions': ['exception classes the property does not list (xml ParseError, the bare Exception of patch.py, OSError) are reported as notes'],
        'level': 'other',
        'explanation': 'termination variants and raises-clauses are proved for the functions under contract; the whole-program effect '
                       '(nothing but ProphycError leaves main) is decided by the bounded stand-in only',
    },
    'C16': {
        'modules': ['contracts.c16_files', 'contracts.c16_pyinclude', 'contracts.c16_include'],
        'static': ['vf.effects:check_shared_state'], 'standins': ['multifile'],
        'trusted': PYVC_TRUST + ['os.path.* / codecs.open (opaque contracts)'],
        'assumptions': ['end-to-end equivalence with the concatenated file over directory arrangements: bounded stand-in',
                        'two included files with the same stem are outside the property (their outputs would collide as well)'],
        'level': 'proof',
    },
    'C17': {
        'modules': ['contracts.c17_patch', 'contracts.c17_isar'],
        'standins': ['frontends'],
        'trusted': PYVC_TRUST + ['ElementTree (xml parsing) assumed'],
        'assumptions': ['the isar <dimension> form table is taken from the property statement and the isar convention (one form documented)'],
        'level': 'proof',
    },
    'C19': {
        'modules': ['contracts.c01_encode', 'contracts.c01_arrays', 'contracts.c01_wrappers', 'contracts.c04_runtime'],
        'standins': ['py_codec'],
        'trusted': PYVC_TRUST,
        'assumptions': ['host is little-endian (C++ native == little)'],
        'level': 'proof',
    },
    'C04': {
        'modules': ['contracts.c04_model', 'contracts.c01_encode', 'contracts.c04_runtime', 'contracts.c04_driver', 'contracts.c04_member'],
        'standins': ['py_codec'],
        'trusted': PYVC_TRUST,
        'assumptions': ['g++ sizeof of PROPHY_STRUCT equals packed-ABI sum (C08)'],
        'level': 'proof',
    },
}

LEVEL_TEXT = {}

CXX_TRUST = [
    'CxxVC engine (vf/cxxvc.py, vf/cxx_ast.py): symbolic semantics of the accepted C++ statement/expression subset over '
    "clang 14's JSON AST of the instantiated bodies; integers as bit-vectors of their C++ width",
    'clang 14 front-end (template instantiation, implicit conversions, constant evaluation) and g++ 12 sizeof/alignof',
    'z3 5.1 / cvc5 1.0.3 (incl. its bit-vector-to-integer translation) soundness',
    'assumed library contracts: std::vector (size/data/resize/push_back/pop_back/back), std::min, std::accumulate, '
    'prophy::optional (engaged flag), std::vector<uint8_t>(n) storage 16-byte aligned',
]
CXX_ENV = [
    'environment: addresses < 2^62, inputs and arrays shorter than 2^48 bytes/elements, host little-endian (x86-64)',
    'the input buffer / output buffer of a message starts at an address that is a multiple of the message alignment '
    '(documented requirement of the C++ codec)',
    'generated code is verified per schema of an enumerated family (all values of each schema): translation validation of '
    "prophyc's output, not a proof about the generator for all schemas -- the latter is covered by the bounded stand-in",
]
CXX_TECH = ('contract-based deductive verification: self-generated VCs from clang\'s JSON AST of the real headers and of '
            'prophyc-generated C++ (CxxVC, bit-vector semantics), discharged by z3/cvc5; PyVC contracts on the Python side; '
            'bounded sanitizer stand-in (g++ -fsanitize=address,undefined driver over a schema family) for what the '
            'contracts assume')

PROPS['C07'] = {
    'modules': [], 'static': ['vf.cxx_check:C07'], 'standins': ['cxx_codec'], 'cxx': True,
    'trusted': CXX_TRUST,
    'assumptions': CXX_ENV + ['-fsanitize=enum is off in the stand-in: under C++11 (the project\'s -std) an out-of-range value '
                              'cast to an enumeration is unspecified, not undefined'],
    'level': 'other', 'technique': CXX_TECH,
}
PROPS['C05'] = {
    'modules': ['contracts.c04_model'], 'static': ['vf.cxx_check:C05'], 'standins': ['cxx_codec'], 'cxx': True,
    'trusted': PYVC_TRUST + CXX_TRUST,
    'assumptions': CXX_ENV + ['arrays hold no more elements than their sizer type can count (otherwise: recorded finding)'],
    'level': 'other', 'technique': CXX_TECH,
}
PROPS['C03'] = {
    'modules': ['contracts.c04_model', 'contracts.c01_encode', 'contracts.c02_decode'], 'static': ['vf.cxx_check:C03'],
    'standins': ['cxx_codec'], 'cxx': True,
    'trusted': PYVC_TRUST + CXX_TRUST,
    'assumptions': CXX_ENV + ['byte content of arrays and nested composites written by the C++ encoders is not modelled '
                              '(cursor positions, scalar bytes and sizes are): content equality over whole messages is '
                              'the bounded stand-in\'s part'],
    'level': 'other', 'technique': CXX_TECH,
}
PROPS['C08'] = {
    'modules': ['contracts.c04_model', 'contracts.c08_raw', 'contracts.c04_driver', 'contracts.c04_member'], 'standins': ['cxx_raw'], 'cxx': True,
    'trusted': PYVC_TRUST + ['g++ 12 x86-64 layout of packed, aligned structs (what the property is about): measured, not modelled'],
    'assumptions': ['the paddings prophyc computes are the documented ones (C04 contracts, discharged here again); that '
                    'cpp.py turns them into fields and that g++ lays those out as the wire does is checked by the bounded '
                    'stand-in only (offsetof/sizeof evaluated by g++ over a schema family)'],
    'level': 'other',
    'technique': 'contract-based deductive verification of the layout computation (PyVC on prophyc/model.py); bounded '
                 'stand-in: offsetof/sizeof of the generated raw header evaluated by g++ over a schema family',
}
_CXX_NOTE = ('Trusted: CxxVC/PyVC engine semantics, clang 14 / g++ 12 front ends, z3/cvc5, assumed library contracts '
             '(std::vector, optional, ostream); environment assumptions in the evidence. Generated C++ is verified per '
             'schema of an enumerated family (all values of each schema). Bounded stand-ins (sanitizer driver) are '
             'reported separately and never counted as discharged. Recorded findings are listed in known_findings.json.')
LEVEL_TEXT['C07'] = {'text': 'contracts on every decode primitive of decoder.hpp / message.hpp (bounds, exact advance, '
                             'allocation bound, termination variants) and on every generated decoder of the schema family; '
                             'all obligations discharged except those of one recorded finding', 'note': _CXX_NOTE}
LEVEL_TEXT['C05'] = {'text': 'contracts on every encode primitive of encoder.hpp / message.hpp and on every generated '
                             'encoder and get_byte_size of the schema family (returned cursor == get_byte_size, writes inside '
                             'the region); PyVC contracts on the size computation of prophyc/model.py', 'note': _CXX_NOTE}
LEVEL_TEXT['C03'] = {'text': 'layout obligations of the generated C++ codecs against specs/wire.py (cursor at the documented '
                             'offset at every member, documented total size), scalar byte order by encode_int/decode_int '
                             'bit-vector proofs, Python codec contracts (C01/C02); whole-message byte content of the C++ '
                             'encoders only by the bounded stand-in', 'note': _CXX_NOTE}
LEVEL_TEXT['C08'] = {'text': 'PyVC contracts on the padding computation of prophyc/model.py; the raw header itself '
                             '(prophyc/generators/cpp.py, g++ layout) only by the bounded offsetof/sizeof stand-in',
                     'note': 'Bounded: offsetof/sizeof of the generated raw header evaluated by g++ for a schema family. '
                             'No contract on cpp.py was built.'}
LEVEL_TEXT['C18'] = {'text': 'PyVC contracts on struct.__str__ / union.__str__ / field_to_string over opaque strings; CxxVC '
                             'contracts on printer.hpp (stream-state frame, print_byte text, printers) and on the order of '
                             'do_print calls of every generated print; character-level agreement of the two languages only '
                             'by the bounded stand-in', 'note': _CXX_NOTE}
LEVEL_TEXT['C19'] = {'text': 'PyVC contracts on the Python encoders with symbolic byte order; CxxVC full-width bit-vector '
                             'proofs of encode_int / decode_int / scalar encoders for little, big and native', 'note': _CXX_NOTE}

PROPS['C09'] = {
    'modules': [], 'static': ['vf.cxx_check:C09'], 'standins': ['cxx_swap'], 'cxx': True,
    'trusted': CXX_TRUST + ['raw struct layout: offsetof/sizeof/alignof of the generated packed structs as evaluated by g++ 12 '
                            '(the subject of C08) is used as the meaning of payload->field'],
    'assumptions': CXX_ENV + ['the buffer holds a message: counters of limited arrays are within their limits; sizes of nested '
                              'dynamic messages are ghost values (multiples of their alignment, >= their minimal encoding)',
                              'each leaf reverses one scalar in place (proved on the header); that the per-schema sequence of '
                              'leaf visits equals the documented layout is proved per schema; the step from "every scalar is '
                              'reversed once at its documented place" to "the buffer is the native encoding" is the paper '
                              'argument of contracts/cxx_swap.py, cross-checked by the bounded stand-in'],
    'level': 'other', 'technique': CXX_TECH,
}
LEVEL_TEXT['C09'] = {'text': 'CxxVC contracts on the raw swap: bit-vector proofs of the scalar swaps, loop contracts (with memory '
                             'frames) on swap_n_fixed / swap_n_dynamic, cast; per schema of the family, the generated swap<T> makes '
                             'exactly the leaf visits the documented layout prescribes (addresses, counts, conditions), stays '
                             'inside the message and returns its end; two recorded findings', 'note': _CXX_NOTE}

PROPS['C18'] = {
    'modules': ['contracts.c18_text', 'contracts.c01_pygen'], 'static': ['vf.cxx_check:C18'], 'standins': ['cxx_codec'], 'cxx': True,
    'trusted': PYVC_TRUST + CXX_TRUST + ['assumed contract of std::ostream: flags and fill sticky, width consumed by the next '
                                         'insertion; std::hex changes the number base held in the flags'],
    'assumptions': CXX_ENV + ['strings are opaque in the contracts: which pieces are produced, from which operands, in which '
                              'order and under which stream state is proved; that the characters of a piece agree between '
                              'Python repr()/str() and the C++ insertion operators is compared by the bounded stand-in only',
                              'floating-point fields and bytes containing a single quote are outside the property'],
    'level': 'other', 'technique': CXX_TECH,
}
PROPS['C19']['static'] = ['vf.cxx_check:C19']
PROPS['C19']['standins'] = ['py_codec', 'cxx_codec']
PROPS['C19']['cxx'] = True
PROPS['C19']['trusted'] = PYVC_TRUST + CXX_TRUST
PROPS['C19']['technique'] = CXX_TECH
PROPS['C19']['level'] = 'other'
# C05, C07, C19: proof-level technique (every obligation generated from the source is decided by z3/cvc5), but the run is
# recorded at level `other` because a few obligations are *refuted* on the unchanged tree -- the recorded findings of
# known_findings.json (optional of a vector-holding struct; arrays longer than a narrow sizer) -- so discharged < obligations.

PROPS['C20'] = {
    'modules': ['contracts.c16_files', 'contracts.c14_expr'],
    'static': ['vf.effects:check_determinism'],
    'standins': ['determinism'],
    'trusted': PYVC_TRUST + ['CPython: dict iteration is insertion-ordered; hash randomisation affects only set iteration order',
                             'the effect analysis is intraprocedural with program-wide set-typed attributes (vf/effects.py)'],
    'assumptions': ['cross-input interference (shared FileProcessor cache, in-place model passes): contracts on the include-directory '
                    'stack and on Calc.eval, otherwise bounded stand-in'],
    'level': 'other',
    'explanation': 'a proved sufficient condition (effect contract: no ambient nondeterminism, no set order reaches an output) plus contracts '
                   'on the shared state; a two-run hyperproperty is not a postcondition',
    'technique': 'contract-based: effect/frame contract checked on the AST of every tool-chain function + PyVC contracts on shared state; bounded stand-in for the rest',
}

NOT_APPLICABLE = {
}
for _p in []:
    if _p not in PROPS:
        NOT_APPLICABLE[_p] = 'not claimed yet: contracts for this property are still being built (see DESIGN.md section 12); no check is registered'
