"""C10: the generated property closures (prophy/generators.py) against the reference model of a message:
a struct is a map  field name -> value  (absent = default / None);  a union is (discriminated arm, value)."""
import z3

from vf.contract import Contract, LoopAnn
from vf.pyvc import SRef, SSeq, SInt, SOpt, SBytes, SBool, SStr, Ref, OpaqueFn, ByteSeq, Sym, OutOfSubset, PyRaise, ClassInfo
from vf import interp as I
from .rt_shapes import GENERATORS, SHAPES, sel, _in, new_fields
from .absobj import FieldsMap, HOOKS
from .c02_decode import PROPHY_ERROR

RT = dict(SHAPES)
RT['_fields'] = 'obj'


class Val(Sym):
    """an opaque Python value with symbolic truthiness / None-ness / identity with True"""

    def __init__(self, vm, name):
        self.name = name
        self.isnone = vm.fresh(name + '#none', z3.BoolSort())
        self.istrue = vm.fresh(name + '#isTrue', z3.BoolSort())
        self.falsy = vm.fresh(name + '#falsy', z3.BoolSort())
        vm.assume(z3.Not(z3.And(self.isnone, self.istrue)))
        vm.assume(z3.Implies(self.isnone, self.falsy))
        vm.assume(z3.Implies(self.istrue, z3.Not(self.falsy)))

    def sym_truthy(self, vm):
        return z3.Not(self.falsy)

    def sym_is_none(self, vm):
        return self.isnone


def identical_hook_install():
    """`new_value is True`"""
    orig = I.Interp.identical

    def identical(self, a, b):
        for x, y in ((a, b), (b, a)):
            if isinstance(x, Val) and y is True:
                return SBool(x.istrue)
            if isinstance(x, Val) and y is False:
                return False
        return orig(self, a, b)
    I.Interp.identical = identical


identical_hook_install()


class TypeObj(Sym):
    """descriptor_field.type: callable (fresh default instance), ._check, ._DEFAULT, ._OPTIONAL"""

    def __init__(self, vm):
        self.default = Val(vm, 'DEFAULT')
        self.instances = []

    def sym_getattr(self, vm, attr):
        if attr == '_check':
            return OpaqueFn(self, '_check')
        if attr == '_DEFAULT':
            return self.default
        return NotImplemented


def prop_setup(kind):
    def setup(vm, module, env):
        field = vm.fresh_ref('descriptor_field', None)
        name = SStr(sel(vm, 'name', field.t))
        tobj = TypeObj(vm)
        self = vm.fresh_ref('self', None)
        fields = FieldsMap(vm, name, lambda: Val(vm, 'stored'))
        vm.path.objattrs[(str(self.t), '_fields')] = fields
        st = {'self': self, 'field': field, 'type': tobj, 'fields': fields, 'checked': [], 'closure_env': {'descriptor_field': field,
              'ProphyError': PROPHY_ERROR}}
        st['args'] = [self]
        if kind == 'setter':
            st['new'] = Val(vm, 'new_value')
            st['args'].append(st['new'])
        vm.state = st
        return st
    return setup


def prop_getattr(vm, obj, attr):
    st = vm.state
    if isinstance(obj, SRef) and obj.t.eq(st['field'].t) and attr == 'type':
        return st['type']
    return HOOKS['getattr'](vm, obj, attr)


def prop_call(vm, fn, args, kwargs, node):
    st = vm.state
    if isinstance(fn, OpaqueFn) and fn.attr == '_check':
        x = args[0]
        st['checked'].append(x)
        if vm.choose(2) == 1:
            raise PyRaise(PROPHY_ERROR, ('rejected by _check',))
        st['CHK'] = Val(vm, 'checked_value')
        return st['CHK']
    if isinstance(fn, TypeObj):
        inst = Val(vm, 'fresh_instance')
        vm.assume(z3.And(z3.Not(inst.isnone), z3.Not(inst.falsy)))
        fn.instances.append(inst)
        return inst
    return NotImplemented


def prop_hooks():
    h = dict(HOOKS)
    h['getattr'] = prop_getattr
    h['call'] = prop_call
    return h


def no_mutation_on_reject(vm, st, exc_class, exc_args):
    return [('class is ProphyError', exc_class.is_sub('ProphyError')), ('message unchanged on rejection', not st['fields'].mutated())]


def P(qual, setup_kind, post, raises=None, notes=None):
    Contract(GENERATORS, qual, ['C10', 'C02'], prop_setup(setup_kind), post, shapes=RT, raises=raises, hooks=prop_hooks(), modifies=[],
             notes=notes)


# ---- scalar properties (generators.py: add_scalar_property)
#   #0 = optional variant, #1 = plain variant (source order)

def scalar_opt_getter_post(vm, st, r):
    f = st['fields']
    return [('returns the stored value or None', z3.If(f.present0, r is f.value0, r is None) if False else
             ((r is f.value0) or (r is None))), ('no mutation', not f.mutated())]


P('struct_generator.add_scalar_property.getter#0', 'getter', scalar_opt_getter_post)


def scalar_opt_setter_post(vm, st, r):
    f, new = st['fields'], st['new']
    stored_none = f.ops == [('set', None)]
    stored_checked = len(f.ops) == 1 and f.ops[0][0] == 'set' and f.ops[0][1] is st.get('CHK') and st['checked'] == [new]
    return [('None clears; anything else is stored only after _check accepted it', stored_none or stored_checked),
            ('None is stored exactly when new_value is None', z3.BoolVal(stored_none) == new.isnone)]


P('struct_generator.add_scalar_property.setter#0', 'setter', scalar_opt_setter_post, no_mutation_on_reject)


def scalar_getter_post(vm, st, r):
    f = st['fields']
    return [('returns the stored value, or the type default when never set', (r is f.value0) or (r is st['type'].default)),
            ('no mutation', not f.mutated())]


P('struct_generator.add_scalar_property.getter#1', 'getter', scalar_getter_post)


def scalar_setter_post(vm, st, r):
    f, new = st['fields'], st['new']
    return [('the checked value is stored', len(f.ops) == 1 and f.ops[0][0] == 'set' and f.ops[0][1] is st.get('CHK')
             and st['checked'] == [new])]


P('struct_generator.add_scalar_property.setter#1', 'setter', scalar_setter_post, no_mutation_on_reject)


# ---- composite properties (add_composite_property): #0 optional, #1 plain

def comp_opt_setter_post(vm, st, r):
    f, new, t = st['fields'], st['new'], st['type']
    fresh = len(f.ops) == 1 and f.ops[0][0] == 'set' and len(t.instances) == 1 and f.ops[0][1] is t.instances[0]
    cleared = f.ops == [('pop',)]
    return [('True installs a FRESH default instance (whatever was there before); None removes the field', fresh or cleared),
            ('fresh instance exactly when new_value is True', z3.BoolVal(fresh) == new.istrue),
            ('removed exactly when new_value is None', z3.BoolVal(cleared) == new.isnone)]


P('struct_generator.add_composite_property.setter#0', 'setter', comp_opt_setter_post, no_mutation_on_reject)
P('struct_generator.add_composite_property.getter#0', 'getter',
  lambda vm, st, r: [('returns the stored instance or None', (r is st['fields'].value0) or (r is None)), ('no mutation', not st['fields'].mutated())])


def comp_getter_post(vm, st, r):
    f, t = st['fields'], st['type']
    existing = r is f.value0 and not f.mutated()
    created = len(t.instances) == 1 and r is t.instances[0] and f.present is not f.present0
    return [('returns the existing instance, or creates, stores and returns a default one', existing or created)]


P('struct_generator.add_composite_property.getter#1', 'getter', comp_getter_post)
P('struct_generator.add_composite_property.setter#1', 'setter', lambda vm, st, r: [('never returns normally', False)],
  no_mutation_on_reject, notes=['assignment to a composite field is always rejected'])


# ---- repeated (array) properties

def rep_getter_post(vm, st, r):
    f, t = st['fields'], st['type']
    existing = r is f.value0 and not f.mutated()
    created = len(t.instances) == 1 and r is t.instances[0] and f.ops[-1] == ('set', r)
    return [('returns the existing array object, or creates, stores and returns an empty one', existing or created)]


P('struct_generator.add_repeated_property.getter', 'getter', rep_getter_post)
P('struct_generator.add_repeated_property.setter', 'setter', lambda vm, st, r: [('never returns normally', False)],
  no_mutation_on_reject, notes=['assignment to an array field is always rejected'])
