"""C13: termination (variants) and exception effects of prophyc functions within reach"""
import z3

from vf.contract import Contract, LoopAnn
from vf.pyvc import SRef, SOptRef, SSeq, SInt, SOpt, SBool, SStr, Ref, OpaqueFn, Sym, OutOfSubset, PyRaise, ClassInfo, StrSort
from vf import interp as I
from .model_shapes import MODEL, SHAPES, model_class

RANK = z3.Function('TD_RANK', Ref, z3.IntSort())     # ghost: length of the typedef chain below a node (acyclic after topological_sort)


def lt_setup(vm, module, env):
    td = model_class(vm, module, 'Typedef')
    self = vm.fresh_ref('self', td)
    r = z3.Const('r', Ref)
    subs = [c for c in vm.known_classes() if c.is_subclass(td)]
    is_td = lambda t: z3.Or(*[vm.clsid(t) == vm.class_id(c) for c in subs])
    dn = vm.heap_array('definition#none')
    d = vm.heap_array('definition')
    # acyclic definition chains (established by topological_sort, which reports cycles): ghost rank
    vm.assume(z3.ForAll([r], z3.And(RANK(r) >= 0, z3.Implies(z3.And(is_td(r), z3.Not(z3.Select(dn, r))),
                                                            RANK(z3.Select(d, r)) < RANK(r))), patterns=[RANK(r)]))
    st = {'args': [self], 'self': self, 'is_td': is_td, 'closure_env': {}}
    vm.state = st
    return st


def lt_inv(vm, env, k):
    return []


def lt_variant(vm, env):
    v = env.get('lowermost')
    if isinstance(v, SOptRef):
        return z3.If(v.isnone, 0, RANK(v.t) + 1)
    if v is None:
        return z3.IntVal(0)
    return RANK(v.t) + 1


def lt_post(vm, st, result):
    if result is None:
        return [('the end of the chain is not a typedef', True)]
    if isinstance(result, SOptRef):
        return [('the end of the chain is not a typedef', z3.Or(result.isnone, z3.Not(st['is_td'](result.t))))]
    return [('the end of the chain is not a typedef', z3.Not(st['is_td'](result.t)))]


Contract(MODEL, 'Typedef.lowermost_typedef', ['C13', 'C04'], lt_setup, lt_post, shapes=SHAPES, modifies=[],
         loops={0: LoopAnn(lt_inv, variant=lt_variant, locals_={'lowermost': lambda vm, name: SOptRef(vm.fresh(name + '#none', z3.BoolSort()),
                                                                                                     vm.fresh(name, Ref), None)})},
         notes=['terminates on acyclic typedef chains; cycles are rejected earlier by topological_sort (ModelError)'])
