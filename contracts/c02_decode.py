"""C02 / C06: contracts on the Python decoders (cursor arithmetic, totality, guards)"""
import z3

from vf.contract import Contract, LoopAnn
from vf.pyvc import SRef, SSeq, SInt, SBytes, SBool, SStr, Ref, OpaqueFn, ByteSeq, Sym, OutOfSubset, PyRaise, ClassInfo
from vf import interp as I
from vf.speclib import spec_int
from .rt_shapes import COMPOSITE, DESCRIPTOR, GENERATORS, SCALAR, SHAPES, ALIGNS, new_fields, sel, field_alignment_spec, _in

PROPHY_ERROR = I.ExcClass('ProphyError', 'Exception')


def only_prophy_error(vm, st, exc_class, exc_args):
    """C06: nothing but ProphyError may escape a decoder"""
    return [('class is ProphyError', exc_class.is_sub('ProphyError'))]


# ------------------------------------------------------------------ numeric_decorator.decode

def num_decode_setup(vm, module, env):
    size = vm.fresh('size')
    vm.assume(_in(size, (1, 2, 4, 8)))
    id_ = SStr(vm.contract.str_const('<id_>'))
    data = SBytes(vm.fresh('data', ByteSeq))
    pos = vm.fresh('pos')
    vm.assume(pos >= 0)                                  # every caller passes a non-negative cursor (C06 invariant)
    e = SStr(vm.contract.str_const('<endianness>'))
    UNPACK = z3.Function('UNPACK', I.StrSort, ByteSeq, z3.IntSort())
    st = {'args': [data, SInt(pos), e], 'data': data, 'pos': pos, 'size': size, 'UNPACK': UNPACK, 'e': e, 'id': id_,
          'closure_env': {'size': SInt(size), 'id_': id_, 'struct': I.ExternalModule('struct'), 'ProphyError': PROPHY_ERROR}}
    vm.state = st
    return st


def num_decode_external(vm, name, args, kwargs):
    if name == 'struct.unpack':
        st = vm.state
        fmt, chunk = args
        # struct.unpack(fmt, b) raises struct.error unless len(b) == calcsize(fmt); calcsize(e + id_) == size is the
        # pairing made by int_decorator/float_decorator (checked concretely: obligation `decorator table`)
        vm.oblige('noexc.struct.error:unpack needs exactly `size` bytes', z3.Length(vm.as_bytes(chunk)) == st['size'], 'noexc', vm.cur_line)
        cat = z3.Function('strcat', I.StrSort, I.StrSort, I.StrSort)
        vm.oblige('call.unpack:format is endianness + id_', vm.as_str(fmt) == cat(st['e'].t, st['id'].t), 'call', vm.cur_line)
        return (SInt(st['UNPACK'](vm.as_str(fmt), vm.as_bytes(chunk))),)
    return NotImplemented


def num_decode_post(vm, st, result):
    data, pos, size = st['data'].t, st['pos'], st['size']
    value, consumed = result
    cat = z3.Function('strcat', I.StrSort, I.StrSort, I.StrSort)
    return [('consumed==size', vm.as_int(consumed) == size),
            ('enough bytes were available', z3.Length(data) - pos >= size),
            ('value==unpack(e+id, data[pos:pos+size])',
             vm.as_int(value) == st['UNPACK'](cat(st['e'].t, st['id'].t), z3.SubSeq(data, pos, size)))]


def num_decode_raises(vm, st, exc_class, exc_args):
    return [('class is ProphyError', exc_class.is_sub('ProphyError')),
            ('only when too few bytes', z3.Length(st['data'].t) - st['pos'] < st['size'])]


Contract(SCALAR, 'numeric_decorator.decode', ['C02', 'C06'], num_decode_setup, num_decode_post, shapes=SHAPES,
         raises=num_decode_raises, hooks={'external': num_decode_external}, modifies=[],
         trusted=['struct.unpack(fmt, b): requires len(b) == calcsize(fmt); inverse of struct.pack'])


# ------------------------------------------------------------------ container_len._decode

def clen_setup(vm, module, env):
    data = SBytes(vm.fresh('data', ByteSeq))
    pos = vm.fresh('pos')
    vm.assume(pos >= 0)
    shift = vm.fresh('bound_shift')
    e = SStr(vm.contract.str_const('<endianness>'))
    raw, size = vm.fresh('raw'), vm.fresh('rawsize')
    vm.assume(_in(size, (1, 2, 4, 8)))
    st = {'args': [data, SInt(pos), e], 'data': data, 'pos': pos, 'shift': shift, 'raw': raw, 'size': size, 'e': e,
          'closure_env': {'bound_shift': SInt(shift), 'sizer_item_type': SizerType(), 'ProphyError': PROPHY_ERROR}}
    vm.state = st
    return st


class SizerType(Sym):
    """the wrapped integer type: only ._decode / ._encode are used"""


def clen_getattr(vm, obj, attr):
    if isinstance(obj, SizerType) and attr in ('_decode', '_encode'):
        return OpaqueFn(obj, attr)
    return NotImplemented


def clen_call(vm, fn, args, kwargs, node):
    if isinstance(fn, OpaqueFn) and fn.attr == '_decode':
        st = vm.state
        vm.oblige('call._decode:same data, cursor and endianness', z3.And(
            vm.as_bytes(args[0]) == st['data'].t, vm.as_int(args[1]) == st['pos'], args[2].t == st['e'].t), 'call', vm.cur_line)
        if vm.choose(2) == 1:
            raise PyRaise(PROPHY_ERROR, ('too few bytes',))       # callee contract: may raise ProphyError only
        return (SInt(st['raw']), SInt(st['size']))
    return NotImplemented


def clen_post(vm, st, result):
    value, size = result
    v = vm.as_int(value)
    return [('value==raw-shift', v == st['raw'] - st['shift']),
            ('0<=value', v >= 0),
            ('raw counter within the array guard', st['raw'] <= 65536),
            ('size passed through', vm.as_int(size) == st['size'])]


def clen_raises(vm, st, exc_class, exc_args):
    return [('class is ProphyError', exc_class.is_sub('ProphyError'))]


Contract(GENERATORS, 'build_container_length_field.container_len._decode', ['C02', 'C06'], clen_setup, clen_post,
         shapes=SHAPES, raises=clen_raises, hooks={'getattr': clen_getattr, 'call': clen_call}, modifies=[])


# ------------------------------------------------------------------ struct._decode_impl

def sdec_setup(vm, module, env):
    vm.contract.divisor_domain = ALIGNS
    cls = env.get('struct')
    self = vm.fresh_ref('self', cls)
    fields = new_fields(vm)
    vm.path.objattrs[(str(self.t), '_descriptor')] = fields
    f, n = fields.fn, fields.length
    j = z3.Int('j')
    rng = lambda x: z3.And(0 <= x, x < n)
    ty = lambda t: sel(vm, 'type', t)
    A = sel(vm, '_ALIGNMENT', self.t)
    vm.assume(_in(A, ALIGNS))
    # wf_class: field alignments are alignments not exceeding the struct's (add_attributes contract: A = max)
    vm.assume(z3.ForAll([j], z3.Implies(rng(j), z3.And(
        _in(sel(vm, '_ALIGNMENT', ty(f(j))), ALIGNS), _in(sel(vm, '_OPTIONAL_ALIGNMENT', ty(f(j))), (4, 8)),
        field_alignment_spec(vm, ty(f(j))) <= A,
        z3.Or(sel(vm, 'partial_alignment#none', f(j)),
              z3.And(_in(sel(vm, 'partial_alignment', f(j)), ALIGNS), sel(vm, 'partial_alignment', f(j)) <= A)))),
        patterns=[f(j)]))
    data = SBytes(vm.fresh('data', ByteSeq))
    pos0 = vm.fresh('pos0')
    vm.assume(pos0 >= 0)
    vm.assume(pos0 % 8 == 0 if False else z3.Or(*[z3.And(A == a, pos0 % a == 0) for a in ALIGNS]))   # caller: cursor aligned to A(cls)
    e = SStr(vm.contract.str_const('<endianness>'))
    terminal = SBool(vm.fresh('terminal', z3.BoolSort()))
    E = z3.Function('E', Ref, z3.IntSort())           # bytes consumed by the field decoder == len(enc(field)) (callee contract)
    LEN = z3.Function('LEN', z3.IntSort(), z3.IntSort())   # len of the spec prefix (same recurrence as struct.encode's PRE)
    vm.assume(LEN(0) == 0)
    st = {'args': [self, data, SInt(pos0), e, terminal], 'self': self, 'fields': fields, 'data': data, 'pos0': pos0, 'e': e,
          'terminal': terminal, 'E': E, 'LEN': LEN, 'A': A, 'closure_env': {}}
    vm.state = st
    vm.path.split_terms.append((A, ALIGNS))
    return st


def sdec_call(vm, fn, args, kwargs, node):
    if isinstance(fn, OpaqueFn) and fn.attr == 'decode_fcn':
        st = vm.state
        field = fn.owner
        vm.oblige('call.decode_fcn:parent is self', args[0].t == st['self'].t, 'call', vm.cur_line)
        vm.oblige('call.decode_fcn:name is field.name', args[1].t == sel(vm, 'name', field.t), 'call', vm.cur_line)
        vm.oblige('call.decode_fcn:type is field.type', args[2].t == sel(vm, 'type', field.t), 'call', vm.cur_line)
        vm.oblige('call.decode_fcn:same data', vm.as_bytes(args[3]) == st['data'].t, 'call', vm.cur_line)
        vm.oblige('call.decode_fcn:endianness passed unchanged', args[5].t == st['e'].t, 'call', vm.cur_line)
        vm.oblige('call.decode_fcn:cursor non-negative', vm.as_int(args[4]) >= 0, 'call', vm.cur_line)
        # the field's own alignment precondition: the cursor it receives is aligned for it
        fa = field_alignment_spec(vm, sel(vm, 'type', field.t))
        vm.oblige('call.decode_fcn:cursor aligned to the field alignment', vm.as_int(args[4]) % fa == 0, 'call', vm.cur_line)
        if vm.choose(2) == 1:
            raise PyRaise(PROPHY_ERROR, ('...',))
        r = st['E'](field.t)
        vm.assume(r >= 0)
        return SInt(r)
    return NotImplemented


def sdec_getattr(vm, obj, attr):
    if isinstance(obj, SRef) and attr == '__class__' and isinstance(obj.cls, ClassInfo):
        return obj.cls
    return NotImplemented


def sdec_unfold(vm, env, k):
    st = vm.state
    f, LEN, E = st['fields'].fn, st['LEN'], st['E']
    ty = lambda t: sel(vm, 'type', t)
    l0 = LEN(k)
    p1 = spec_int(vm, 'pad_to', SInt(l0), SInt(field_alignment_spec(vm, ty(f(k)))))
    l1 = l0 + p1 + E(f(k))
    pa = sel(vm, 'partial_alignment', f(k))
    has_pa = z3.And(z3.Not(sel(vm, 'partial_alignment#none', f(k))), pa != 0)
    p2 = z3.If(has_pa, spec_int(vm, 'pad_to', SInt(l1), SInt(z3.If(has_pa, pa, 1))), 0)
    vm.path.split_terms.append((field_alignment_spec(vm, ty(f(k))), ALIGNS))
    return [LEN(k + 1) == l1 + p2, E(f(k)) >= 0]


def sdec_inv(vm, env, k):
    st = vm.state
    pos = vm.as_int(env.get('pos'))
    return [('pos-start_pos==len(spec prefix k)', pos - st['pos0'] == st['LEN'](k)),
            ('start_pos kept', vm.as_int(env.get('start_pos')) == st['pos0']),
            ('LEN(k)>=0', st['LEN'](k) >= 0)]


def sdec_post(vm, st, result):
    n = st['fields'].length
    total = st['LEN'](n) + spec_int(vm, 'pad_to', SInt(st['LEN'](n)), SInt(st['A']))
    r = vm.as_int(result)
    return [('consumed==len(enc(struct))', r == total),
            ('terminal => whole input consumed', z3.Implies(st['terminal'].t, st['pos0'] + r >= z3.Length(st['data'].t)))]


Contract(COMPOSITE, 'struct._decode_impl', ['C02', 'C06'], sdec_setup, sdec_post, shapes=SHAPES,
         raises=only_prophy_error, hooks={'call': sdec_call, 'getattr': sdec_getattr}, modifies=[],
         loops={0: LoopAnn(sdec_inv, index='k', unfold=sdec_unfold)},
         notes=['requires the start cursor aligned to A(cls) (call-site obligation of every caller)',
                'field decoders by contract: consume len(enc(field)) bytes or raise ProphyError'])


# ------------------------------------------------------------------ descriptor.decode_optional

class OpaqueType(Sym):
    def __init__(self, tag):
        self.tag = tag


def decopt_setup(vm, module, env):
    type_ = vm.fresh_ref('type_', None)
    t = type_.t
    vm.assume(z3.And(_in(sel(vm, '_OPTIONAL_ALIGNMENT', t), (4, 8)), sel(vm, '_SIZE', t) >= 0,
                     sel(vm, '_OPTIONAL_SIZE', t) == sel(vm, '_OPTIONAL_ALIGNMENT', t) + sel(vm, '_SIZE', t)))
    parent = vm.fresh_ref('parent', None)
    name = SStr(vm.contract.str_const('<name>'))
    data = SBytes(vm.fresh('data', ByteSeq))
    pos = vm.fresh('pos')
    vm.assume(pos >= 0)
    e = SStr(vm.contract.str_const('<endianness>'))
    hints = LenHints()
    st = {'args': [parent, name, type_, data, SInt(pos), e, hints], 'type': type_, 'parent': parent, 'name': name, 'data': data,
          'pos': pos, 'e': e, 'hints': hints, 'FLAG': vm.fresh('flag'), 'BASECONS': vm.fresh('basecons'),
          'ISCOMP': vm.fresh('iscomposite', z3.BoolSort()), 'stores': [], 'closure_env': {}}
    vm.assume(st['BASECONS'] >= 0)
    vm.state = st
    return st


class LenHints(Sym):
    """the len_hints dict threaded through the field decoders (opaque here)"""


def decopt_getattr(vm, obj, attr):
    st = vm.state
    if isinstance(obj, SRef) and obj.t.eq(st['type'].t):
        if attr == '_optional_type':
            return OpaqueType('u32')
        if attr == '__bases__':
            return (OpaqueType('base'),)
        if attr == '_decode':
            return OpaqueFn(obj, '_decode')
    if isinstance(obj, OpaqueType) and attr == '_decode':
        return OpaqueFn(obj, '_decode')
    return NotImplemented


def decopt_issubclass(vm, x, c):
    if isinstance(x, OpaqueType) and x.tag == 'base':
        return SBool(vm.state['ISCOMP'])
    return NotImplemented


def decopt_call(vm, fn, args, kwargs, node):
    st = vm.state
    if isinstance(fn, OpaqueFn) and fn.attr == '_decode':
        if isinstance(fn.owner, OpaqueType):         # flag: u32._decode(data, pos, e)
            vm.oblige('call.flag decode:(data, pos, endianness)', z3.And(
                vm.as_bytes(args[0]) == st['data'].t, vm.as_int(args[1]) == st['pos'], args[2].t == st['e'].t), 'call', vm.cur_line)
            if vm.choose(2) == 1:
                raise PyRaise(PROPHY_ERROR, ('too few bytes',))
            return (SInt(st['FLAG']), 4)
        # base decoder: type_._decode(parent, name, sub_type, data, pos + A_opt, e, len_hints)
        oa = sel(vm, '_OPTIONAL_ALIGNMENT', st['type'].t)
        vm.oblige('call.base decode:(parent, name, base type, data, pos + optional alignment, endianness, len_hints)', z3.And(
            args[0].t == st['parent'].t, args[1].t == st['name'].t, isinstance(args[2], OpaqueType) and args[2].tag == 'base',
            vm.as_bytes(args[3]) == st['data'].t, vm.as_int(args[4]) == st['pos'] + oa, args[5].t == st['e'].t,
            args[6] is st['hints']), 'call', vm.cur_line)
        st['stores'].append(('basedecode',))
        if vm.choose(2) == 1:
            raise PyRaise(PROPHY_ERROR, ('...',))
        return SInt(st['BASECONS'])
    return NotImplemented


def decopt_setattr_dyn(vm, obj, name, val):
    st = vm.state
    ok = isinstance(obj, SRef) and obj.t.eq(st['parent'].t) and name.t.eq(st['name'].t)
    vm.oblige('call.setattr:(parent, name)', ok, 'call', vm.cur_line)
    st['stores'].append(('set', val))
    return None


def decopt_post(vm, st, result):
    t = st['type'].t
    oa = sel(vm, '_OPTIONAL_ALIGNMENT', t)
    if not isinstance(result, (SInt, int)) or isinstance(result, bool):
        # the caller adds the result to its cursor: anything but a number escapes decode as a TypeError (C06)
        return [('returns the number of bytes consumed, for every value of the presence flag', z3.BoolVal(False))]
    r = vm.as_int(result)
    stores = st['stores']
    present = st['FLAG'] != 0
    seq_present_comp = stores == [('set', True), ('basedecode',)]
    seq_present_scal = stores == [('basedecode',)]
    seq_absent = stores == [('set', None)]
    return [('present: consumed == A_opt + base', z3.Implies(present, r == oa + st['BASECONS'])),
            ('absent: consumed == optional size', z3.Implies(z3.Not(present), r == sel(vm, '_OPTIONAL_SIZE', t))),
            ('present composite: marked present, then decoded', z3.Implies(z3.And(present, st['ISCOMP']), seq_present_comp)),
            ('present scalar: only the base decoder stores the value', z3.Implies(z3.And(present, z3.Not(st['ISCOMP'])), seq_present_scal)),
            ('absent: field set to None', z3.Implies(z3.Not(present), seq_absent))]


Contract(DESCRIPTOR, 'decode_optional', ['C02', 'C06'], decopt_setup, decopt_post, shapes=SHAPES, raises=only_prophy_error,
         hooks={'getattr': decopt_getattr, 'call': decopt_call, 'issubclass': decopt_issubclass, 'setattr_dyn': decopt_setattr_dyn},
         modifies=[])


# ------------------------------------------------------------------ union._decode_impl / _get_discriminated_field

def udec_setup(vm, module, env):
    cls = env.get('union')
    self = vm.fresh_ref('self', cls)
    s = self.t
    fields = new_fields(vm)
    vm.path.objattrs[(str(s), '_descriptor')] = fields
    vm.assume(z3.And(_in(sel(vm, '_ALIGNMENT', s), (4, 8)), sel(vm, '_SIZE', s) >= sel(vm, '_ALIGNMENT', s)))
    data = SBytes(vm.fresh('data', ByteSeq))
    pos = vm.fresh('pos')
    vm.assume(pos >= 0)
    e = SStr(vm.contract.str_const('<endianness>'))
    terminal = SBool(vm.fresh('terminal', z3.BoolSort()))
    st = {'args': [self, data, SInt(pos), e, terminal], 'self': self, 'fields': fields, 'data': data, 'pos': pos, 'e': e,
          'terminal': terminal, 'DISC': vm.fresh('disc'), 'called': [], 'closure_env': {}}
    vm.state = st
    return st


def udec_getattr(vm, obj, attr):
    st = vm.state
    if isinstance(obj, SRef) and obj.t.eq(st['self'].t) and attr == '_discriminator_type':
        return OpaqueType('u32')
    if isinstance(obj, OpaqueType) and attr == '_decode':
        return OpaqueFn(obj, '_decode')
    if isinstance(obj, SRef) and attr == '__class__' and isinstance(obj.cls, ClassInfo):
        return obj.cls
    return NotImplemented


def udec_call(vm, fn, args, kwargs, node):
    st = vm.state
    if isinstance(fn, OpaqueFn) and fn.attr == '_decode' and isinstance(fn.owner, OpaqueType):
        vm.oblige('call.discriminator decode:(data, pos, endianness)', z3.And(
            vm.as_bytes(args[0]) == st['data'].t, vm.as_int(args[1]) == st['pos'], args[2].t == st['e'].t), 'call', vm.cur_line)
        if vm.choose(2) == 1:
            raise PyRaise(PROPHY_ERROR, ('too few bytes',))
        return (SInt(st['DISC']), 4)
    if isinstance(fn, OpaqueFn) and fn.attr == 'decode_fcn':
        field = fn.owner
        A = sel(vm, '_ALIGNMENT', st['self'].t)
        vm.oblige('call.decode_fcn:(self, name, type, data, pos + A(union), endianness, fresh hints)', z3.And(
            args[0].t == st['self'].t, args[1].t == sel(vm, 'name', field.t), args[2].t == sel(vm, 'type', field.t),
            vm.as_bytes(args[3]) == st['data'].t, vm.as_int(args[4]) == st['pos'] + A, args[5].t == st['e'].t,
            isinstance(args[6], dict) and not args[6]), 'call', vm.cur_line)
        st['called'].append(field)
        if vm.choose(2) == 1:
            raise PyRaise(PROPHY_ERROR, ('...',))
        return SInt(vm.fresh('armcons'))
    return NotImplemented


def udec_loop_inv(vm, env, k):
    """_get_discriminated_field: no earlier arm has the decoded discriminator"""
    st = vm.state
    f = st['fields'].fn
    j = z3.Int('j')
    return [('no earlier arm matches', z3.ForAll([j], z3.Implies(z3.And(0 <= j, j < k), sel(vm, 'discriminator', f(j)) != st['DISC']),
                                               patterns=[f(j)]))]


def udec_post(vm, st, result):
    s = st['self'].t
    f, n = st['fields'].fn, st['fields'].length
    j = z3.Int('j')
    d = z3.Select(vm.heap_array('_discriminated'), s)
    avail = z3.Length(st['data'].t) - st['pos']
    called = st['called']
    return [('consumed == S(union)', vm.as_int(result) == sel(vm, '_SIZE', s)),
            ('enough bytes for the whole slot', avail >= sel(vm, '_SIZE', s)),
            ('terminal => nothing left', z3.Implies(st['terminal'].t, avail == sel(vm, '_SIZE', s))),
            ('discriminated arm has the decoded discriminator', sel(vm, 'discriminator', d) == st['DISC']),
            ('it is the first such arm of the descriptor', z3.Exists([j], z3.And(0 <= j, j < n, f(j) == d))),
            ('exactly the discriminated arm was decoded', len(called) == 1 and called[0].t == d)]


Contract(COMPOSITE, 'union._decode_impl', ['C02', 'C06'], udec_setup, udec_post, shapes=SHAPES, raises=only_prophy_error,
         hooks={'getattr': udec_getattr, 'call': udec_call}, modifies=['_discriminated'],
         loops={('union._get_discriminated_field', 0): LoopAnn(udec_loop_inv, index='k')})
