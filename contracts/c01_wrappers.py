"""C01 / C02 / C06 / C19: the per-kind field codecs of prophy/descriptor.py (thin wrappers: the obligations are the call-site
ones -- right callee, right arguments, the caller's endianness and cursor -- and `result is the callee's result`),
numeric_decorator.encode, container_len._encode / evaluate_size, distance_to_next_multiply, _bytes._decode / _check"""
import z3

from vf.contract import Contract, LoopAnn
from vf.pyvc import SRef, SSeq, SInt, SOpt, SBytes, SBool, SStr, Ref, OpaqueFn, ByteSeq, Sym, OutOfSubset, PyRaise, ClassInfo
from vf import interp as I
from vf.speclib import spec_int
from .rt_shapes import COMPOSITE, DESCRIPTOR, GENERATORS, SCALAR, SHAPES, ALIGNS, sel, _in
from .c01_encode import zeros, e_const, OpaqueType, AnyValue
from .c02_decode import PROPHY_ERROR, only_prophy_error, LenHints

RT = dict(SHAPES)


class Opaque(Sym):
    def __init__(self, tag):
        self.tag = tag


def _fn_getattr(names):
    def hook(vm, obj, attr):
        if isinstance(obj, (Opaque, OpaqueType)) and attr in names:
            return OpaqueFn(obj, attr)
        return NotImplemented
    return hook


# ------------------------------------------------------------------ encode_* wrappers

def enc_wrapper(fname, callee_owner, callee_attr, expect):
    """expect(args_of_wrapper) -> expected callee args (compared structurally)"""
    def setup(vm, module, env):
        parent, type_, value, e = Opaque('parent'), Opaque('type_'), Opaque('value'), e_const(vm)
        R = SBytes(vm.fresh('callee_result', ByteSeq))
        st = {'args': [parent, type_, value, e], 'parent': parent, 'type_': type_, 'value': value, 'e': e, 'R': R, 'calls': [],
              'closure_env': {}}
        vm.state = st
        return st

    def call(vm, fn, args, kwargs, node):
        st = vm.state
        if isinstance(fn, OpaqueFn) and fn.attr == callee_attr and fn.owner is st[callee_owner]:
            want = expect(st)
            ok = len(args) == len(want) and all((a is w) or (getattr(a, 't', None) is not None and getattr(w, 't', None) is not None
                                                              and a.t.eq(w.t)) for a, w in zip(args, want))
            vm.oblige('call.%s.%s:arguments' % (callee_owner, callee_attr), ok, 'call', vm.cur_line)
            st['calls'].append(1)
            return st['R']
        return NotImplemented

    def post(vm, st, result):
        return [('result is the callee result', result is st['R']), ('exactly one call', len(st['calls']) == 1)]

    Contract(DESCRIPTOR, fname, ['C01', 'C19'], setup, post, shapes=RT, modifies=[],
             hooks={'getattr': _fn_getattr((callee_attr,)), 'call': call})


enc_wrapper('encode_array', 'value', '_encode_impl', lambda st: [st['e']])
enc_wrapper('encode_composite', 'value', 'encode', lambda st: [st['e']])
enc_wrapper('encode_bytes', 'type_', '_encode', lambda st: [st['value']])
enc_wrapper('encode_scalar', 'type_', '_encode', lambda st: [st['value'], st['e']])


# encode_array_delimiter(parent, type_, _, endianness): type_._encode(type_.evaluate_size(parent), endianness)

def ead_setup(vm, module, env):
    parent, type_, e = Opaque('parent'), Opaque('type_'), e_const(vm)
    st = {'args': [parent, type_, Opaque('ignored'), e], 'parent': parent, 'type_': type_, 'e': e, 'N': SInt(vm.fresh('count')),
          'R': SBytes(vm.fresh('callee_result', ByteSeq)), 'calls': [], 'closure_env': {}}
    vm.state = st
    return st


def ead_call(vm, fn, args, kwargs, node):
    st = vm.state
    if isinstance(fn, OpaqueFn) and fn.owner is st['type_']:
        if fn.attr == 'evaluate_size':
            vm.oblige('call.evaluate_size:(parent)', len(args) == 1 and args[0] is st['parent'], 'call', vm.cur_line)
            if vm.choose(2) == 1:
                raise PyRaise(PROPHY_ERROR, ('Size mismatch of arrays',))
            st['calls'].append('size')
            return st['N']
        if fn.attr == '_encode':
            vm.oblige('call._encode:(the evaluated count, endianness)', len(args) == 2 and args[0] is st['N'] and args[1].t.eq(st['e'].t),
                      'call', vm.cur_line)
            st['calls'].append('enc')
            return st['R']
    return NotImplemented


Contract(DESCRIPTOR, 'encode_array_delimiter', ['C01', 'C19'], ead_setup,
         lambda vm, st, result: [('counter = encode(evaluate_size(parent))', result is st['R'] and st['calls'] == ['size', 'enc'])],
         shapes=RT, modifies=[], raises=only_prophy_error,
         hooks={'getattr': _fn_getattr(('evaluate_size', '_encode')), 'call': ead_call})


# ------------------------------------------------------------------ decode_* wrappers

def dec_setup(vm, module, env):
    parent, type_ = Opaque('parent'), Opaque('type_')
    name = SStr(vm.contract.str_const('<name>'))
    data = SBytes(vm.fresh('data', ByteSeq))
    pos = SInt(vm.fresh('pos'))
    e = e_const(vm)
    hints = LenHints()
    st = {'args': [parent, name, type_, data, pos, e, hints], 'parent': parent, 'name': name, 'type_': type_, 'data': data,
          'pos': pos, 'e': e, 'hints': hints, 'R': SInt(vm.fresh('consumed')), 'V': Opaque('decoded value'), 'events': [],
          'target': Opaque('getattr(parent, name)'), 'HINT': Opaque('len_hints.get(name)'), 'closure_env': {}}
    vm.state = st
    return st


def _same(a, w):
    return (a is w) or (getattr(a, 't', None) is not None and getattr(w, 't', None) is not None and a.t.eq(w.t))


def dec_getattr_dyn(vm, obj, name, *default):
    st = vm.state
    vm.oblige('call.getattr:(parent, name)', obj is st['parent'] and name.t.eq(st['name'].t), 'call', vm.cur_line)
    return st['target']


def dec_setattr_dyn(vm, obj, name, val):
    st = vm.state
    vm.oblige('call.setattr:(parent, name, decoded value)', obj is st['parent'] and name.t.eq(st['name'].t) and val is st['V'],
              'call', vm.cur_line)
    st['events'].append('store')
    return None


def dec_method(vm, obj, name, args, kwargs):
    st = vm.state
    if obj is st['hints'] and name == 'get':
        vm.oblige('call.len_hints.get:(name)', len(args) == 1 and args[0].t.eq(st['name'].t), 'call', vm.cur_line)
        return st['HINT']
    return NotImplemented


def dec_hook_getattr(vm, obj, attr):
    st = vm.state
    if obj is st['hints'] and attr == 'get':
        return I.MethodOf(obj, 'get')
    if isinstance(obj, Opaque) and attr in ('_decode', '_decode_impl'):
        return OpaqueFn(obj, attr)
    return NotImplemented


def dec_wrapper(fname, owner, attr, want_args, want_kwargs, returns_pair, stores):
    def call(vm, fn, args, kwargs, node):
        st = vm.state
        if isinstance(fn, OpaqueFn) and fn.attr == attr and fn.owner is st[owner]:
            want = want_args(st)
            ok = len(args) == len(want) and all(_same(a, w) for a, w in zip(args, want)) and kwargs == want_kwargs
            vm.oblige('call.%s.%s:arguments (same data, cursor, endianness)' % (owner, attr), ok, 'call', vm.cur_line)
            st['events'].append('decode')
            if vm.choose(2) == 1:
                raise PyRaise(PROPHY_ERROR, ('...',))
            return (st['V'], st['R']) if returns_pair else st['R']
        return NotImplemented

    def post(vm, st, result):
        return [('consumed is what the callee consumed', result is st['R']),
                ('decode then %s' % ('store the value in the field' if stores else 'nothing else'),
                 st['events'] == (['decode', 'store'] if stores else ['decode']))]

    Contract(DESCRIPTOR, fname, ['C02', 'C06'], dec_setup, post, shapes=RT, modifies=[], raises=only_prophy_error,
             hooks={'getattr': dec_hook_getattr, 'call': call, 'getattr_dyn': dec_getattr_dyn, 'setattr_dyn': dec_setattr_dyn,
                    'method': dec_method})


dec_wrapper('decode_scalar', 'type_', '_decode', lambda st: [st['data'], st['pos'], st['e']], {}, True, True)
dec_wrapper('decode_bytes', 'type_', '_decode', lambda st: [st['data'], st['pos'], st['HINT']], {}, True, True)
dec_wrapper('decode_array', 'target', '_decode_impl', lambda st: [st['data'], st['pos'], st['e'], st['HINT']], {}, False, False)
dec_wrapper('decode_composite', 'target', '_decode_impl', lambda st: [st['data'], st['pos'], st['e']], {'terminal': False}, False, False)


# ------------------------------------------------------------------ distance_to_next_multiply

def dtnm_setup(vm, module, env):
    vm.contract.divisor_domain = ALIGNS
    n, a = vm.fresh('number'), vm.fresh('alignment')
    vm.assume(z3.And(n >= 0, _in(a, ALIGNS)))
    return {'args': [SInt(n), SInt(a)], 'n': n, 'a': a, 'closure_env': {}}


Contract(COMPOSITE, 'distance_to_next_multiply', ['C01', 'C02', 'C04'], dtnm_setup,
         lambda vm, st, r: [('== pad_to(number, alignment)', vm.as_int(r) == spec_int(vm, 'pad_to', SInt(st['n']), SInt(st['a']))),
                            ('0 <= r < alignment and (number + r) % alignment == 0',
                             z3.And(vm.as_int(r) >= 0, vm.as_int(r) < st['a'], z3.Or(*[z3.And(st['a'] == d, (st['n'] + vm.as_int(r)) % d == 0) for d in ALIGNS])))],
         shapes=RT, modifies=[])


# ------------------------------------------------------------------ numeric_decorator.encode

def nenc_setup(vm, module, env):
    id_ = SStr(vm.contract.str_const('<id_>'))
    value, e = Opaque('value'), e_const(vm)
    st = {'args': [value, e], 'value': value, 'e': e, 'id': id_, 'R': SBytes(vm.fresh('packed', ByteSeq)), 'calls': [],
          'closure_env': {'id_': id_, 'struct': I.ExternalModule('struct')}}
    vm.state = st
    return st


def nenc_external(vm, name, args, kwargs):
    st = vm.state
    if name == 'struct.pack':
        cat = z3.Function('strcat', I.StrSort, I.StrSort, I.StrSort)
        vm.oblige('call.pack:format is endianness + id_, on the value', z3.And(
            vm.as_str(args[0]) == cat(st['e'].t, st['id'].t), len(args) == 2 and args[1] is st['value']), 'call', vm.cur_line)
        st['calls'].append(1)
        return st['R']
    return NotImplemented


Contract(SCALAR, 'numeric_decorator.encode', ['C01', 'C19'], nenc_setup,
         lambda vm, st, r: [('result == struct.pack(endianness + id_, value)', r is st['R'] and len(st['calls']) == 1)],
         shapes=RT, modifies=[], hooks={'external': nenc_external},
         trusted=['struct.pack(e + id, x): little/big-endian two\'s complement / IEEE bytes of x; struct.error outside the range'])


# ------------------------------------------------------------------ container_len._encode

def clenc_setup(vm, module, env):
    shift = vm.fresh('bound_shift')
    value, e = SInt(vm.fresh('value')), e_const(vm)
    sizer = Opaque('sizer_item_type')
    st = {'args': [value, e], 'value': value, 'e': e, 'shift': shift, 'sizer': sizer, 'R': SBytes(vm.fresh('packed', ByteSeq)),
          'sent': [], 'closure_env': {'bound_shift': SInt(shift), 'sizer_item_type': sizer}}
    vm.state = st
    return st


def clenc_call(vm, fn, args, kwargs, node):
    st = vm.state
    if isinstance(fn, OpaqueFn) and fn.attr == '_encode' and fn.owner is st['sizer']:
        vm.oblige('call.sizer _encode:(value + shift, endianness)', z3.And(vm.as_int(args[0]) == st['value'].t + st['shift'],
                                                                             args[1].t == st['e'].t), 'call', vm.cur_line)
        st['sent'].append(1)
        return st['R']
    return NotImplemented


Contract(GENERATORS, 'build_container_length_field.container_len._encode', ['C01', 'C19'], clenc_setup,
         lambda vm, st, r: [('counter on the wire == element count + shift', r is st['R'] and len(st['sent']) == 1)],
         shapes=RT, modifies=[], hooks={'getattr': _fn_getattr(('_encode',)), 'call': clenc_call})


# ------------------------------------------------------------------ bytes_._bytes._decode (four modes) and _check

def bdec_setup(vm, module, env):
    size = vm.fresh('size')
    vm.assume(size >= 0)
    bound = SBool(vm.fresh('bound', z3.BoolSort()))          # truthiness of the `bound` closure variable (a name or None)
    data = SBytes(vm.fresh('data', ByteSeq))
    pos = vm.fresh('pos')
    vm.assume(pos >= 0)
    hint = SOpt(vm.fresh('hint#none', z3.BoolSort()), vm.fresh('hint'))
    # wf_sizers: a bound bytes field always receives its length hint (>= 0, container_len._decode contract)
    vm.assume(z3.Implies(bound.t, z3.And(z3.Not(hint.isnone), hint.val >= 0)))
    st = {'args': [data, SInt(pos), hint], 'data': data, 'pos': pos, 'hint': hint, 'size': size, 'bound': bound,
          'closure_env': {'size': SInt(size), 'bound': bound, 'ProphyError': PROPHY_ERROR}}
    return st


def bdec_post(vm, st, result):
    value, consumed = result
    d, pos, size, hint, bound = st['data'].t, st['pos'], st['size'], st['hint'].val, st['bound'].t
    v, c = vm.as_bytes(value), vm.as_int(consumed)
    avail = z3.Length(d) - pos
    fixed = z3.And(size > 0, z3.Not(bound))
    limited = z3.And(size > 0, bound)
    dynamic = z3.And(size == 0, bound)
    greedy = z3.And(size == 0, z3.Not(bound))
    return [('fixed: exactly size bytes, consumes size', z3.Implies(fixed, z3.And(v == z3.SubSeq(d, pos, size), c == size, avail >= size))),
            ('limited: first len_hint bytes of a size-byte slot', z3.Implies(limited, z3.And(c == size, avail >= size,
                                                                        v == z3.SubSeq(d, pos, z3.If(hint < 0, 0, hint))))),
            ('dynamic: len_hint bytes, all available', z3.Implies(dynamic, z3.And(c == hint, avail >= hint, v == z3.SubSeq(d, pos, hint)))),
            ('greedy: the rest of the input', z3.Implies(greedy, z3.And(c == avail, v == z3.SubSeq(d, pos, z3.If(avail < 0, 0, avail)))))]


Contract(COMPOSITE, 'bytes_._bytes._decode', ['C02', 'C06'], bdec_setup, bdec_post, shapes=RT, modifies=[], raises=only_prophy_error,
         notes=['limited bytes: a hint larger than the slot is cut by the slice and then rejected by _check (too long)'])


def bchk_setup(vm, module, env):
    size = vm.fresh('size')
    vm.assume(size >= 0)
    bound = SBool(vm.fresh('bound', z3.BoolSort()))
    isbytes = vm.fresh('isbytes', z3.BoolSort())
    value = MaybeBytes(vm, isbytes)
    st = {'args': [value], 'value': value, 'isbytes': isbytes, 'size': size, 'bound': bound,
          'closure_env': {'size': SInt(size), 'bound': bound, 'ProphyError': PROPHY_ERROR}}
    vm.state = st
    return st


class MaybeBytes(SBytes):
    """an arbitrary argument: a bytes object (then it has content) or anything else"""

    def __init__(self, vm, isbytes):
        SBytes.__init__(self, vm.fresh('value', ByteSeq))
        self.isbytes = isbytes


def bchk_isinstance(vm, x, c):
    if isinstance(x, MaybeBytes):
        return SBool(x.isbytes)
    return NotImplemented


def bchk_post(vm, st, result):
    v, size, bound = st['value'].t, st['size'], st['bound'].t
    r = vm.as_bytes(result)
    return [('accepted only bytes within the size', z3.And(st['isbytes'], z3.Implies(size > 0, z3.Length(v) <= size))),
            ('fixed bytes are zero-filled to size, others stored as given',
             r == z3.If(z3.And(size > 0, z3.Not(bound)), z3.Concat(v, zeros(vm, size - z3.Length(v))), v))]


def bchk_raises(vm, st, exc_class, exc_args):
    v, size = st['value'].t, st['size']
    return [('class is ProphyError', exc_class.is_sub('ProphyError')),
            ('rejected only a non-bytes or an over-long value', z3.Or(z3.Not(st['isbytes']), z3.And(size > 0, z3.Length(v) > size)))]


Contract(COMPOSITE, 'bytes_._bytes._check', ['C10', 'C02', 'C06'], bchk_setup, bchk_post, shapes=RT, modifies=[], raises=bchk_raises,
         hooks={'isinstance': bchk_isinstance})


# ------------------------------------------------------------------ decode_array_delimiter

def dad_setup(vm, module, env):
    parent, type_ = Opaque('parent'), Opaque('type_')
    data, pos, e = SBytes(vm.fresh('data', ByteSeq)), SInt(vm.fresh('pos')), e_const(vm)
    names = ['<array a>', '<array b>']                       # type_._BOUND: the arrays bound to this sizer (any finite list)
    bound = [SStr(vm.contract.str_const(n)) for n in names]
    hints = {}
    st = {'args': [parent, Opaque('name'), type_, data, pos, e, hints], 'type_': type_, 'data': data, 'pos': pos, 'e': e,
          'hints': hints, 'bound': bound, 'V': SInt(vm.fresh('count')), 'R': SInt(vm.fresh('size')), 'closure_env': {'ProphyError': PROPHY_ERROR}}
    vm.state = st
    return st


def dad_getattr(vm, obj, attr):
    st = vm.state
    if obj is st['type_'] and attr == '_decode':
        return OpaqueFn(obj, '_decode')
    if obj is st['type_'] and attr == '_BOUND':
        return list(st['bound'])
    return NotImplemented


def dad_call(vm, fn, args, kwargs, node):
    st = vm.state
    if isinstance(fn, OpaqueFn) and fn.attr == '_decode':
        vm.oblige('call._decode:(data, pos, endianness)', len(args) == 3 and args[0] is st['data'] and args[1] is st['pos']
                  and args[2].t.eq(st['e'].t), 'call', vm.cur_line)
        if vm.choose(2) == 1:
            raise PyRaise(PROPHY_ERROR, ('...',))
        return (st['V'], st['R'])
    return NotImplemented


def dad_setitem(vm, obj, idx, val):
    st = vm.state
    if obj is st['hints']:
        obj[str(idx.t)] = val
        return None
    return NotImplemented


def dad_post(vm, st, result):
    want = {str(b.t): st['V'] for b in st['bound']}
    return [('consumed is the counter size', result is st['R']),
            ('every bound array gets the decoded count as its length hint', set(st['hints']) == set(want)
             and all(st['hints'][k] is st['V'] for k in want)),
            ('count is non-negative', st['V'].t >= 0)]


Contract(DESCRIPTOR, 'decode_array_delimiter', ['C02', 'C06'], dad_setup, dad_post, shapes=RT, modifies=[], raises=only_prophy_error,
         hooks={'getattr': dad_getattr, 'call': dad_call, 'setitem': dad_setitem},
         notes=['checked for a sizer bound to two arrays (the loop over type_._BOUND is unrolled; any finite list behaves alike)'])
