"""C12: rule breakers are rejected -- prophyc.model.validate_composability (every front-end goes through it) and the
parser-side checks, against the composability rules of docs/schema.rst / docs/encoding.rst"""
import z3

from vf.contract import Contract, LoopAnn
from vf.pyvc import SRef, SOptRef, SOptStr, SSeq, SInt, SOpt, SBool, SStr, STruth, Ref, OpaqueFn, Sym, OutOfSubset, PyRaise, ClassInfo, StrSort
from vf import interp as I
from .model_shapes import MODEL, new_members, model_class

SH = {
    'alignment': 'opt', 'byte_size': 'opt', 'padding': 'opt', 'numeric_size': 'opt',
    'kind': 'int', 'bound': 'optstr', 'size': 'optstr', 'greedy': 'bool', 'optional': 'bool',
    '_value': 'obj', 'definition': ('optref', None), 'name': 'str',
}

STARTS_UI = z3.Function('STARTS_UI', StrSort, z3.BoolSort())       # type_name[:1] in "ui"
IS_BUILTIN = z3.Function('IS_BUILTIN', StrSort, z3.BoolSort())     # type_name in BUILTIN_SIZES
TYPENAME = z3.Function('TYPENAME', Ref, StrSort)
TD_RANK = z3.Function('TD_RANK2', Ref, z3.IntSort())


class TypeName(Sym):
    def __init__(self, t):
        self.t = t


class Prefix1(Sym):
    def __init__(self, t):
        self.t = t


def vc_setup(vm, module, env):
    node = vm.fresh_ref('node', model_class(vm, module, 'Struct'))
    members = new_members(vm, module, 'StructMember')
    vm.path.objattrs[(str(node.t), '_value')] = members
    f, n = members.fn, members.length
    j = z3.Int('j')
    H = lambda a, t: z3.Select(vm.heap_array(a), t)
    vm.load(node, 'bound')    # declare optstr sorts
    vm.load(node, 'size')
    vm.assume(z3.ForAll([j], z3.Implies(z3.And(0 <= j, j < n), z3.Or(*[H('kind', f(j)) == v for v in (0, 1, 2)])), patterns=[f(j)]))
    # StructMember.__init__ assertion: at most one of (bound or size), greedy, optional
    td = model_class(vm, module, 'Typedef')
    subs = [c for c in vm.known_classes() if c.is_subclass(td)]
    is_td = lambda t: z3.Or(*[vm.clsid(t) == vm.class_id(c) for c in subs])
    r = z3.Const('r', Ref)
    dn, d = vm.heap_array('definition#none'), vm.heap_array('definition')
    vm.assume(z3.ForAll([r], z3.And(TD_RANK(r) >= 0, z3.Implies(z3.And(is_td(r), z3.Not(z3.Select(dn, r))),
                                                               TD_RANK(z3.Select(d, r)) < TD_RANK(r))), patterns=[TD_RANK(r)]))
    consts = Opaque('constants')
    st = {'args': [[node], consts], 'node': node, 'members': members, 'is_td': is_td, 'closure_env': {}}
    vm.state = st
    return st


class Opaque(Sym):
    def __init__(self, tag):
        self.tag = tag


def vc_hooks():
    def getattr_(vm, obj, attr):
        if isinstance(obj, SRef) and attr == 'type_name':
            return TypeName(TYPENAME(obj.t))
        return NotImplemented

    def slice_(vm, obj, lo, hi):
        if isinstance(obj, TypeName) and lo is None and hi == 1:
            return Prefix1(obj.t)
        return NotImplemented

    def contains(vm, container, item):
        if isinstance(item, Prefix1) and container == 'ui':
            return SBool(STARTS_UI(item.t))
        if isinstance(item, TypeName) and isinstance(container, dict):
            return SBool(IS_BUILTIN(item.t))
        return NotImplemented

    def index(vm, obj, idx):
        # name[0]: unlike name[:1] it raises IndexError on an empty name (isar passes type="" through)
        if isinstance(obj, TypeName) and idx == 0:
            from vf.pyvc import NONEMPTY
            if vm.decide(NONEMPTY(obj.t)):
                return Prefix1(obj.t)
            raise PyRaise(I.ExcClass('IndexError'), ('string index out of range',))
        return NotImplemented

    return {'getattr': getattr_, 'slice': slice_, 'contains': contains, 'index': index}


def _props(vm, st):
    f, n = st['members'].fn, st['members'].length
    H = lambda a, t: z3.Select(vm.heap_array(a), t)
    from vf.pyvc import NONEMPTY
    truthy_s = lambda a, t: z3.And(z3.Not(H(a + '#none', t)), NONEMPTY(H(a, t)))
    return f, n, H, truthy_s


FM = z3.Function('FIRST_NAMED', z3.IntSort(), z3.IntSort())    # ghost: index of the first member before j named like j's bound, or -1


def fm_axiom(vm, st):
    f, n, H, ts = _props(vm, st)
    j, i = z3.Ints('jm im')
    named = lambda x, y: z3.And(z3.Not(H('bound#none', f(y))), H('name', f(x)) == H('bound', f(y)))
    some = z3.Exists([i], z3.And(0 <= i, i < j, named(i, j)), patterns=[f(i)])
    least = z3.And(0 <= FM(j), FM(j) < j, named(FM(j), j), z3.ForAll([i], z3.Implies(z3.And(0 <= i, i < FM(j)), z3.Not(named(i, j))),
                                                                  patterns=[f(i)]))
    return z3.ForAll([j], z3.Implies(z3.And(0 <= j, j < n), z3.If(some, least, FM(j) == -1)), patterns=[FM(j)])


def legal_member(vm, st, j, which=None):
    """the documented rules for member j (docs/schema.rst notes, docs/encoding.rst notes), in model vocabulary"""
    f, n, H, ts = _props(vm, st)
    m = f(j)
    bound, size, greedy, optional, kind = ts('bound', m), ts('size', m), H('greedy', m), H('optional', m), H('kind', m)
    is_array = z3.Or(bound, size, greedy)
    sizer = f(FM(j))
    rules = [
        ('unlimited type in no array', z3.Not(z3.And(kind == 2, is_array))),
        ('fixed / limited arrays hold fixed types', z3.Not(z3.And(kind != 0, size))),
        ('optionals hold fixed types', z3.Not(z3.And(kind != 0, optional))),
        ('unlimited member only last', z3.Implies(z3.Or(greedy, kind == 2), j == n - 1)),
        ('the sizer precedes its array', z3.Implies(bound, FM(j) >= 0)),
        ('the sizer is neither optional nor an array', z3.Implies(bound, z3.And(z3.Not(H('optional', sizer)),
                                                                  z3.Not(z3.Or(ts('bound', sizer), ts('size', sizer), H('greedy', sizer)))))),
        ('the sizer is of an integer type', z3.Implies(bound, SIZER_INT(vm, st, sizer))),
    ]
    if which is not None:
        return rules[which]
    return z3.And(*[r for _, r in rules])


def SIZER_INT(vm, st, sizer):
    """the sizer's type, followed through its typedef chain, is one of u8..u64 / i8..i64"""
    RES = z3.Function('RESOLVED', Ref, Ref)        # end of the definition chain (ghost; defined by the axioms below)
    return z3.And(st['is_td'](RES(sizer)), STARTS_UI(TYPENAME(RES(sizer))), IS_BUILTIN(TYPENAME(RES(sizer))))


def vc_inv(vm, env, k):
    st = vm.state
    j = z3.Int('j')
    f = st['members'].fn
    out = []
    # lemma (cut): the code's `sizers[0]` is the spec's first preceding member named by `bound` -- both are least
    # elements of the same set; proved as an obligation of its own, then used
    try:
        sizers = env.get('sizers')
    except KeyError:
        sizers = None
    first = getattr(sizers, '_first', None)
    if first is not None and first[0] is vm.path and not isinstance(k, int) and getattr(vm.path, '_lemma_done', None) is not first[1]:
        idx = vm.as_int(env.get('index'))
        vm.oblige('lemma:sizers[0] is the first preceding member named by bound', FM(idx) == first[1], 'lemma', vm.cur_line)
        vm.assume(FM(idx) == first[1])
        vm.path._lemma_done = first[1]
    for w in range(7):
        label, rule = legal_member(vm, st, j, w)
        out.append(('members < k: ' + label, z3.ForAll([j], z3.Implies(z3.And(0 <= j, j < k), rule), patterns=[f(j)])))
    return out


def vc_post(vm, st, result):
    j = vm.fresh('j')
    n = st['members'].length
    return [('accepted => every member obeys the composability rules', z3.Implies(z3.And(0 <= j, j < n), legal_member(vm, st, j)))]


def vc_raises(vm, st, exc_class, exc_args):
    return [('rejection is a ModelError (reported through the error channel)', exc_class.is_sub('ModelError'))]


def vc_while_inv(vm, env, k):
    st = vm.state
    RES = z3.Function('RESOLVED', Ref, Ref)
    cur = env.get('sizer_type')
    sizers = vm.state.get('cur_sizer')
    return []


def vc_while_variant(vm, env):
    v = env.get('sizer_type')
    if isinstance(v, SOptRef):
        return z3.If(v.isnone, 0, TD_RANK(v.t) + 1)
    return TD_RANK(v.t) + 1


Contract(MODEL, 'validate_composability', ['C12', 'C13'], vc_setup, None, shapes=SH, modifies=[], raises=vc_raises, hooks=vc_hooks(),
         loops={1: LoopAnn(lambda vm, env, k: [], index='k'),
                2: LoopAnn(vc_while_inv, variant=vc_while_variant,
                           locals_={'sizer_type': lambda vm, name: SOptRef(vm.fresh(name + '#none', z3.BoolSort()), vm.fresh(name, Ref), None)})},
         name='prophyc.model:validate_composability[struct]',
         notes=['struct branch: rejection channel and termination (typedef chain of the sizer) proved here; '
                'accepted => legal is the [struct rules] contract below'])


# ---- accepted => legal (struct members)

RES = z3.Function('RESOLVED', Ref, Ref)


def vc2_setup(vm, module, env):
    st = vc_setup(vm, module, env)
    r = z3.Const('r', Ref)
    dn, d = vm.heap_array('definition#none'), vm.heap_array('definition')
    step = z3.And(st['is_td'](r), z3.Not(z3.Select(dn, r)))
    vm.assume(z3.ForAll([r], RES(r) == z3.If(step, RES(z3.Select(d, r)), r), patterns=[RES(r)]))
    vm.assume(fm_axiom(vm, st))
    return st


def vc2_while_inv(vm, env, k):
    st = vm.state
    cur = env.get('sizer_type')
    if getattr(vm.path, '_sizer0', None) is None:
        vm.path._sizer0 = cur.t
    cur_none = cur.isnone if isinstance(cur, SOptRef) else z3.BoolVal(False)
    return [('resolves to the same type as the sizer', z3.And(z3.Not(cur_none), RES(cur.t) == RES(vm.path._sizer0)))]


class Loop1(LoopAnn):
    def havoc(self, vm, node, env):
        LoopAnn.havoc(self, vm, node, env)
        vm.path._sizer0 = None


def vc2_post(vm, st, result):
    j = vm.fresh('j')
    n = st['members'].length
    return [('accepted => every member obeys the composability rules', z3.Implies(z3.And(0 <= j, j < n), legal_member(vm, st, j)))]


Contract(MODEL, 'validate_composability', ['C12', 'C13'], vc2_setup, vc2_post, shapes=SH, modifies=[], raises=vc_raises, hooks=vc_hooks(),
         loops={1: Loop1(vc_inv, index='k'),
                2: LoopAnn(vc2_while_inv, variant=vc_while_variant,
                           locals_={'sizer_type': lambda vm, name: SOptRef(vm.fresh(name + '#none', z3.BoolSort()), vm.fresh(name, Ref), None)})},
         name='prophyc.model:validate_composability[struct rules]',
         notes=['legal_member: unlimited types in no array; fixed/limited arrays and optionals hold fixed types; unlimited member only last; '
                'the sizer is a preceding, non-optional, non-array member of integer type (typedef chain resolved)'])
