"""C13: which paths prophyc accepts as input / patch / include files -- prophyc.options.readable_file(path).

The later stages open the path with codecs.open and convert no OSError: a path that is not a regular file (a directory: the
IsADirectoryError text becomes prophyc's whole answer; a FIFO without a writer: open() blocks and prophyc never terminates)
must be refused here, by argparse's own diagnostic.  For every path: it is returned unchanged exactly when
os.path.isfile(path) says so, and refused with argparse.ArgumentTypeError otherwise; no other file-system predicate
(existence, access rights) can stand in for it.  os.path.isfile is the assumed meaning of "a regular file".
"""
import z3

from vf.contract import Contract
from vf.pyvc import SBool, SStr, Sym, OutOfSubset, StrSort

OPTIONS = 'prophyc/options.py'

ISFILE = z3.Function('os.path.isfile', StrSort, z3.BoolSort())


def rf_setup(vm, module, env):
    path = SStr(vm.fresh('path', StrSort))
    st = {'args': [path], 'path': path, 'asked': [], 'closure_env': {}}
    vm.state = st
    return st


def rf_external(vm, name, args, kwargs):
    st = vm.state
    st['asked'].append(name)
    if name == 'argparse.ArgumentTypeError':
        from vf import interp as I
        return I.ExcInstance(I.ExcClass('ArgumentTypeError', 'Exception'), tuple(args))
    if name == 'os.path.isfile' and len(args) == 1:
        return SBool(ISFILE(vm.as_str(args[0])))
    if name.startswith('os.') and name.split('.')[-1] in ('exists', 'access', 'isdir', 'islink', 'lexists'):
        # some other predicate of the file system: unrelated to "is a regular file"
        return SBool(vm.fresh(name.replace('.', '_'), z3.BoolSort()))
    return NotImplemented


def rf_post(vm, st, result):
    return [('accepted only a regular file (os.path.isfile)', ISFILE(st['path'].t)),
            ('the path is returned unchanged', vm.as_str(result) == st['path'].t)]


def rf_raises(vm, st, exc_class, exc_args):
    n = str(getattr(exc_class, 'name', exc_class))
    return [('refused through argparse (ArgumentTypeError)', z3.BoolVal(n.endswith('ArgumentTypeError'))),
            ('refused only what is not a regular file', z3.Not(ISFILE(st['path'].t)))]


Contract(OPTIONS, 'readable_file', ['C13'], rf_setup, rf_post, raises=rf_raises, modifies=[], hooks={'external': rf_external},
         notes=['os.path.isfile is the meaning of "regular file"; other file-system predicates are unrelated unknowns'])
