"""C10: the Python message API keeps every reachable message valid -- contracts on the array mutators and value checks"""
import z3

from vf.contract import Contract, LoopAnn
from vf.pyvc import SRef, SSeq, SInt, SOpt, SBytes, SBool, SStr, Ref, OpaqueFn, ByteSeq, Sym, OutOfSubset, PyRaise, ClassInfo
from vf import interp as I
from .rt_shapes import CONTAINER, GENERATORS, SCALAR, SHAPES, sel, _in
from .absobj import AbsList, FieldsMap, HOOKS, clamp_index
from .c01_encode import OpaqueType
from .c02_decode import PROPHY_ERROR

RT = dict(SHAPES)
RT['_TYPE'] = 'obj'
RT['_values'] = 'obj'

CHK = z3.Function('CHK', Ref, Ref)              # the stored (checked / normalised) form of an accepted value
BAD = z3.Function('BAD', Ref, z3.BoolSort())    # the element type's _check rejects this value (ProphyError)


def elem_check_call(vm, fn, args, kwargs, node):
    """self._TYPE._check(value): callee contract -- raises ProphyError iff BAD(value), else returns CHK(value)"""
    if isinstance(fn, OpaqueFn) and fn.attr == '_check':
        x = args[0]
        may = getattr(vm.path, 'may_raise', None)
        if vm.pure and may is not None:
            may.append((PROPHY_ERROR, BAD(x.t)))
        else:
            if vm.decide(BAD(x.t)):
                raise PyRaise(PROPHY_ERROR, ('value rejected',))
        return SRef(CHK(x.t), None, False)
    return NotImplemented


def arr_getattr(vm, obj, attr):
    if isinstance(obj, OpaqueType) and attr == '_check':
        return OpaqueFn(obj, '_check')
    r = HOOKS['getattr'](vm, obj, attr)
    return r


def arr_hooks():
    h = dict(HOOKS)
    h['getattr'] = arr_getattr
    h['call'] = elem_check_call
    return h


def arr_state(vm, env, cls_name, extra_args):
    cls = env.get(cls_name)
    self = vm.fresh_ref('self', cls)
    values = AbsList(vm, 'values')
    vm.path.objattrs[(str(self.t), '_values')] = values
    vm.path.objattrs[(str(self.t), '_TYPE')] = OpaqueType('elem')
    ml = sel(vm, '_max_len', self.t)
    vm.assume(ml >= 0)
    # data-structure invariant (wf_msg): the limit holds and every stored element passed the element check
    vm.assume(z3.Implies(ml > 0, values.length <= ml))
    st = {'self': self, 'values': values, 'ml': ml, 'n0': values.length, 'closure_env': {}}
    st['args'] = [self] + extra_args(vm, st)
    vm.state = st
    return st


def limit_ok(st):
    v = st['values']
    return z3.Implies(st['ml'] > 0, v.length <= st['ml'])


def unchanged_on_reject(vm, st, exc_class, exc_args):
    v = st['values']
    return [('class is ProphyError', exc_class.is_sub('ProphyError')),
            ('array unchanged on rejection', not v.mutations)]


def list_errors_allowed(vm, st, exc_class, exc_args):
    v = st['values']
    return [('class is ProphyError, IndexError or ValueError', exc_class.is_sub('ProphyError') or exc_class.is_sub('IndexError')
             or exc_class.is_sub('ValueError')),
            ('array unchanged on rejection', not v.mutations)]


# ---- append / insert

def append_setup(vm, module, env):
    return arr_state(vm, env, 'bound_scalar_array', lambda vm, st: [st.setdefault('x', vm.fresh_ref('value', None))])


def append_post(vm, st, result):
    v, n0, x = st['values'], st['n0'], st['x']
    j = vm.fresh('j')
    return [('one element more', v.length == n0 + 1), ('limit respected', limit_ok(st)),
            ('the checked value is last', v.elem(n0).t == CHK(x.t)),
            ('accepted value', z3.Not(BAD(x.t))),
            ('other elements unchanged', z3.Implies(z3.And(0 <= j, j < n0), v.elem(j).t == v.elem0(j).t))]


Contract(CONTAINER, 'bound_scalar_array.append', ['C10'], append_setup, append_post, shapes=RT, raises=unchanged_on_reject,
         hooks=arr_hooks(), modifies=[])


def insert_setup(vm, module, env):
    return arr_state(vm, env, 'bound_scalar_array', lambda vm, st: [st.setdefault('idx', SInt(vm.fresh('idx'))),
                                                                    st.setdefault('x', vm.fresh_ref('value', None))])


def insert_post(vm, st, result):
    v, n0, x = st['values'], st['n0'], st['x']
    p = clamp_index(st['idx'].t, n0)
    j = vm.fresh('j')
    return [('one element more', v.length == n0 + 1), ('limit respected', limit_ok(st)),
            ('the checked value sits at the (clamped) index', v.elem(p).t == CHK(x.t)),
            ('elements before unchanged, after shifted by one', z3.Implies(z3.And(0 <= j, j < n0),
             z3.If(j < p, v.elem(j).t == v.elem0(j).t, v.elem(j + 1).t == v.elem0(j).t)))]


Contract(CONTAINER, 'bound_scalar_array.insert', ['C10'], insert_setup, insert_post, shapes=RT, raises=unchanged_on_reject,
         hooks=arr_hooks(), modifies=[])


# ---- extend / __setslice__ / __setitem__ / __delitem__

def extend_setup(vm, module, env):
    return arr_state(vm, env, 'bound_scalar_array', lambda vm, st: [st.setdefault('new', AbsList(vm, 'newvalues'))])


def extend_post(vm, st, result):
    v, n0, new = st['values'], st['n0'], st['new']
    j = vm.fresh('j')
    return [('grown by the number of new values', v.length == n0 + new.length), ('limit respected', limit_ok(st)),
            ('old elements unchanged', z3.Implies(z3.And(0 <= j, j < n0), v.elem(j).t == v.elem0(j).t)),
            ('new elements are the checked values, in order', z3.Implies(z3.And(0 <= j, j < new.length), v.elem(n0 + j).t == CHK(new.elem(j).t))),
            ('every new value was accepted', z3.Implies(z3.And(0 <= j, j < new.length), z3.Not(BAD(new.elem(j).t))))]


Contract(CONTAINER, 'bound_scalar_array.extend', ['C10'], extend_setup, extend_post, shapes=RT, raises=unchanged_on_reject,
         hooks=arr_hooks(), modifies=[])


def setslice_setup(cls_name):
    def setup(vm, module, env):
        def extra(vm, st):
            st['lo'] = SOpt(vm.fresh('start#none', z3.BoolSort()), vm.fresh('start'))
            st['hi'] = SOpt(vm.fresh('stop#none', z3.BoolSort()), vm.fresh('stop'))
            st['new'] = AbsList(vm, 'newvalues')
            return [st['lo'], st['hi'], st['new']]
        st = arr_state(vm, env, cls_name, extra)
        if cls_name == 'fixed_scalar_array':
            vm.assume(st['values'].length == st['ml'])        # fixed arrays always hold exactly max_len elements
        return st
    return setup


def _slice_bounds(st):
    n0 = st['n0']
    a = z3.If(st['lo'].isnone, 0, clamp_index(st['lo'].val, n0))
    b = z3.If(st['hi'].isnone, n0, clamp_index(st['hi'].val, n0))
    b = z3.If(b < a, a, b)
    return a, b


def setslice_post(fixed):
    def post(vm, st, result):
        v, n0, new = st['values'], st['n0'], st['new']
        a, b = _slice_bounds(st)
        j = vm.fresh('j')
        goals = [('length as Python slice assignment', v.length == n0 - (b - a) + new.length),
                 ('limit respected', limit_ok(st)),
                 ('elements before the slice unchanged', z3.Implies(z3.And(0 <= j, j < a), v.elem(j).t == v.elem0(j).t)),
                 ('slice replaced by the checked values', z3.Implies(z3.And(0 <= j, j < new.length), v.elem(a + j).t == CHK(new.elem(j).t))),
                 ('elements after the slice kept', z3.Implies(z3.And(b <= j, j < n0), v.elem(j - (b - a) + new.length).t == v.elem0(j).t)),
                 ('every new value was accepted', z3.Implies(z3.And(0 <= j, j < new.length), z3.Not(BAD(new.elem(j).t))))]
        if fixed:
            goals.append(('fixed array keeps its length', v.length == n0))
        return goals
    return post


def optslice_index(vm, obj, idx):
    return NotImplemented


for _cls, _fixed in (('bound_scalar_array', False), ('fixed_scalar_array', True)):
    Contract(CONTAINER, '%s.__setslice__' % _cls, ['C10'], setslice_setup(_cls), setslice_post(_fixed), shapes=RT,
             raises=unchanged_on_reject, hooks=arr_hooks(), modifies=[])


# ---- int_decorator.decorator.check : accepts exactly the ints of the type's range

class AnyArg(Sym):
    """an arbitrary Python value passed by the user: an int (then `val`), or something else"""

    def __init__(self, vm):
        self.is_int = vm.fresh('is_int', z3.BoolSort())
        self.val = vm.fresh('val')


def check_isinstance(vm, x, c):
    if isinstance(x, AnyArg):
        return SBool(x.is_int)
    return NotImplemented


def int_check_setup(vm, module, env):
    lo, hi, size = vm.fresh('min_'), vm.fresh('max_'), vm.fresh('size')
    vm.assume(lo <= hi)
    x = AnyArg(vm)
    st = {'args': [x], 'x': x, 'lo': lo, 'hi': hi,
          'closure_env': {'min_': SInt(lo), 'max_': SInt(hi), 'size': SInt(size), 'ProphyError': PROPHY_ERROR}}
    vm.state = st
    return st


def anyarg_compare_hook(vm, fn, args, kwargs, node):
    return NotImplemented


class _IntView(object):
    pass


def int_check_post(vm, st, result):
    x = st['x']
    return [('accepted only an int within [min_, max_]', z3.And(x.is_int, st['lo'] <= x.val, x.val <= st['hi'])),
            ('the value itself is stored', result is x)]


def int_check_raises(vm, st, exc_class, exc_args):
    x = st['x']
    return [('class is ProphyError', exc_class.is_sub('ProphyError')),
            ('rejected only a non-int or an out-of-range int', z3.Or(z3.Not(x.is_int), x.val < st['lo'], x.val > st['hi']))]


def anyarg_as_int_hook():
    """comparisons `min_ <= value <= max_` need the integer view of the argument (only reached when it is an int)"""
    orig = I.Interp.as_int

    def as_int(self, v):
        if isinstance(v, AnyArg):
            return v.val
        return orig(self, v)
    I.Interp.as_int = as_int


anyarg_as_int_hook()

Contract(SCALAR, 'int_decorator.decorator.check', ['C10', 'C06'], int_check_setup, int_check_post, shapes=RT, raises=int_check_raises,
         hooks={'isinstance': check_isinstance}, modifies=[])


# ---- __delitem__ / remove / fixed __setitem__ ... (list-style errors allowed, state unchanged on error)

def delitem_setup(vm, module, env):
    return arr_state(vm, env, 'bound_scalar_array', lambda vm, st: [st.setdefault('idx', SInt(vm.fresh('idx')))])


def delitem_post(vm, st, result):
    v, n0 = st['values'], st['n0']
    i0 = st['idx'].t
    p = z3.If(i0 < 0, i0 + n0, i0)
    j = vm.fresh('j')
    return [('one element fewer', v.length == n0 - 1), ('index was in range', z3.And(i0 >= -n0, i0 < n0)),
            ('the others keep their order', z3.Implies(z3.And(0 <= j, j < n0 - 1), v.elem(j).t == z3.If(j < p, v.elem0(j).t, v.elem0(j + 1).t)))]


Contract(CONTAINER, 'bound_scalar_array.__delitem__', ['C10'], delitem_setup, delitem_post, shapes=RT, raises=list_errors_allowed,
         hooks=arr_hooks(), modifies=[])


def setitem_setup(cls_name):
    def setup(vm, module, env):
        st = arr_state(vm, env, cls_name, lambda vm, st: [st.setdefault('idx', SInt(vm.fresh('idx'))),
                                                          st.setdefault('x', vm.fresh_ref('value', None))])
        if cls_name == 'fixed_scalar_array':
            vm.assume(st['values'].length == st['ml'])
        return st
    return setup


def setitem_isinstance(vm, x, c):
    # __setitem__ with an integer index (the slice forms are the __setslice__ / set_extended_slice contracts)
    if isinstance(x, SInt):
        return False
    return NotImplemented


def setitem_post(vm, st, result):
    v, n0, x = st['values'], st['n0'], st['x']
    i0 = st['idx'].t
    p = z3.If(i0 < 0, i0 + n0, i0)
    j = vm.fresh('j')
    return [('same length', v.length == n0), ('index was in range', z3.And(i0 >= -n0, i0 < n0)),
            ('the checked value is stored at the index', v.elem(p).t == CHK(x.t)), ('accepted value', z3.Not(BAD(x.t))),
            ('other elements unchanged', z3.Implies(z3.And(0 <= j, j < n0, j != p), v.elem(j).t == v.elem0(j).t))]


def setitem_hooks():
    h = arr_hooks()
    h['isinstance'] = setitem_isinstance
    return h


for _cls in ('bound_scalar_array', 'fixed_scalar_array'):
    Contract(CONTAINER, '%s.__setitem__' % _cls, ['C10'], setitem_setup(_cls), setitem_post, shapes=RT, raises=list_errors_allowed,
             hooks=setitem_hooks(), modifies=[], notes=['integer index form; slices: __setslice__ / set_extended_slice'])


# ---- bound_composite_array.add() (no attributes) : limit, fresh element appended

def add_setup(vm, module, env):
    return arr_state(vm, env, 'bound_composite_array', lambda vm, st: [])


def add_call(vm, fn, args, kwargs, node):
    if isinstance(fn, OpaqueType) and fn.tag == 'elem':       # self._TYPE(): a fresh default element
        st = vm.state
        st['fresh'] = vm.fresh_ref('new_element', None)
        j = vm.fresh('j')
        vm.assume(z3.ForAll([j], z3.Implies(z3.And(0 <= j, j < st['n0']), st['values'].elem0(j).t != st['fresh'].t)))
        return st['fresh']
    return NotImplemented


def add_post(vm, st, result):
    v, n0 = st['values'], st['n0']
    j = vm.fresh('j')
    return [('one element more', v.length == n0 + 1), ('limit respected', limit_ok(st)),
            ('the fresh element is appended and returned', z3.And(v.elem(n0).t == st['fresh'].t, result.t == st['fresh'].t)),
            ('old elements unchanged', z3.Implies(z3.And(0 <= j, j < n0), v.elem(j).t == v.elem0(j).t))]


def add_hooks():
    h = dict(HOOKS)
    h['call'] = add_call
    return h


Contract(CONTAINER, 'bound_composite_array.add', ['C10', 'C06'], add_setup, add_post, shapes=RT, raises=unchanged_on_reject,
         hooks=add_hooks(), modifies=[], notes=['add() without attributes (the decoders\' use); add(**attrs) sets attributes through the setters'])
