"""C16: which names a generated Python module imports for one `#include` --
prophyc.generators.python._PythonTranslator.translate_include(include).

The translator keeps the set of names already imported (`self.included_symbols`); an include delivers the symbols of the
included file and, transitively, of the files that one includes (`include.defined_symbols()`, a sequence of nodes of
symbolic length here).  For every such sequence and every earlier state of the set:
    the names imported by this call are exactly the names of delivered symbols that were not imported before;
    afterwards every delivered name is in the set, and the set grew by nothing else;
    nothing is emitted (u"") exactly when there is nothing new to import.
By induction over the includes of a file: every name any include delivers is imported exactly once -- what makes the
per-file modules together equivalent to the single-file module (the end-to-end part is the `multifile` stand-in's).
`sorted` / `list` of the name collection are the identity on its *membership* (assumed: CPython's sorted returns a
permutation); the text of the import statement (nested `translate`, line breaking, `_indent`) is summarised as an opaque
function of its operands -- that the text imports those names is exercised by the stand-in.
"""
import z3

from vf.contract import Contract
from vf.pyvc import SRef, SSeq, SInt, SBool, SStr, Ref, OpaqueFn, Sym, OutOfSubset, StrSort, Closure
from vf import interp as I
from vf import builtins as B

PYGEN = 'prophyc/generators/python.py'

NAME = z3.Function('symbol.name', Ref, StrSort)
NSYM = z3.Function('include.n_symbols', z3.IntSort())
SYM = z3.Function('include.symbol', z3.IntSort(), Ref)
StrSet = z3.ArraySort(StrSort, z3.BoolSort())


class IncSet(Sym):
    def __init__(self, arr):
        self.arr = arr


class NameColl(Sym):
    """the (sorted) collection of names built by the comprehension: membership predicate `mem`"""

    def __init__(self, vm, seq, elem, cond):
        self.mem = z3.Function('included!%d' % next(vm._fresh), StrSort, z3.BoolSort())
        wit = z3.Function('included.witness!%d' % next(vm._fresh), StrSort, z3.IntSort())
        j = z3.Int('j')
        s = z3.Const('s', StrSort)
        ej = vm.as_str(elem(j))
        cj = cond(j) if cond is not None else z3.BoolVal(True)
        vm.assume(z3.ForAll([j], z3.Implies(z3.And(0 <= j, j < seq.length, cj), self.mem(ej)), patterns=[ej] if not z3.is_const(ej) else None))
        w = wit(s)
        ew = vm.as_str(elem(w))
        cw = cond(w) if cond is not None else z3.BoolVal(True)
        vm.assume(z3.ForAll([s], z3.Implies(self.mem(s), z3.And(0 <= w, w < seq.length, cw, ew == s)), patterns=[self.mem(s)]))
        self.nonempty = vm.fresh('included.nonempty', z3.BoolSort())
        w0 = vm.fresh('included.some', StrSort)
        vm.assume(z3.Implies(self.nonempty, self.mem(w0)))
        vm.assume(z3.Implies(z3.Not(self.nonempty), z3.ForAll([s], z3.Not(self.mem(s)), patterns=[self.mem(s)])))

    def sym_truthy(self, vm):
        return self.nonempty


class Include(Sym):
    pass


class Self(Sym):
    pass


def ti_setup(vm, module, env):
    inc0 = IncSet(vm.fresh('included_symbols', StrSet))
    vm.assume(NSYM() >= 0)
    st = {'args': [Self(), Include()], 'inc0': inc0.arr, 'set': inc0, 'coll': None, 'updated': False, 'texts': [], 'closure_env': {}}
    vm.state = st
    return st


def ti_hooks():
    def getattr_(vm, obj, attr):
        st = vm.state
        if isinstance(obj, Self) and attr == 'included_symbols':
            return st['set']
        if isinstance(obj, IncSet) and attr == 'update':
            return I.MethodOf(obj, 'update')
        if isinstance(obj, Include) and attr == 'defined_symbols':
            return OpaqueFn(obj, 'defined_symbols')
        if isinstance(obj, Include) and attr == 'name':
            return SStr(vm.fresh('include.name', StrSort))
        if isinstance(obj, SRef) and attr == 'name':
            return SStr(NAME(obj.t))
        return NotImplemented

    def call(vm, fn, args, kwargs, node):
        st = vm.state
        if isinstance(fn, OpaqueFn) and fn.attr == 'defined_symbols':
            return SSeq(NSYM(), lambda i: SRef(SYM(i), None, False), 'defined_symbols')
        if isinstance(fn, I.Builtin) and fn.name == 'sorted' and len(args) == 1 and isinstance(args[0], I.LazyGen):
            src = B.sym_fold_source(vm, args[0])
            if src is None:
                raise OutOfSubset('sorted over something else than a comprehension of the delivered symbols')
            seq, elem, cond = src
            st['coll'] = NameColl(vm, seq, elem, cond)
            return st['coll']
        if isinstance(fn, I.Builtin) and fn.name == 'list' and len(args) == 1 and isinstance(args[0], NameColl):
            return args[0]
        if isinstance(fn, Closure) and fn.qualname.split('.')[-1] in ('translate', '_indent'):
            # the text of the statement: an opaque function of its operands (see the module docstring)
            t = SStr(vm.fresh('text.' + fn.qualname.split('.')[-1], StrSort))
            st['texts'].append(t)
            return t
        return NotImplemented

    def method(vm, obj, name, args, kwargs):
        st = vm.state
        if isinstance(obj, IncSet) and name == 'update' and len(args) == 1 and isinstance(args[0], NameColl):
            s = z3.Const('s', StrSort)
            new = vm.fresh('included_symbols', StrSet)
            vm.assume(z3.ForAll([s], z3.Select(new, s) == z3.Or(z3.Select(obj.arr, s), args[0].mem(s)), patterns=[z3.Select(new, s)]))
            obj.arr = new
            st['updated'] = True
            return None
        return NotImplemented

    def contains(vm, container, item):
        if isinstance(container, IncSet):
            return SBool(z3.Select(container.arr, vm.as_str(item)))
        return NotImplemented

    return {'getattr': getattr_, 'call': call, 'method': method, 'contains': contains}


def ti_post(vm, st, result):
    coll, inc0, inc1 = st['coll'], st['inc0'], st['set'].arr
    if coll is None:
        return [('the names to import are computed from the delivered symbols', z3.BoolVal(False))]
    j = z3.Int('j')
    s = z3.Const('s', StrSort)
    delivered = NAME(SYM(j))
    r = [('every delivered name is marked as imported afterwards',
          z3.ForAll([j], z3.Implies(z3.And(0 <= j, j < NSYM()), z3.Select(inc1, delivered)))),
         ('a delivered name not imported before is imported now',
          z3.ForAll([j], z3.Implies(z3.And(0 <= j, j < NSYM(), z3.Not(z3.Select(inc0, delivered))), coll.mem(delivered)))),
         ('nothing is imported twice, and only delivered names are imported',
          z3.ForAll([s], z3.Implies(coll.mem(s), z3.Not(z3.Select(inc0, s))), patterns=[coll.mem(s)])),
         ('the set grows by the imported names and nothing else',
          z3.ForAll([s], z3.Select(inc1, s) == z3.Or(z3.Select(inc0, s), coll.mem(s)), patterns=[z3.Select(inc1, s)]))]
    empty = isinstance(result, str) and result == ''
    r.append(('nothing is emitted exactly when there is nothing new to import', z3.BoolVal(empty) == z3.Not(coll.nonempty)))
    return r


Contract(PYGEN, '_PythonTranslator.translate_include', ['C16'], ti_setup, ti_post, modifies=[], hooks=ti_hooks(),
         notes=['sorted / list keep the membership of the collection (CPython: sorted returns a permutation)',
                'the statement text (nested translate, _indent, line breaking) is an opaque function of its operands'])
