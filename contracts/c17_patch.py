"""C17: patch rules rewrite exactly the named member as documented (docs/other_schemas.rst), leave the rest alone,
and fail when they cannot be applied"""
import z3

from vf.contract import Contract, LoopAnn
from vf.pyvc import SRef, SOptRef, SOptStr, SSeq, SInt, SOpt, SBool, SStr, STruth, Ref, OpaqueFn, Sym, OutOfSubset, PyRaise, ClassInfo, StrSort, NONEMPTY
from vf import interp as I
from .absobj import AbsList, HOOKS
from . import c15_sort as _pop_support

PATCH = 'prophyc/patch.py'
MODEL = 'prophyc/model.py'

SH = {'bound': 'optstr', 'size': 'optstr', 'greedy': 'bool', 'optional': 'bool', '_value': 'obj', 'name': 'str',
      'definition': ('optref', None), 'numeric_size': 'opt', 'padding': 'opt', 'kind': 'int', 'alignment': 'opt', 'byte_size': 'opt'}

TYPE = z3.Function('TYPE_NAME', Ref, StrSort)       # member.type_name (stored in _value of the member; modelled as a map)


class Members(AbsList):
    """node.members: distinct StructMember objects"""

    def __init__(self, vm, cls):
        AbsList.__init__(self, vm, 'members')
        f0 = self.elem0
        self.cls = cls
        self.wrap = lambda t: SRef(t, cls, True)
        base = self.elem
        self.elem = lambda i: SRef(base(i).t, cls, True)
        self.elem0 = self.elem
        i, j = z3.Ints('i j')
        vm.assume(z3.ForAll([i, j], z3.Implies(z3.And(0 <= i, i < j, j < self.length), self.elem(i).t != self.elem(j).t),
                            patterns=[z3.MultiPattern(self.elem(i).t, self.elem(j).t)]))


class Patch(Sym):
    def __init__(self, params):
        self.params = params

    def sym_getattr(self, vm, attr):
        if attr == 'params':
            return self.params
        if attr == 'action':
            return SStr(vm.fresh('action', StrSort))
        return NotImplemented


def pa_setup(nparams, is_struct=True):
    def setup(vm, module, env):
        menv = vm.module_env(I.load_module(MODEL))
        node = vm.fresh_ref('node', menv.get('Struct') if is_struct else menv.get('Union'))
        members = Members(vm, menv.get('StructMember'))
        vm.path.objattrs[(str(node.t), '_value')] = members
        vm.load(node, 'bound')
        vm.load(node, 'size')
        params = [SStr(vm.fresh('param%d' % i, StrSort)) for i in range(nparams)]
        patch_ = Patch(params)
        pre = {a: vm.heap_array(a) for a in ('bound', 'bound#none', 'size', 'size#none', 'greedy', 'optional', 'name')}
        st = {'args': [node, patch_], 'node': node, 'members': members, 'params': params, 'pre': pre, 'type_writes': [], 'n0': members.length,
              'closure_env': {}}
        vm.state = st
        return st
    return setup


def pa_hooks():
    h = dict(HOOKS)

    def getattr_(vm, obj, attr):
        if hasattr(obj, 'sym_getattr'):
            r = obj.sym_getattr(vm, attr)
            if r is not NotImplemented:
                return r
        return NotImplemented

    def setattr_(vm, obj, attr, val):
        st = vm.state
        if isinstance(obj, SRef) and attr == 'type_name':
            st['type_writes'].append((obj, val))
            return None
        return NotImplemented

    def str_hook(vm, x):
        return NotImplemented

    h.update({'getattr': getattr_, 'setattr': setattr_})
    return h


def target(vm, st, j):
    """member j is the one the rule names: the first member called params[0]"""
    m = st['members']
    i = z3.Int('i_t')
    name = lambda x: z3.Select(st['pre']['name'], m.elem0(x).t)
    return z3.And(name(j) == st['params'][0].t, z3.ForAll([i], z3.Implies(z3.And(0 <= i, i < j), name(i) != st['params'][0].t)))


def attrs_of(vm, t, heap=None):
    H = (lambda a: heap[a]) if heap else (lambda a: vm.heap_array(a))
    return {a: z3.Select(H(a), t) for a in ('bound', 'bound#none', 'size', 'size#none', 'greedy', 'optional')}


def post_for(expect):
    """expect(vm, st, new, old) -> conditions on the attributes of the named member"""
    def post(vm, st, result):
        m = st['members']
        j = vm.fresh('j')
        t = m.elem0(j).t
        new, old = attrs_of(vm, t), attrs_of(vm, t, st['pre'])
        inr = z3.And(0 <= j, j < st['n0'])
        same = z3.And(*[new[a] == old[a] for a in new])
        return [('the named member is rewritten as documented', z3.Implies(z3.And(inr, target(vm, st, j)), expect(vm, st, new, old))),
                ('every other member is left alone', z3.Implies(z3.And(inr, z3.Not(target(vm, st, j))), same)),
                ('the member list itself is unchanged', z3.BoolVal(not m.mutations)),
                ('the (patched) node is returned', result.t == st['node'].t)]
    return post


def applies_only_if_found(vm, st, exc_class, exc_args):
    """a rule that cannot be applied fails the compilation (bare Exception is patch.py's error channel) and changes nothing"""
    m = st['members']
    same = [vm.heap_array(a) == st['pre'][a] for a in ('bound', 'bound#none', 'size', 'size#none', 'greedy', 'optional')]
    return [('fails with patch.py\'s diagnostic exception', exc_class.name == 'Exception'),
            ('nothing was changed', z3.And(z3.BoolVal(not m.mutations and not st['type_writes']), *same))]


def is_none(x):
    return x


def fails_only_if_not_found(vm, st, exc_class, exc_args):
    """for a rule on a struct with the documented number of parameters the only reason to fail is that no member has the
    given name: a rule that names an existing member -- the first one included -- is applied"""
    m = st['members']
    j = vm.fresh('j')
    name_j = z3.Select(st['pre']['name'], m.elem0(j).t)
    return applies_only_if_found(vm, st, exc_class, exc_args) + [
        ('fails only when no member has the given name', z3.Implies(z3.And(0 <= j, j < st['n0']), name_j != st['params'][0].t))]


def remove_post(vm, st, result):
    """remove: the first member with the given name is taken out, the others keep their order and their attributes"""
    m = st['members']
    j, i = vm.fresh('j'), vm.fresh('i')
    inr = z3.And(0 <= j, j < st['n0'], target(vm, st, j))
    same = [vm.heap_array(a) == st['pre'][a] for a in ('bound', 'bound#none', 'size', 'size#none', 'greedy', 'optional', 'name')]
    return [('one member less', m.length == st['n0'] - 1),
            ('members before the named one stay in place', z3.Implies(z3.And(inr, 0 <= i, i < j), m.elem(i).t == m.elem0(i).t)),
            ('members after the named one move up by one', z3.Implies(z3.And(inr, j <= i, i < st['n0'] - 1),
                                                                       m.elem(i).t == m.elem0(i + 1).t)),
            ('no member is rewritten', z3.And(z3.BoolVal(not st['type_writes']), *same)),
            ('the (patched) node is returned', result.t == st['node'].t)]


def type_post(vm, st, result):
    """type: the first member with the given name gets the given type name, nothing else is touched"""
    m = st['members']
    j = vm.fresh('j')
    inr = z3.And(0 <= j, j < st['n0'], target(vm, st, j))
    same = [vm.heap_array(a) == st['pre'][a] for a in ('bound', 'bound#none', 'size', 'size#none', 'greedy', 'optional', 'name')]
    w = st['type_writes']
    return [('exactly one type name is written', z3.BoolVal(len(w) == 1)),
            ('it is the named member that gets the given type', z3.Implies(inr, z3.And(w[0][0].t == m.elem0(j).t,
                                                                                         vm.as_str(w[0][1]) == st['params'][1].t))
             if len(w) == 1 else z3.BoolVal(False)),
            ('nothing else is touched', z3.And(z3.BoolVal(not m.mutations), *same)),
            ('the (patched) node is returned', result.t == st['node'].t)]


Contract(PATCH, '_remove', ['C17'], pa_setup(1), remove_post, shapes=SH, raises=fails_only_if_not_found, hooks=pa_hooks(), modifies=[],
         notes=['remove: docs/other_schemas.rst -- the named member is taken out of the struct'])

Contract(PATCH, '_type', ['C17'], pa_setup(2), type_post, shapes=SH, raises=fails_only_if_not_found, hooks=pa_hooks(), modifies=[],
         notes=['type: the member type name is a property over _value; the write is recorded by the setattr hook'])


Contract(PATCH, '_static', ['C17'], pa_setup(2), post_for(lambda vm, st, new, old: z3.And(
    new['bound#none'], z3.Not(new['size#none']), new['size'] == st['params'][1].t, z3.Not(new['optional']), new['greedy'] == old['greedy'])),
    shapes=SH, raises=fails_only_if_not_found, hooks=pa_hooks(), modifies=['bound', 'size', 'optional'],
    notes=['static: a fixed array of the given size: no sizer left over, not optional'])

Contract(PATCH, '_dynamic', ['C17'], pa_setup(2), post_for(lambda vm, st, new, old: z3.And(
    z3.Not(new['bound#none']), new['bound'] == st['params'][1].t, new['size#none'], z3.Not(new['optional']), new['greedy'] == old['greedy'])),
    shapes=SH, raises=fails_only_if_not_found, hooks=pa_hooks(), modifies=['bound', 'size', 'optional'])

Contract(PATCH, '_greedy', ['C17'], pa_setup(1), post_for(lambda vm, st, new, old: z3.And(
    new['greedy'], new['bound#none'], new['size#none'], z3.Not(new['optional']))),
    shapes=SH, raises=fails_only_if_not_found, hooks=pa_hooks(), modifies=['bound', 'size', 'optional', 'greedy'])


def limited_expect(vm, st, new, old):
    return z3.And(z3.Not(new['bound#none']), new['bound'] == st['params'][1].t, new['size#none'] == old['size#none'], new['size'] == old['size'],
                  z3.Not(new['optional']), new['greedy'] == old['greedy'],
                  # applicable only to a fixed array, with the sizer among the preceding members
                  z3.Not(old['size#none']), NONEMPTY(old['size']))


Contract(PATCH, '_limited', ['C17'], pa_setup(2), post_for(limited_expect), shapes=SH, raises=applies_only_if_found, hooks=pa_hooks(),
         modifies=['bound', 'optional'])


# ------------------------------------------------------------------ patch(nodes, patch_dict): which rules reach which node
#
# Every node is patched exactly once, by the rules filed under the name it has in the input (docs/other_schemas.rst: rules
# are looked up by node name; a rule group naming no node is ignored; after `A rename B` the group `B` of the same file does
# not apply to the former A).  For every list of nodes and every rule table: afterwards position j holds
# _apply(node_j, rules(name_j)) when the table has a non-empty group under name_j, and node_j itself otherwise; the list
# keeps its length; no other position changes.  _apply is summarised as an opaque function of (node, rules).

P_NAME = z3.Function('patch.node_name', Ref, StrSort)
P_HAS = z3.Function('patch.has_rules', StrSort, z3.BoolSort())        # patch_dict.get(name) is a non-empty rule list
P_RULES = z3.Function('patch.rules', StrSort, Ref)
P_APPLIED = z3.Function('patch._apply', Ref, Ref, Ref)


class RuleTable(Sym):
    pass


class Rules(Sym):
    def __init__(self, name_t):
        self.name_t = name_t

    def sym_truthy(self, vm):
        return P_HAS(self.name_t)


def pp_setup(vm, module, env):
    nodes = AbsList(vm, 'nodes')
    table = RuleTable()
    st = {'args': [nodes, table], 'nodes': nodes, 'elem0': nodes.elem, 'n0': nodes.length, 'closure_env': {}}
    vm.state = st
    return st


def pp_hooks():
    h = dict(HOOKS)

    def getattr_(vm, obj, attr):
        if isinstance(obj, SRef) and attr == 'name':
            return SStr(P_NAME(obj.t))
        if isinstance(obj, RuleTable) and attr == 'get':
            return I.MethodOf(obj, 'get')
        return HOOKS['getattr'](vm, obj, attr)

    def method(vm, obj, name, args, kwargs):
        if isinstance(obj, RuleTable) and name == 'get' and len(args) == 1:
            return Rules(vm.as_str(args[0]))
        return HOOKS['method'](vm, obj, name, args, kwargs)

    def call(vm, fn, args, kwargs, node):
        from vf.pyvc import Closure
        if isinstance(fn, Closure) and fn.qualname.endswith('_apply'):
            ok = len(args) == 2 and isinstance(args[0], SRef) and isinstance(args[1], Rules)
            if not ok:
                raise OutOfSubset('_apply called with something else than (a node, a rule group of the table)')
            return SRef(P_APPLIED(args[0].t, P_RULES(args[1].name_t)), None, False)
        return NotImplemented

    h.update({'getattr': getattr_, 'method': method, 'call': call})
    return h


def pp_want(st, j):
    n0 = st['elem0'](j).t
    nm = P_NAME(n0)
    return z3.If(P_HAS(nm), P_APPLIED(n0, P_RULES(nm)), n0)


def pp_inv(vm, env, k):
    st = vm.state
    nodes = st['nodes']
    j = z3.Int('j')
    return [('length unchanged', nodes.length == st['n0']),
            ('nodes passed: each patched by the rules under its own input name, or untouched',
             z3.ForAll([j], z3.Implies(z3.And(0 <= j, j < k, j < st['n0']), nodes.elem(j).t == pp_want(st, j)))),
            ('nodes ahead: untouched',
             z3.ForAll([j], z3.Implies(z3.And(k <= j, j < st['n0']), nodes.elem(j).t == st['elem0'](j).t)))]


def pp_post(vm, st, result):
    nodes = st['nodes']
    j = z3.Int('j')
    return [('length unchanged', nodes.length == st['n0']),
            ('every node patched exactly once, by the rules under its input name; a group naming no node changes nothing',
             z3.ForAll([j], z3.Implies(z3.And(0 <= j, j < st['n0']), nodes.elem(j).t == pp_want(st, j))))]


def pp_fresh_nodes(vm, name):
    st = vm.state
    st['nodes'] = AbsList(vm, 'nodes')
    return st['nodes']


Contract(PATCH, 'patch', ['C17'], pp_setup, pp_post, hooks=pp_hooks(), modifies=[],
         loops={0: LoopAnn(pp_inv, index='k', locals_={'nodes': pp_fresh_nodes}, extra_havoc=('nodes',))},
         notes=['_apply summarised as an opaque function of (node, rule group); the rule table as an opaque map from names'])
