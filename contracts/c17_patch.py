"""C17: patch rules rewrite exactly the named member as documented (docs/other_schemas.rst), leave the rest alone,
and fail when they cannot be applied"""
import z3

from vf.contract import Contract, LoopAnn
from vf.pyvc import SRef, SOptRef, SOptStr, SSeq, SInt, SOpt, SBool, SStr, STruth, Ref, OpaqueFn, Sym, OutOfSubset, PyRaise, ClassInfo, StrSort, NONEMPTY
from vf import interp as I
from .absobj import AbsList, HOOKS
from . import c15_sort as _pop_support

PATCH = 'prophyc/patch.py'
MODEL = 'prophyc/model.py'

SH = {'bound': 'optstr', 'size': 'optstr', 'greedy': 'bool', 'optional': 'bool', '_value': 'obj', 'name': 'str',
      'definition': ('optref', None), 'numeric_size': 'opt', 'padding': 'opt', 'kind': 'int', 'alignment': 'opt', 'byte_size': 'opt'}

TYPE = z3.Function('TYPE_NAME', Ref, StrSort)       # member.type_name (stored in _value of the member; modelled as a map)


class Members(AbsList):
    """node.members: distinct StructMember objects"""

    def __init__(self, vm, cls):
        AbsList.__init__(self, vm, 'members')
        f0 = self.elem0
        self.cls = cls
        self.wrap = lambda t: SRef(t, cls, True)
        base = self.elem
        self.elem = lambda i: SRef(base(i).t, cls, True)
        self.elem0 = self.elem
        i, j = z3.Ints('i j')
        vm.assume(z3.ForAll([i, j], z3.Implies(z3.And(0 <= i, i < j, j < self.length), self.elem(i).t != self.elem(j).t),
                            patterns=[z3.MultiPattern(self.elem(i).t, self.elem(j).t)]))


class Patch(Sym):
    def __init__(self, params):
        self.params = params

    def sym_getattr(self, vm, attr):
        if attr == 'params':
            return self.params
        if attr == 'action':
            return SStr(vm.fresh('action', StrSort))
        return NotImplemented


def pa_setup(nparams, is_struct=True):
    def setup(vm, module, env):
        menv = vm.module_env(I.load_module(MODEL))
        node = vm.fresh_ref('node', menv.get('Struct') if is_struct else menv.get('Union'))
        members = Members(vm, menv.get('StructMember'))
        vm.path.objattrs[(str(node.t), '_value')] = members
        vm.load(node, 'bound')
        vm.load(node, 'size')
        params = [SStr(vm.fresh('param%d' % i, StrSort)) for i in range(nparams)]
        patch_ = Patch(params)
        pre = {a: vm.heap_array(a) for a in ('bound', 'bound#none', 'size', 'size#none', 'greedy', 'optional', 'name')}
        st = {'args': [node, patch_], 'node': node, 'members': members, 'params': params, 'pre': pre, 'type_writes': [], 'n0': members.length,
              'closure_env': {}}
        vm.state = st
        return st
    return setup


def pa_hooks():
    h = dict(HOOKS)

    def getattr_(vm, obj, attr):
        if hasattr(obj, 'sym_getattr'):
            r = obj.sym_getattr(vm, attr)
            if r is not NotImplemented:
                return r
        return NotImplemented

    def setattr_(vm, obj, attr, val):
        st = vm.state
        if isinstance(obj, SRef) and attr == 'type_name':
            st['type_writes'].append((obj, val))
            return None
        return NotImplemented

    def str_hook(vm, x):
        return NotImplemented

    h.update({'getattr': getattr_, 'setattr': setattr_})
    return h


def target(vm, st, j):
    """member j is the one the rule names: the first member called params[0]"""
    m = st['members']
    i = z3.Int('i_t')
    name = lambda x: z3.Select(st['pre']['name'], m.elem0(x).t)
    return z3.And(name(j) == st['params'][0].t, z3.ForAll([i], z3.Implies(z3.And(0 <= i, i < j), name(i) != st['params'][0].t)))


def attrs_of(vm, t, heap=None):
    H = (lambda a: heap[a]) if heap else (lambda a: vm.heap_array(a))
    return {a: z3.Select(H(a), t) for a in ('bound', 'bound#none', 'size', 'size#none', 'greedy', 'optional')}


def post_for(expect):
    """expect(vm, st, new, old) -> conditions on the attributes of the named member"""
    def post(vm, st, result):
        m = st['members']
        j = vm.fresh('j')
        t = m.elem0(j).t
        new, old = attrs_of(vm, t), attrs_of(vm, t, st['pre'])
        inr = z3.And(0 <= j, j < st['n0'])
        same = z3.And(*[new[a] == old[a] for a in new])
        return [('the named member is rewritten as documented', z3.Implies(z3.And(inr, target(vm, st, j)), expect(vm, st, new, old))),
                ('every other member is left alone', z3.Implies(z3.And(inr, z3.Not(target(vm, st, j))), same)),
                ('the member list itself is unchanged', z3.BoolVal(not m.mutations)),
                ('the (patched) node is returned', result.t == st['node'].t)]
    return post


def applies_only_if_found(vm, st, exc_class, exc_args):
    """a rule that cannot be applied fails the compilation (bare Exception is patch.py's error channel) and changes nothing"""
    m = st['members']
    same = [vm.heap_array(a) == st['pre'][a] for a in ('bound', 'bound#none', 'size', 'size#none', 'greedy', 'optional')]
    return [('fails with patch.py\'s diagnostic exception', exc_class.name == 'Exception'),
            ('nothing was changed', z3.And(z3.BoolVal(not m.mutations and not st['type_writes']), *same))]


def is_none(x):
    return x


Contract(PATCH, '_static', ['C17'], pa_setup(2), post_for(lambda vm, st, new, old: z3.And(
    new['bound#none'], z3.Not(new['size#none']), new['size'] == st['params'][1].t, z3.Not(new['optional']), new['greedy'] == old['greedy'])),
    shapes=SH, raises=applies_only_if_found, hooks=pa_hooks(), modifies=['bound', 'size', 'optional'],
    notes=['static: a fixed array of the given size: no sizer left over, not optional'])

Contract(PATCH, '_dynamic', ['C17'], pa_setup(2), post_for(lambda vm, st, new, old: z3.And(
    z3.Not(new['bound#none']), new['bound'] == st['params'][1].t, new['size#none'], z3.Not(new['optional']), new['greedy'] == old['greedy'])),
    shapes=SH, raises=applies_only_if_found, hooks=pa_hooks(), modifies=['bound', 'size', 'optional'])

Contract(PATCH, '_greedy', ['C17'], pa_setup(1), post_for(lambda vm, st, new, old: z3.And(
    new['greedy'], new['bound#none'], new['size#none'], z3.Not(new['optional']))),
    shapes=SH, raises=applies_only_if_found, hooks=pa_hooks(), modifies=['bound', 'size', 'optional', 'greedy'])


def limited_expect(vm, st, new, old):
    return z3.And(z3.Not(new['bound#none']), new['bound'] == st['params'][1].t, new['size#none'] == old['size#none'], new['size'] == old['size'],
                  z3.Not(new['optional']), new['greedy'] == old['greedy'],
                  # applicable only to a fixed array, with the sizer among the preceding members
                  z3.Not(old['size#none']), NONEMPTY(old['size']))


Contract(PATCH, '_limited', ['C17'], pa_setup(2), post_for(limited_expect), shapes=SH, raises=applies_only_if_found, hooks=pa_hooks(),
         modifies=['bound', 'optional'])
