"""
contracts/cxx_swap.py -- CxxVC contracts for C09: the raw C++ swap (prophy_cpp/include/prophy/prophy.hpp,
detail/prophy.hpp, and the prophy::swap<T> functions prophyc generates into <schema>.pp.cpp), per schema.

Leaves (header, full-width bit-vector proofs): swap(uint16/32/64_t*) reverses the bytes of the pointee in place and
writes nothing else; the 8-bit overloads write nothing; the signed / floating overloads forward to them.
swap_n_fixed / swap_n_dynamic: apply swap to n consecutive elements and return the address behind the last.
cast<To>(from): from rounded up to the C++ alignment of *To (which PROPHY_STRUCT(n) sets to n).

Generated swap<T>(T* payload) (translation validation, all values, per schema of the family): the sequence of leaf
calls made while swapping a message -- which scalar, array or nested message, at which address, with which element
count -- is exactly what docs/encoding.rst prescribes for T (specs/wire.py offsets; counts and flags are the values the
foreign-endian buffer holds, i.e. the byte-reversed counter words of the input), every access stays inside the message,
and the returned address is payload + message length.  Since each leaf reverses one scalar in place, this is the
property: the buffer becomes the native encoding, nothing outside the message changes.
Raw struct layout (offsetof) is measured by g++ and used as the meaning of `payload->field` (C08's subject, listed).
"""
import z3

from vf.cxxvc import Contract, LoopSpec, CInt, CBool, CPtr, CObj, BV64, OutOfReach, parse_qual, fresh, CT, FrameFact, MemDef
from specs import wire as W
from . import cxx_header as H

bv = H.bv
ADDR_MAX, COUNT_MAX = H.ADDR_MAX, H.COUNT_MAX

RAWSZ = z3.Function('RAWSZ', BV64, BV64)                    # ghost: encoded size of the dynamic message at an address
ELEMADDR = z3.Function('ELEMADDR', BV64, BV64, BV64)        # ghost: address of the k-th element of a dynamic-element array


def rup(x, a):
    return (x + bv(a - 1)) & bv(~(a - 1) & ((1 << 64) - 1))


def bswap(t, nbytes):
    if nbytes == 1:
        return t
    return z3.Concat(*[z3.Extract(8 * i + 7, 8 * i, t) for i in range(nbytes)])


def load_le(mem, addr, nbytes):
    bs = [z3.Select(mem, addr + bv(i)) for i in range(nbytes)]
    return bs[0] if nbytes == 1 else z3.Concat(*reversed(bs))


def foreign_value(mem0, addr, nbytes):
    """numeric value of the scalar the foreign-endian buffer holds at addr (zero-extended to 64 bits)"""
    v = bswap(load_le(mem0, addr, nbytes), nbytes)
    return z3.ZeroExt(64 - 8 * nbytes, v) if nbytes < 8 else v


def frame_outside(mem0, mem1, lo, hi):
    """every byte outside [lo, hi) is unchanged"""
    x = z3.Const('fa', BV64)
    return z3.ForAll([x], z3.Implies(z3.Or(z3.ULT(x, lo), z3.UGE(x, hi)), z3.Select(mem1, x) == z3.Select(mem0, x)),
                     patterns=[z3.Select(mem1, x)])


def in_region(st, addr, nbytes):
    g = st.ghost
    return z3.And(z3.ULE(g['RLO'], addr), z3.ULE(addr, addr + nbytes), z3.ULE(addr + nbytes, g['RHI']), z3.ULT(addr, ADDR_MAX))


def setup_region(cx, st, a, key='in'):
    lo, hi = fresh('MLO', BV64), fresh('MHI', BV64)
    for k in ('RLO', 'WLO'):
        st.ghost[k] = lo
    for k in ('RHI', 'WHI'):
        st.ghost[k] = hi
    st.assume(z3.ULE(lo, hi))
    st.assume(z3.ULT(hi, ADDR_MAX))
    st.assume(z3.ULT(hi - lo, COUNT_MAX))


def hint(cx, st, addr, count=None):
    """While the generated swap<T> of a message is executed: look (small solver queries on the path condition) for the
    next documented visit whose address the path condition already entails to be the address of this leaf call, and
    state the entailed equation (and that of the counts) explicitly.  Nothing is assumed that the path condition does not
    entail; the equations only spare the later, larger queries the same derivation."""
    exp = st.ghost.get('expected')
    if exp is None or not cx.current or len(cx.fn_stack) < 1:
        return
    entries = exp[0]
    k = st.ghost.get('hint_k', 0)
    for j in range(k, min(len(entries), k + 4)):
        e = entries[j]
        if _entailed(st, addr == e[1]):
            st.assume(addr == e[1])
            st.ghost['hint_k'] = j + 1
            if count is not None and e[2] is not None and _entailed(st, count == e[2]):
                st.assume(count == e[2])
            return


def _entailed(st, f):
    s = z3.Solver()
    s.set('timeout', 5000)
    s.add(*st.pc)
    s.add(z3.Not(f))
    return s.check() == z3.unsat


# --------------------------------------------------------------------------- leaves

def scalar_swap_contract():
    """void prophy::swap(uintN_t* / intN_t* / float* / double*)"""
    def match(q, sig):
        return q.endswith('prophy::swap') and sig.startswith('void (') and sig.count(',') == 0

    def nbytes(a):
        return max(1, a['in'].elem.bits // 8)

    def requires(cx, st, a):
        n = nbytes(a)
        hint(cx, st, a['in'].addr)
        r = [('in_message', in_region(st, a['in'].addr, bv(n)))]
        if n > 1:
            r.append(('aligned', (a['in'].addr & bv(n - 1)) == 0))
        return r

    def ensures(cx, s0, a0, s1, a1, ret):
        n = nbytes(a0)
        p = a0['in'].addr
        v = load_le(s0.mem, p, n)
        if n == 1:
            return [('bytes reversed in place, nothing else written', MemDef(s0.mem, s1.mem, p, 0, None))]
        return [('bytes reversed in place, nothing else written', MemDef(s0.mem, s1.mem, p, n, lambda old: bswap(old, n)))]

    def effect(cx, s0, a0, s1, a1, ret):
        s1.trace.append(('scalar', a0['in'].addr, bv(1), nbytes(a0)))

    return Contract('swap(scalar*)', match, requires, ensures, modifies=('mem',), setup=setup_region, params=('in',),
                    props=('C09',), effect=effect)


def cast_contract():
    """To prophy::cast<To, From>(From from): the address rounded up to alignof(*To)"""
    def match(q, sig):
        return 'prophy::cast<' in q

    def target_align(cx, a):
        fn = a['__fn']
        to = H.targs(cx.ix.qualname(fn))[0]
        ct = parse_qual(cx, to)[0]
        return cx.alignof_ct(ct.elem)

    def requires(cx, st, a):
        return [('addr', z3.ULT(a['from'].addr, ADDR_MAX))]

    def ensures(cx, s0, a0, s1, a1, ret):
        al = target_align(cx, a0)
        r = [('rounded up to the alignment of the target type', ret.addr == rup(a0['from'].addr, al)),
             ('mem.unchanged', s1.mem == s0.mem)]
        base = s0.ghost.get('RLO')
        if base is not None:
            # the same fact in the form the wire layout is stated in (offsets from the start of the message): relative
            # to any base aligned at least as strictly, rounding the address up is rounding the offset up
            r.append(('rounding relative to an aligned base',
                      z3.Implies(z3.And((base & bv(al - 1)) == 0, z3.ULE(base, a0['from'].addr)),
                                 ret.addr == base + rup(a0['from'].addr - base, al))))
        return r

    def setup(cx, st, a):
        st.ghost['RLO'] = fresh('BASE', BV64)       # any base

    return Contract('cast', match, requires, ensures, params=('from',), props=('C09',), setup=setup)


def swap_n_fixed_contract():
    """Tp* swap_n_fixed(Tp* first, size_t n)"""
    def match(q, sig):
        return 'swap_n_fixed<' in q

    def esize(cx, a):
        e = a['first'].elem
        return e.size(cx) if e.kind != 'int' else max(1, e.bits // 8)

    def requires(cx, st, a):
        sz = esize(cx, a)
        e = a['first'].elem
        al = (e.bits // 8) if e.kind == 'int' else cx.alignof_ct(e)
        hint(cx, st, a['first'].addr, a['n'].t)
        r = [('count', z3.ULT(a['n'].t, COUNT_MAX)), ('in_message', in_region(st, a['first'].addr, a['n'].t * bv(sz)))]
        if al > 1:
            r.append(('aligned', (a['first'].addr & bv(al - 1)) == 0))
        return r

    def ensures(cx, s0, a0, s1, a1, ret):
        sz = esize(cx, a0)
        first, n = a0['first'].addr, a0['n'].t
        return [('returns the address behind the n-th element', ret.addr == first + n * bv(sz)),
                ('writes only the n elements', FrameFact(s0.mem, s1.mem, first, first + n * bv(sz)))]

    def setup(cx, st, a):
        setup_region(cx, st, a)
        st.ghost['first0'], st.ghost['n0'], st.ghost['mem0'] = a['first'].addr, a['n'].t, st.mem

    def inv(cx, st, env):
        g = st.ghost
        sz = esize(cx, {'first': env['first']})
        n, first = env['n'].t, env['first'].addr
        return [('n', z3.ULE(n, g['n0'])), ('first', first == g['first0'] + (g['n0'] - n) * bv(sz)),
                ('frame', frame_outside(g['mem0'], st.mem, g['first0'], first))]

    def lemmas(cx, st, env):
        g = st.ghost
        sz = esize(cx, {'first': env['first']})
        done = g['n0'] - env['n'].t - bv(1)          # the condition `n--` has already decremented n
        c = bv(sz)
        return [('mul.monotone', [z3.ULT(g['n0'], COUNT_MAX), z3.ULT(done, g['n0'])],
                 z3.And(z3.ULE((done + 1) * c, g['n0'] * c), z3.ULT(done * c, (done + 1) * c)))]

    def effect(cx, s0, a0, s1, a1, ret):
        s1.trace.append(('array', a0['first'].addr, a0['n'].t, esize(cx, a0)))

    loops = {0: LoopSpec(inv, variant=lambda cx, st, env: env['n'].t, modifies=('mem',), lemmas=lemmas)}
    return Contract('swap_n_fixed', match, requires, ensures, modifies=('mem',), setup=setup, params=('first', 'n'),
                    loops=loops, props=('C09',), effect=effect)


def swap_n_dynamic_contract():
    """Tp* swap_n_dynamic(Tp* first, size_t n): elements are dynamic messages"""
    def match(q, sig):
        return 'swap_n_dynamic<' in q

    def requires(cx, st, a):
        e = a['first'].elem
        al = cx.alignof_ct(e)
        first, n = a['first'].addr, a['n'].t
        hint(cx, st, first, n)
        return [('count', z3.ULT(n, COUNT_MAX)), ('aligned', (first & bv(al - 1)) == 0),
                ('in_message', z3.And(z3.ULE(st.ghost['RLO'], first), z3.ULE(ELEMADDR(first, n), st.ghost['RHI']),
                                      z3.ULE(first, ELEMADDR(first, n))))]

    def ensures(cx, s0, a0, s1, a1, ret):
        first, n = a0['first'].addr, a0['n'].t
        return [('returns the address behind the n-th element', ret.addr == ELEMADDR(first, n)),
                ('writes only the n elements', FrameFact(s0.mem, s1.mem, first, ELEMADDR(first, n)))]

    def setup(cx, st, a):
        setup_region(cx, st, a)
        st.ghost['first0'], st.ghost['n0'], st.ghost['mem0'] = a['first'].addr, a['n'].t, st.mem
        st.assume(ELEMADDR(a['first'].addr, bv(0)) == a['first'].addr)

    def inv(cx, st, env):
        g = st.ghost
        n, first = env['n'].t, env['first'].addr
        al = cx.alignof_ct(env['first'].elem)
        return [('n', z3.ULE(n, g['n0'])), ('first', first == ELEMADDR(g['first0'], g['n0'] - n)),
                ('aligned', (first & bv(al - 1)) == 0), ('frame', frame_outside(g['mem0'], st.mem, g['first0'], first))]

    def lemmas(cx, st, env):
        g = st.ghost
        done = g['n0'] - env['n'].t - bv(1)
        f0 = g['first0']
        return [('ELEMADDR(b, k+1) = ELEMADDR(b, k) + size of the k-th element, elements lie inside the array',
                 z3.And(ELEMADDR(f0, done + 1) == ELEMADDR(f0, done) + RAWSZ(ELEMADDR(f0, done)),
                        z3.ULE(ELEMADDR(f0, done), ELEMADDR(f0, done + 1)),
                        z3.ULE(ELEMADDR(f0, done + 1), ELEMADDR(f0, g['n0']))))]

    def effect(cx, s0, a0, s1, a1, ret):
        s1.trace.append(('dynarray', a0['first'].addr, a0['n'].t, None))

    loops = {0: LoopSpec(inv, variant=lambda cx, st, env: env['n'].t, modifies=('mem',), lemmas=lemmas)}
    return Contract('swap_n_dynamic', match, requires, ensures, modifies=('mem',), setup=setup, params=('first', 'n'),
                    loops=loops, props=('C09',), effect=effect)


# --------------------------------------------------------------------------- generated swap<T>

def type_of_payload(cx, a):
    p = a['payload']
    name = (p.elem.name or '').replace('struct ', '').strip()
    return name


def gen_swap_contract(type_names=None):
    """T* prophy::swap<T>(T* payload) for a generated struct / union T (not the part helpers and not the one-line enum
    specialisations, which are inlined)"""
    def match(q, sig):
        if not (q.startswith('prophy::swap<') or '::swap<' in q):
            return False
        if type_names is None:
            return True
        return any(q.endswith('swap<%s>' % n) for n in type_names)

    def tinfo(cx, a):
        name = type_of_payload(cx, a)
        info = cx.types.get(name)
        if info is None:
            raise OutOfReach('no wire information for raw type %s' % name)
        return name, info

    def size_term(cx, st, a):
        name, info = tinfo(cx, a)
        return bv(info['fixed_size']) if info['fixed_size'] >= 0 else RAWSZ(a['payload'].addr)

    def requires(cx, st, a):
        name, info = tinfo(cx, a)
        p = a['payload'].addr
        if not (cx.current and cx.current[2] is a.get('__fn')):
            hint(cx, st, p)
        return [('aligned', (p & bv(info['align'] - 1)) == 0), ('in_message', in_region(st, p, size_term(cx, st, a)))]

    def ensures(cx, s0, a0, s1, a1, ret):
        name, info = tinfo(cx, a0)
        p = a0['payload'].addr
        size = size_term(cx, s0, a0)
        r = []
        verifying = cx.current and cx.current[2] is a0['__fn']
        if verifying:
            r += swap_obligations(cx, s0, s1, p, info['schema'], ret)
        else:
            r.append(('returns payload + message length', ret.addr == p + size))
            r.append(('writes only inside the message', FrameFact(s0.mem, s1.mem, p, p + size)))
            # type invariants of a message's length: a multiple of its alignment, at least the minimal encoding
            r.append(('length.aligned', (size & bv(info['align'] - 1)) == 0))
            r.append(('length.min', z3.UGE(size, bv(info['min_size']))))
            r.append(('length.small', z3.ULT(size, COUNT_MAX)))
        return r

    def setup(cx, st, a):
        name, info = tinfo(cx, a)
        p = a['payload'].addr
        st.assume(z3.ULT(p, bv(1 << 61)))          # environment: addresses below 2^61, so that p + length < 2^62
        entries, total, unlimited_at = raw_layout(cx, st, info['schema'], p, st.mem)
        st.ghost['expected'] = (entries, total, unlimited_at)
        for k in ('RLO', 'WLO'):
            st.ghost[k] = p
        for k in ('RHI', 'WHI'):
            st.ghost[k] = p + total
        st.assume(z3.ULT(total, COUNT_MAX))
        st.trace = []

    def effect(cx, s0, a0, s1, a1, ret):
        s1.trace.append(('struct', a0['payload'].addr, bv(1), None))

    return Contract('swap<T>', match, requires, ensures, modifies=('mem',), setup=setup, params=('payload',),
                    props=('C09',), effect=effect)


def raw_layout(cx, st, t, base, mem0):
    """the leaf visits docs/encoding.rst prescribes for message t at address base of the foreign-endian buffer mem0:
    ([(kind, address, count, element size, condition)], total length, offset of the unlimited member or None)"""
    entries = []
    if isinstance(t, W.Union):
        a = W.A(t)
        entries.append(('scalar', base, bv(1), 4, z3.BoolVal(True)))
        disc = foreign_value(mem0, base, 4)
        for arm in t.arms:
            cond = disc == bv(arm.disc)
            entries.extend(_value_entries(cx, st, arm.ty, base + bv(a), mem0, cond))
        return entries, bv(W.S(t)), None
    off = bv(0)
    sizer_at = {}
    unlimited_at = None
    for i, f in enumerate(t.fields):
        off = rup(off, W.A(f.ty))
        addr = base + off
        ty = f.ty
        if f.sizer_of:
            entries.append(('scalar', addr, bv(1), ty.size, z3.BoolVal(True)))
            for arr in f.sizer_of:
                sizer_at[arr] = foreign_value(mem0, addr, ty.size)
            off = off + bv(ty.size)
            continue
        if isinstance(ty, (W.Array, W.Bytes)):
            es = 1 if isinstance(ty, W.Bytes) else (W.S(ty.elem) if W.stiff(ty.elem) == 0 else None)
            if ty.mode == W.GREEDY:
                unlimited_at = off
                break
            if ty.mode == W.FIXED:
                cnt = bv(ty.n)
            else:
                cnt = sizer_at.get(f.name)
                if cnt is None:
                    raise OutOfReach('array %s has no sizer field' % f.name)
            if es is not None:
                entries.append(('array', addr, cnt, es, z3.BoolVal(True)))
                off = off + (bv(ty.n * es) if ty.mode in (W.FIXED, W.LIMITED) else cnt * bv(es))
            else:
                entries.append(('dynarray', addr, cnt, None, z3.BoolVal(True)))
                st.assume(ELEMADDR(addr, bv(0)) == addr)
                st.assume(z3.ULE(addr, ELEMADDR(addr, cnt)))
                st.assume(z3.ULT(ELEMADDR(addr, cnt) - addr, COUNT_MAX))
                st.assume(((ELEMADDR(addr, cnt) - addr) & bv(W.A(ty.elem) - 1)) == 0)
                off = off + (ELEMADDR(addr, cnt) - addr)
            st.assume(z3.ULT(cnt, COUNT_MAX))
            if ty.mode == W.LIMITED:
                st.assume(z3.ULE(cnt, bv(ty.n)))        # a message: the counter of a limited array is within its limit
        elif isinstance(ty, W.Struct) and W.stiff(ty) == 2:
            unlimited_at = off
            break
        else:
            entries.extend(_value_entries(cx, st, ty, addr, mem0, z3.BoolVal(True)))
            off = off + _value_size(cx, st, ty, addr)
        if W.is_dynamic_field(ty):
            off = rup(off, W.blk(t, i))
    total = rup(off, W.A(t))
    return entries, total, unlimited_at


def _value_size(cx, st, ty, addr):
    if isinstance(ty, W.Struct) and W.stiff(ty) != 0:
        s = RAWSZ(addr)
        st.assume((s & bv(W.A(ty) - 1)) == 0)
        st.assume(z3.ULT(s, COUNT_MAX))
        st.assume(z3.UGE(s, bv(W.min_size(ty))))
        return s
    return bv(W.S(ty))


def _value_entries(cx, st, ty, addr, mem0, cond):
    if isinstance(ty, (W.Int, W.Float, W.Enum)):
        return [('scalar', addr, bv(1), W.S(ty), cond)]
    if isinstance(ty, (W.Struct, W.Union)):
        return [('struct', addr, bv(1), None, cond)]
    if isinstance(ty, W.Optional):
        out = [('scalar', addr, bv(1), 4, cond)]
        flag = foreign_value(mem0, addr, 4)
        vaddr = addr + bv(W.opt_alignment(W.A(ty.base)))
        out.extend(_value_entries(cx, st, ty.base, vaddr, mem0, z3.And(cond, flag != 0)))
        return out
    raise OutOfReach('value entries of %r' % (ty,))


def swap_obligations(cx, s0, s1, p, t, ret):
    """the leaf calls made (s1.trace, in order) are exactly the prescribed ones whose condition holds; the return value"""
    entries, total, unlimited_at = s0.ghost['expected']
    trace = [e for e in s1.trace]
    r = []
    # walk expected entries; those with a condition that is false on this path must be absent, the others present
    k = 0
    for i, (kind, addr, cnt, es, cond) in enumerate(entries):
        nxt = trace[k] if k < len(trace) else None
        looks = nxt is not None and nxt[0] == kind and (es is None or nxt[3] == es)
        same = z3.And(nxt[1] == addr, nxt[2] == cnt) if looks else z3.BoolVal(False)
        # the next visit made on this path is taken to be this prescribed one when it can be (same kind, and the
        # addresses may coincide under the path condition); then it must be it, and its condition must hold
        if looks and s1_feasible_with(cx, s1, same):
            r.append(('visit%d.%s at the documented address, with the documented count, under its condition' % (i, kind),
                      z3.And(same, cond)))
            k += 1
        else:
            r.append(('visit%d.%s omitted only when its condition fails' % (i, kind), z3.Not(cond)))
    r.append(('no further visits', z3.BoolVal(k == len(trace))))
    if unlimited_at is None:
        r.append(('returns payload + message length', ret.addr == p + total))
    else:
        r.append(('unlimited.returns the address of the unlimited member', ret.addr == p + unlimited_at))
    return r


def s1_feasible_with(cx, st, cond):
    s = z3.Solver()
    s.set('timeout', 3000)
    s.add(*st.pc)
    s.add(cond)
    return s.check() != z3.unsat


def all_contracts(type_names=None):
    cs = [scalar_swap_contract(), cast_contract(), swap_n_fixed_contract(), swap_n_dynamic_contract(),
          gen_swap_contract(type_names)]
    for c in H.all_contracts():
        if c.name in ('align',):
            c.verify = False
            cs.append(c)
    return cs


def type_table(types):
    out = {}
    for t in types:
        fixed = W.stiff(t) == 0
        out[t.name] = {'fixed_size': W.S(t) if fixed else -1, 'align': W.A(t), 'min_size': W.min_size(t), 'schema': t}
    return out


def overaligned_part(t):
    """schema shape of a recorded finding: a part helper `swap(S::partK*)` rounds the end of its dynamic field up to its
    *own* alignment before the caller rounds it to the next part's; wrong when the next part is less aligned"""
    if not isinstance(t, W.Struct):
        return False
    dyn = [i for i, f in enumerate(t.fields) if W.is_dynamic_field(f.ty) and i < len(t.fields) - 1]
    aligns = [W.blk(t, i) for i in dyn]           # alignment of the part that follows dynamic field i
    for j in range(len(aligns) - 1):
        if aligns[j] > aligns[j + 1]:
            return True
    return False


def enum_names(types):
    out = set()

    def walk(t):
        if isinstance(t, W.Enum):
            out.add(t.name)
        elif isinstance(t, W.Struct):
            for f in t.fields:
                walk(f.ty)
        elif isinstance(t, W.Union):
            for a in t.arms:
                walk(a.ty)
        elif isinstance(t, (W.Array, W.Optional)):
            walk(t.elem if isinstance(t, W.Array) else t.base)
    for t in types:
        walk(t)
    return out


def designators(t):
    """(record designator, member) pairs whose offsets g++ is asked for"""
    rows = []
    if isinstance(t, W.Union):
        rows.append((t.name, 'discriminator'))
        for arm in t.arms:
            rows.append((t.name, arm.name))
        return rows
    part_type, part_no, new_part = t.name, 1, False
    for f in t.fields:
        if new_part:
            part_no += 1
            part_type, new_part = '%s::part%d' % (t.name, part_no), False
        if isinstance(f.ty, W.Optional):
            rows.append((part_type, 'has_' + f.name))
        rows.append((part_type, f.name))
        if W.is_dynamic_field(f.ty):
            new_part = True
    return rows
