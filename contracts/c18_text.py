"""C18 (Python half): text rendering -- struct.__str__, union.__str__, field_to_string (prophy/composite.py).

Strings are opaque (sort PyStr); formatting with a literal format is an uninterpreted function of the literal over the
operands (vf/interp.py: format_term), concatenation is the uninterpreted `strcat`.  So the contracts pin down *which*
pieces are produced, from which operands and in which order -- one piece per field in declaration order, absent (None)
fields omitted, falsy-but-present values (0, empty array, enumerator 0) kept, only the discriminated arm of a union, and
the per-kind dispatch of field_to_string -- while the character-level content of a piece (repr of bytes, the two-space
indentation) is the bounded stand-in's part (cxx_codec compares Python str(), C++ print() and specs/text.py).
"""
import z3

from vf.contract import Contract, LoopAnn
from vf.pyvc import SRef, SSeq, SInt, SBytes, SBool, SStr, Ref, OpaqueFn, Sym, OutOfSubset, StrSort, Closure
from .rt_shapes import COMPOSITE, SHAPES, new_fields, sel
from .c01_encode import AnyValue, OpaqueType, FieldValue

FTS = z3.Function('FTS', StrSort, Ref, Ref, StrSort)        # field_to_string(name, type, value) -- callee contract
STRV = z3.Function('STRV', Ref, StrSort)                    # str(value)


def strcat(a, b):
    return z3.Function('strcat', StrSort, StrSort, StrSort)(a, b)


class FieldVal(Sym):
    """getattr(self, field.name, None) of field f: None or present; presence independent of truthiness"""

    def __init__(self, vm, field_t):
        self.field_t = field_t
        self.isnone = z3.Select(vm.heap_array('_ghost_value#none'), field_t)
        self.falsy = z3.Select(vm.heap_array('_ghost_value#falsy'), field_t)
        self.id = z3.Select(vm.heap_array('_ghost_value'), field_t)

    def sym_truthy(self, vm):
        return z3.And(z3.Not(self.isnone), z3.Not(self.falsy))

    def sym_is_none(self, vm):
        return self.isnone


RT = dict(SHAPES)
RT['_ghost_value'] = ('optref', None)         # ghost: the current value of a field (None or an object identity)
RT['_ghost_value#falsy'] = 'bool'


# ------------------------------------------------------------------ struct.__str__

def sstr_setup(vm, module, env):
    cls = env.get('struct')
    self = vm.fresh_ref('self', cls)
    fields = new_fields(vm)
    vm.path.objattrs[(str(self.t), '_descriptor')] = fields
    # ghost: the text after k fields.  ACC(0) = ''; ACC(k+1) = ACC(k) if field k is None else ACC(k) ++ FTS(field k)
    ACC = z3.Function('ACC', z3.IntSort(), StrSort)
    vm.assume(ACC(0) == vm.contract.str_const(''))
    st = {'args': [self], 'self': self, 'fields': fields, 'ACC': ACC, 'closure_env': {}}
    vm.state = st
    return st


def piece(vm, f_t):
    name = sel(vm, 'name', f_t)
    ty = sel(vm, 'type', f_t)
    val = z3.Select(vm.heap_array('_ghost_value'), f_t)
    return FTS(name, ty, val)


def sstr_unfold(vm, env, k):
    st = vm.state
    f, ACC = st['fields'].fn, st['ACC']
    isnone = z3.Select(vm.heap_array('_ghost_value#none'), f(k))
    return [ACC(k + 1) == z3.If(isnone, ACC(k), strcat(ACC(k), piece(vm, f(k))))]


def sstr_inv(vm, env, k):
    st = vm.state
    acc = env.get('__acc__')
    return [('text so far == spec text of the first k fields', vm.as_str(acc) == st['ACC'](k))]


def sstr_getattr_dyn(vm, obj, name, *default):
    t = name.t
    if z3.is_app(t) and t.decl().kind() == z3.Z3_OP_SELECT:
        vm.oblige('call.getattr:(self, field.name, None)', z3.And(obj.t == vm.state['self'].t, z3.BoolVal(bool(default) and default[0] is None)),
                  'call', vm.cur_line)
        return FieldVal(vm, t.arg(1))
    raise OutOfSubset('getattr with a name that is not field.name')


def sstr_call(vm, fn, args, kwargs, node):
    if isinstance(fn, Closure) and fn.qualname.endswith('field_to_string'):
        # callee contract: FTS(name, type, value); call-site obligation: the operands belong to one and the same field
        v = args[2]
        ok = isinstance(v, FieldVal)
        vm.oblige('call.field_to_string:(field.name, field.type, value of that field)',
                  z3.And(args[0].t == sel(vm, 'name', v.field_t), args[1].t == sel(vm, 'type', v.field_t)) if ok else z3.BoolVal(False),
                  'call', vm.cur_line)
        return SStr(FTS(args[0].t, args[1].t, v.id))
    return NotImplemented


def sstr_issubclass(vm, x, c):
    """kind tests on a field's type (codec_kind.*): an uninterpreted predicate of the type, one per class tuple"""
    if isinstance(x, SRef):
        names = '_'.join(sorted(str(getattr(k, 'name', None) or getattr(k, '__name__', None) or k) for k in (c if isinstance(c, tuple) else (c,))))
        return SBool(z3.Function('issubclass.%s' % names, Ref, z3.BoolSort())(x.t))
    return NotImplemented


def sstr_post(vm, st, result):
    return [('str(struct) == pieces of the present fields in declaration order', vm.as_str(result) == st['ACC'](st['fields'].length))]


Contract(COMPOSITE, 'struct.__str__', ['C18'], sstr_setup, sstr_post, shapes=RT, modifies=[],
         loops={('struct.__str__.to_str', 0): LoopAnn(sstr_inv, index='k', unfold=sstr_unfold)},
         hooks={'call': sstr_call, 'getattr_dyn': sstr_getattr_dyn, 'issubclass': sstr_issubclass},
         notes=['field_to_string by contract (this module); absent == None, independent of truthiness'])


# ------------------------------------------------------------------ union.__str__

def ustr_setup(vm, module, env):
    cls = env.get('union')
    self = vm.fresh_ref('self', cls)
    d = SRef(sel(vm, '_discriminated', self.t), None, False)
    st = {'args': [self], 'self': self, 'd': d, 'closure_env': {}}
    vm.state = st
    return st


def ustr_getattr_dyn(vm, obj, name, *default):
    st = vm.state
    vm.oblige('call.getattr:(self, discriminated.name)', z3.And(obj.t == st['self'].t, name.t == sel(vm, 'name', st['d'].t)),
              'call', vm.cur_line)
    return FieldVal(vm, st['d'].t)


def ustr_post(vm, st, result):
    d = st['d'].t
    return [('str(union) == the discriminated arm only', vm.as_str(result) == piece(vm, d))]


Contract(COMPOSITE, 'union.__str__', ['C18'], ustr_setup, ustr_post, shapes=RT, modifies=[],
         hooks={'call': sstr_call, 'getattr_dyn': ustr_getattr_dyn},
         notes=['field_to_string by contract'])


# ------------------------------------------------------------------ field_to_string

class TextVal(Sym):
    """the value handed to field_to_string: opaque, with an identity"""

    def __init__(self, vm, name='value'):
        self.id = vm.fresh(name, Ref)


class Lines(Sym):
    """text.split('\\n')"""

    def __init__(self, text):
        self.text = text


INDENTED = z3.Function('INDENTED', StrSort, StrSort)        # every non-empty line of the text prefixed by two spaces
REPRB = z3.Function('REPRB', Ref, StrSort)                  # repr_bytes(value)
ENUMNAME = z3.Function('ENUMNAME', Ref, Ref, StrSort)       # type._int_to_name[value]
JOINED = z3.Function('JOINED', StrSort, Ref, Ref, StrSort)  # ''.join(field_to_string(name, T, e) for e in value)
ELEM = z3.Function('ELEM', Ref, z3.IntSort(), Ref)          # j-th element of an array value
LINE = z3.Function('LINE', StrSort, z3.IntSort(), StrSort)  # j-th line of a text


def fts_setup(vm, module, env):
    name = SStr(vm.fresh('name', StrSort))
    ty = vm.fresh_ref('type_', None)
    val = TextVal(vm)
    flags = {k: vm.fresh(k, z3.BoolSort()) for k in ('ISARR', 'ISCOMP', 'ISBYTES', 'ISENUM')}
    st = {'args': [name, ty, val], 'name': name, 'type': ty, 'value': val, 'closure_env': {}, 'joins': []}
    st.update(flags)
    vm.state = st
    return st


def _cname(c):
    return getattr(c, 'name', None) or getattr(c, '__name__', None) or str(c)


def fts_issubclass(vm, x, c):
    st = vm.state
    if isinstance(x, SRef) and x.t.eq(st['type'].t):
        names = tuple(sorted(_cname(k) for k in c)) if isinstance(c, tuple) else (_cname(c),)
        if names == ('base_array',):
            return SBool(st['ISARR'])
        if names == ('struct', 'union'):
            return SBool(st['ISCOMP'])
        if names == ('bytes',):
            return SBool(st['ISBYTES'])
        if names == ('enum',):
            return SBool(st['ISENUM'])
        raise OutOfSubset('issubclass(type_, %r)' % (names,))
    return NotImplemented


def fts_getattr(vm, obj, attr):
    st = vm.state
    if isinstance(obj, SRef) and obj.t.eq(st['type'].t):
        if attr == '_TYPE':
            return SRef(sel(vm, '_TYPE', obj.t), None, False)
        if attr == '_int_to_name':
            return OpaqueFn(obj, '_int_to_name')
    return NotImplemented


def fts_index(vm, obj, idx):
    if isinstance(obj, OpaqueFn) and obj.attr == '_int_to_name':
        vm.oblige('call._int_to_name[value]', z3.BoolVal(isinstance(idx, TextVal) and idx is vm.state['value']), 'call', vm.cur_line)
        return SStr(ENUMNAME(obj.owner.t, vm.state['value'].id))
    return NotImplemented


def fts_str(vm, x):
    if isinstance(x, TextVal):
        return SStr(STRV(x.id))
    return NotImplemented


def fts_iterate(vm, it):
    st = vm.state
    if isinstance(it, TextVal):
        # `for elem in value`: a generic element (index j arbitrary) stands for all of them
        j = vm.fresh('j')
        e = TextVal(vm, 'elem')
        vm.assume(e.id == ELEM(it.id, j))
        st['elem'] = e
        return [e]
    if isinstance(it, Lines):
        j = vm.fresh('j')
        ln = SStr(vm.fresh('line', StrSort))
        vm.assume(ln.t == LINE(it.text, j))
        from vf.pyvc import NONEMPTY
        # string axiom (instance): a concatenation with the non-empty constant '  ' is non-empty
        vm.assume(NONEMPTY(strcat(vm.contract.str_const('  '), ln.t)))
        st['line'] = ln
        return [ln]
    return NotImplemented


def fts_method(vm, obj, name, args, kwargs):
    if isinstance(obj, SStr) and name == 'split' and args == ['\n']:
        return Lines(obj.t)
    return NotImplemented


def fts_call(vm, fn, args, kwargs, node):
    st = vm.state
    if isinstance(fn, Closure) and fn.qualname.endswith('repr_bytes'):
        vm.oblige('call.repr_bytes(value)', z3.BoolVal(args[0] is st['value']), 'call', vm.cur_line)
        return SStr(REPRB(st['value'].id))
    if isinstance(fn, Closure) and fn.qualname.endswith('field_to_string') and vm.call_depth > 0:
        # recursive call for the elements of an array: callee contract
        e = args[2]
        vm.oblige('call.field_to_string(name, type_._TYPE, element)',
                  z3.And(args[0].t == st['name'].t, args[1].t == sel(vm, '_TYPE', st['type'].t),
                         z3.BoolVal(isinstance(e, TextVal) and e is st.get('elem'))), 'call', vm.cur_line)
        return SStr(FTS(args[0].t, args[1].t, e.id))
    return NotImplemented


def fts_str_join(vm, sep, gen):
    st = vm.state
    items = vm.iterate(gen)
    if sep == '':
        # "".join(field_to_string(name, type_._TYPE, elem) for elem in value)
        ok = len(items) == 1 and isinstance(items[0], SStr)
        e = st.get('elem')
        vm.oblige('join: every piece is field_to_string(name, element type, that element)',
                  items[0].t == FTS(st['name'].t, sel(vm, '_TYPE', st['type'].t), e.id) if ok and e is not None else z3.BoolVal(False),
                  'call', vm.cur_line)
        st['joins'].append('elements')
        return SStr(JOINED(st['name'].t, sel(vm, '_TYPE', st['type'].t), st['value'].id))
    if sep == '\n':
        # '\n'.join(x and '  ' + x or '' for x in text.split('\n'))
        ln = st.get('line')
        ok = len(items) == 1 and ln is not None
        from vf.pyvc import NONEMPTY
        two = vm.contract.str_const('  ')
        want = z3.If(NONEMPTY(ln.t), strcat(two, ln.t), vm.contract.str_const('')) if ok else None
        vm.oblige('indent: every non-empty line is prefixed by two spaces, empty lines stay empty',
                  vm.as_str(items[0]) == want if ok else z3.BoolVal(False), 'call', vm.cur_line)
        st['joins'].append('lines')
        src = None
        # which text was split: taken from the generic line's definition
        return SStr(INDENTED(st['split_text'])) if 'split_text' in st else NotImplemented
    return NotImplemented


def fts_method2(vm, obj, name, args, kwargs):
    if isinstance(obj, SStr) and name == 'split' and list(args) == ['\n']:
        vm.state['split_text'] = obj.t
        return Lines(obj.t)
    return NotImplemented


def fts_post(vm, st, result):
    name, ty, v = st['name'].t, st['type'].t, st['value'].id
    r = vm.as_str(result)
    arr, comp, byt, enu = st['ISARR'], st['ISCOMP'], st['ISBYTES'], st['ISENUM']
    line = lambda x: vm.format_term('%s: %s\n', (SStr(name), SStr(x)))
    block = vm.format_term('%s {\n%s}\n', (SStr(name), SStr(INDENTED(STRV(v)))))
    return [('array: the pieces of its elements, joined', z3.Implies(arr, r == JOINED(name, sel(vm, '_TYPE', ty), v))),
            ('composite: name { indented str(value) }', z3.Implies(z3.And(z3.Not(arr), comp), r == block)),
            ('bytes: name: repr_bytes(value)', z3.Implies(z3.And(z3.Not(arr), z3.Not(comp), byt), r == line(REPRB(v)))),
            ('enum: name: enumerator name', z3.Implies(z3.And(z3.Not(arr), z3.Not(comp), z3.Not(byt), enu), r == line(ENUMNAME(ty, v)))),
            ('scalar: name: str(value)', z3.Implies(z3.And(z3.Not(arr), z3.Not(comp), z3.Not(byt), z3.Not(enu)), r == line(STRV(v))))]


RT2 = dict(RT)
RT2['_TYPE'] = ('ref', None)

Contract(COMPOSITE, 'field_to_string', ['C18'], fts_setup, fts_post, shapes=RT2, modifies=[],
         hooks={'issubclass': fts_issubclass, 'getattr': fts_getattr, 'index': fts_index, 'str': fts_str, 'iterate': fts_iterate,
                'method': fts_method2, 'call': fts_call, 'str_join': fts_str_join},
         notes=['recursive call for array elements by contract; repr_bytes / _int_to_name / str(value) are opaque operands'])
