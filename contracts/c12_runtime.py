"""C12 / C04: the run-time array factory prophy.container.array(type_, size=, bound=, shift=) -- which element types and
argument combinations it accepts (it must agree with prophyc on legality) and the statics of the array type it builds.

For every element type (its statics _SIZE, _ALIGNMENT, _DYNAMIC, _UNLIMITED, _OPTIONAL and its kind: array / bytes / composite
are arbitrary) and every size >= 0, bound (a name or none) and shift:
  rejected (ProphyError, nothing else) exactly when one of the documented rules is broken:
      an array of arrays or of bytes; a fixed or limited array (size given) of a dynamic type; an array of ANY kind -- fixed,
      limited, counted, greedy -- of an unlimited type; an array of an optional type; a shift without a bound or with a size;
  otherwise the class it returns has  _max_len = size, _SIZE = size * T._SIZE, _DYNAMIC = (no size), _UNLIMITED = (no size
      and no bound), _ALIGNMENT = T._ALIGNMENT, _BOUND = bound, _BOUND_SHIFT = shift, and is a fixed array class exactly when a
      size and no bound is given, a composite array class exactly when T is a struct or union.
"""
import ast
import z3

from vf.contract import Contract
from vf.pyvc import SRef, SInt, SBool, SStr, SOptStr, Ref, Sym, OutOfSubset, StrSort, ClassInfo, NONEMPTY
from .rt_shapes import SHAPES, ALIGNS, sel, _in

CONTAINER = 'prophy/container.py'

IS_ARRAY = z3.Function('type.is_array', Ref, z3.BoolSort())
IS_BYTES = z3.Function('type.is_bytes', Ref, z3.BoolSort())
IS_COMPOSITE = z3.Function('type.is_composite', Ref, z3.BoolSort())


def arr_setup(vm, module, env):
    T = vm.fresh_ref('type_', None)
    t = T.t
    vm.assume(z3.And(_in(sel(vm, '_ALIGNMENT', t), ALIGNS), sel(vm, '_SIZE', t) >= 0))
    size, shift = SInt(vm.fresh('size')), SInt(vm.fresh('shift'))
    vm.assume(size.t >= 0)
    bound = SOptStr(vm.fresh('bound#none', z3.BoolSort()), vm.fresh('bound', StrSort))
    st = {'args': [T], 'kwargs': {'size': size, 'bound': bound, 'shift': shift}, 'T': T, 'size': size, 'shift': shift, 'bound': bound,
          'made': None, 'closure_env': {}}
    vm.state = st
    return st


def arr_issubclass(vm, x, c):
    st = vm.state
    if isinstance(x, SRef) and x.t.eq(st['T'].t):
        names = sorted(str(getattr(k, 'name', None) or getattr(k, '__name__', None) or k) for k in (c if isinstance(c, tuple) else (c,)))
        if names == ['base_array']:
            return vm.decide(IS_ARRAY(x.t))
        if names == ['bytes']:
            return vm.decide(IS_BYTES(x.t))
        if names == ['struct', 'union']:
            return vm.decide(IS_COMPOSITE(x.t))
        raise OutOfSubset('issubclass(type_, %r)' % (names,))
    return NotImplemented


def arr_classdef(vm, node, env):
    """class _array(base): <assignments>  -- the statics of the new type are the values assigned in the class body"""
    st = vm.state
    if len(node.bases) != 1:
        raise OutOfSubset('class _array with %d bases' % len(node.bases))
    base = vm.eval(node.bases[0], env)
    attrs = {}
    for s in node.body:
        if isinstance(s, ast.Assign) and len(s.targets) == 1 and isinstance(s.targets[0], ast.Name):
            attrs[s.targets[0].id] = vm.eval(s.value, env)
        elif isinstance(s, ast.Pass) or (isinstance(s, ast.Expr) and isinstance(s.value, ast.Constant)):
            continue
        else:
            raise OutOfSubset('statement in the class body of _array')
    new = Made(getattr(base, 'name', repr(base)), attrs)
    st['made'] = new
    env.set(node.name, new)


class Made(Sym):
    def __init__(self, base, attrs):
        self.base, self.attrs = base, attrs


def _truthy_bound(st):
    b = st['bound']
    return z3.And(z3.Not(b.isnone), NONEMPTY(b.t))


def illegal(vm, st):
    t = st['T'].t
    size, shift = st['size'].t, st['shift'].t
    bound = _truthy_bound(st)
    return z3.Or(IS_ARRAY(t), IS_BYTES(t), z3.And(size > 0, sel(vm, '_DYNAMIC', t)), z3.And(shift != 0, z3.Or(z3.Not(bound), size > 0)),
                 sel(vm, '_UNLIMITED', t), sel(vm, '_OPTIONAL', t))


def _int(vm, x):
    return vm.as_int(x)


def _bool(vm, x):
    if isinstance(x, bool):
        return z3.BoolVal(x)
    return vm.truthy(x) if isinstance(x, Sym) else z3.BoolVal(bool(x))


def arr_post(vm, st, result):
    t = st['T'].t
    size = st['size'].t
    bound = _truthy_bound(st)
    r = [('accepted only when no composability rule is broken', z3.Not(illegal(vm, st)))]
    m = st['made']
    if m is None or result is not m:
        return r + [('returns the array class built here', z3.BoolVal(False))]
    a = m.attrs
    need = ('_max_len', '_TYPE', '_SIZE', '_DYNAMIC', '_UNLIMITED', '_OPTIONAL', '_ALIGNMENT', '_BOUND', '_BOUND_SHIFT')
    if any(k not in a for k in need):
        return r + [('the class carries all statics', z3.BoolVal(False))]
    r += [('_max_len == size', _int(vm, a['_max_len']) == size),
          ('_SIZE == size * element size', _int(vm, a['_SIZE']) == size * sel(vm, '_SIZE', t)),
          ('_DYNAMIC iff no size', _bool(vm, a['_DYNAMIC']) == (size == 0)),
          ('_UNLIMITED iff neither size nor bound', _bool(vm, a['_UNLIMITED']) == z3.And(size == 0, z3.Not(bound))),
          ('_OPTIONAL is False', z3.Not(_bool(vm, a['_OPTIONAL']))),
          ('_ALIGNMENT == element alignment', _int(vm, a['_ALIGNMENT']) == sel(vm, '_ALIGNMENT', t)),
          ('_TYPE is the element type', z3.BoolVal(isinstance(a['_TYPE'], SRef) and a['_TYPE'].t.eq(t))),
          ('_BOUND is the bound given', z3.BoolVal(a['_BOUND'] is st['bound'])),
          ('_BOUND_SHIFT is the shift given', _int(vm, a['_BOUND_SHIFT']) == st['shift'].t),
          ('a fixed array class iff size and no bound', z3.BoolVal(m.base.startswith('fixed_')) == z3.And(size > 0, z3.Not(bound))),
          ('a composite array class iff the element is a struct or union', z3.BoolVal(m.base.endswith('_composite_array')) == IS_COMPOSITE(t))]
    return r


def arr_raises(vm, st, exc_class, exc_args):
    return [('only ProphyError', z3.BoolVal(exc_class.is_sub('ProphyError'))),
            ('rejected only when a composability rule is broken', illegal(vm, st))]


Contract(CONTAINER, 'array', ['C12', 'C04'], arr_setup, arr_post, shapes=dict(SHAPES), raises=arr_raises, modifies=[],
         hooks={'issubclass': arr_issubclass, 'classdef': arr_classdef},
         notes=['the element type is abstract: its statics and kind are arbitrary; unknown keyword arguments are not explored'])
