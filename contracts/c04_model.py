"""C04 (model side): contracts on prophyc.model.evaluate_sizes.* against specs/wire.py"""
import z3

from vf.contract import Contract, LoopAnn
from vf.pyvc import SRef, SSeq, SInt
from vf.speclib import spec_int
from .model_shapes import MODEL, SHAPES, new_members, model_class, int_attr, none_attr

ALIGNS = (1, 2, 4, 8)


def _in(t, vals):
    return z3.Or(*[t == v for v in vals])


# ------------------------------------------------------------------ evaluate_union_size

def union_setup(vm, module, env):
    node = vm.fresh_ref('node', model_class(vm, module, 'Union'))
    members = new_members(vm, module, 'UnionMember')
    vm.path.objattrs[(str(node.t), '_value')] = members
    j = z3.Int('j')
    f, n = members.fn, members.length
    al = lambda t: int_attr(vm, 'alignment', t)
    bs = lambda t: int_attr(vm, 'byte_size', t)
    # requires: evaluate_members_sizes succeeded: every arm has a size and an alignment
    vm.assume(z3.ForAll([j], z3.Implies(z3.And(0 <= j, j < n), z3.And(
        z3.Not(none_attr(vm, 'alignment', f(j))), z3.Not(none_attr(vm, 'byte_size', f(j))),
        _in(al(f(j)), ALIGNS), bs(f(j)) >= 0, bs(f(j)) < 2 ** 40)), patterns=[f(j)]))
    # ghost: the spec's maxima over the arms (wire.S / wire.A of a Union)
    MA, MS = vm.fresh('MA'), vm.fresh('MS')
    vm.assume(z3.ForAll([j], z3.Implies(z3.And(0 <= j, j < n), z3.And(al(f(j)) <= MA, bs(f(j)) <= MS)), patterns=[f(j)]))
    wa, ws = vm.fresh('wa'), vm.fresh('ws')
    vm.assume(z3.If(n > 0, z3.And(0 <= wa, wa < n, al(f(wa)) == MA, 0 <= ws, ws < n, bs(f(ws)) == MS),
                    z3.And(MA == 1, MS == 0)))
    return {'args': [node], 'node': node, 'MA': MA, 'MS': MS, 'closure_env': {'DISC_SIZE': env.get('DISC_SIZE')}}


def union_post(vm, st, result):
    node = st['node']
    a = vm.load(node, 'alignment')
    b = vm.load(node, 'byte_size')
    MA, MS = SInt(st['MA']), SInt(st['MS'])
    return [
        ('alignment==A(U)', z3.And(z3.Not(a.isnone), a.val == spec_int(vm, 'union_alignment', MA))),
        ('byte_size==S(U)', z3.And(z3.Not(b.isnone), b.val == spec_int(vm, 'union_size', MS, MA))),
    ]


Contract(MODEL, 'evaluate_sizes.evaluate_union_size', ['C04', 'C03', 'C08'], union_setup, union_post, shapes=SHAPES,
         modifies=['alignment', 'byte_size'],
         case_split=lambda ob: None,
         notes=['arm byte sizes below 2**40 (int(a/b) goes through a double)'])


# ------------------------------------------------------------------ evaluate_struct_size

def _dyn(vm, t):
    """spec notion "the size of this member depends on the value" in model vocabulary:
    dynamic array (bound, no size), greedy array, or a struct type that is not FIXED"""
    bound = z3.Select(vm.heap_array('bound'), t)
    size = z3.Select(vm.heap_array('size'), t)
    greedy = z3.Select(vm.heap_array('greedy'), t)
    kind = z3.Select(vm.heap_array('kind'), t)
    return z3.Or(z3.And(bound, z3.Not(size)), greedy, kind != 0)


def struct_setup(vm, module, env):
    vm.contract.divisor_domain = ALIGNS
    node = vm.fresh_ref('node', model_class(vm, module, 'Struct'))
    members = new_members(vm, module, 'StructMember')
    vm.path.objattrs[(str(node.t), '_value')] = members
    j = z3.Int('j')
    f, n = members.fn, members.length
    H = lambda a: vm.heap_array(a)
    al = lambda t: z3.Select(H('alignment'), t)
    bs = lambda t: z3.Select(H('byte_size'), t)
    rng = lambda x: z3.And(0 <= x, x < n)
    vm.assume(z3.ForAll([j], z3.Implies(rng(j), z3.And(
        z3.Not(none_attr(vm, 'alignment', f(j))), z3.Not(none_attr(vm, 'byte_size', f(j))),
        _in(al(f(j)), ALIGNS), bs(f(j)) >= 0, _in(z3.Select(H('kind'), f(j)), (0, 1, 2)))), patterns=[f(j)]))
    # ghost spec functions over the member sequence
    OFF = z3.Function('OFF', z3.IntSort(), z3.IntSort())
    vm.assume(OFF(0) == 0)
    step = spec_int(vm, 'off_static_step', SInt(OFF(j)), SInt(al(f(j))), SInt(bs(f(j))))
    vm.assume(z3.ForAll([j], z3.Implies(rng(j), OFF(j + 1) == step), patterns=[OFF(j + 1)]))
    vm.assume(z3.ForAll([j], z3.Implies(z3.And(0 <= j, j <= n), OFF(j) >= 0), patterns=[OFF(j)]))
    MAXA = vm.fresh('MAXA')
    vm.assume(z3.ForAll([j], z3.Implies(rng(j), al(f(j)) <= MAXA), patterns=[f(j)]))
    wa = vm.fresh('wa')
    vm.assume(z3.If(n > 0, z3.And(rng(wa), al(f(wa)) == MAXA), MAXA == 1))
    pre = {a: H(a) for a in ('alignment', 'byte_size', 'padding', 'kind', 'bound', 'size', 'greedy')}
    pre['padding#none'] = H('padding#none')
    cls_m = model_class(vm, module, 'StructMember')
    st = {'args': [node], 'node': node, 'members': members, 'OFF': OFF, 'MAXA': MAXA, 'pre': pre, 'cls_m': cls_m,
          'closure_env': {}}
    vm.state = st
    return st


def _padspec_inner(vm, st, jt):
    """documented padding representation of member jt (not the last one)"""
    f = st['members'].fn
    pre = st['pre']
    al = lambda t: z3.Select(pre['alignment'], t)
    a_j, a_n = al(f(jt)), al(f(jt + 1))
    static_pad = spec_int(vm, 'pad_to', SInt(st['OFF'](jt + 1)), SInt(a_n))
    from vf.pyvc import SBool
    return spec_int(vm, 'pad_inner', None, SInt(a_j), SBool(_dyn(vm, f(jt))), SInt(a_n), SInt(static_pad))


def struct_loop_inv(vm, env, k):
    st = vm.state
    f, n = st['members'].fn, st['members'].length
    byte_size = vm.as_int(env.get('byte_size'))
    prev = env.get('prev_member')
    j = z3.Int('j')
    pad = vm.heap_array('padding')
    padn = vm.heap_array('padding#none')
    inv = [
        ('byte_size==OFF(k)', byte_size == st['OFF'](k)),
        # prev_member is None only when there are no members
        ('prev_member', (n == 0) if prev is None else (prev.t == z3.If(k > 0, f(k - 1), f(0)))),
        ('paddings<k-1', z3.ForAll([j], z3.Implies(z3.And(0 <= j, j < k - 1), z3.And(
            z3.Not(z3.Select(padn, f(j))), z3.Select(pad, f(j)) == _padspec_inner(vm, st, j))), patterns=[f(j)])),
        ('frame:alignment,byte_size', z3.And(vm.heap_array('alignment') == st['pre']['alignment'],
                                             vm.heap_array('byte_size') == st['pre']['byte_size'])),
    ]
    return inv


def struct_post(vm, st, result):
    from vf.pyvc import SBool
    node, f, n = st['node'], st['members'].fn, st['members'].length
    pre, OFF, MAXA = st['pre'], st['OFF'], st['MAXA']
    j = z3.Int('j')
    pad, padn = vm.heap_array('padding'), vm.heap_array('padding#none')
    al0 = lambda t: z3.Select(pre['alignment'], t)
    bs0 = lambda t: z3.Select(pre['byte_size'], t)
    a = vm.load(node, 'alignment')
    b = vm.load(node, 'byte_size')
    anydyn = z3.Exists([j], z3.And(0 <= j, j < n, _dyn(vm, f(j))))
    static_last = spec_int(vm, 'pad_to', SInt(OFF(n)), SInt(MAXA))
    last = f(n - 1)
    lastspec = spec_int(vm, 'pad_last', SBool(anydyn), SInt(al0(last)), SInt(bs0(last)), SInt(MAXA), SInt(static_last))
    goals = [
        ('alignment==A(struct)', z3.And(z3.Not(a.isnone), a.val == MAXA)),
        ('byte_size==rup(OFF(n),A)', z3.And(z3.Not(b.isnone), b.val == spec_int(vm, 'rup', SInt(OFF(n)), SInt(MAXA)))),
        ('inner-paddings', z3.ForAll([j], z3.Implies(z3.And(0 <= j, j < n - 1), z3.And(
            z3.Not(z3.Select(padn, f(j))), z3.Select(pad, f(j)) == _padspec_inner(vm, st, j))), patterns=[f(j)])),
        ('last-padding', z3.Implies(n > 0, z3.And(z3.Not(z3.Select(padn, last)), z3.Select(pad, last) == lastspec))),
        ('frame:member sizes/alignments unchanged', z3.ForAll([j], z3.Implies(z3.And(0 <= j, j < n), z3.And(
            z3.Select(vm.heap_array('alignment'), f(j)) == al0(f(j)),
            z3.Select(vm.heap_array('byte_size'), f(j)) == bs0(f(j)))), patterns=[f(j)])),
    ]
    return goals


Contract(MODEL, 'evaluate_sizes.evaluate_struct_size', ['C04', 'C03', 'C05', 'C08'], struct_setup, struct_post,
         shapes=SHAPES, modifies=['alignment', 'byte_size', 'padding'],
         loops={0: LoopAnn(struct_loop_inv, index='k', modifies=['padding'],
                           locals_={'prev_member': lambda vm, name: SRef(vm.fresh(name, __import__('vf.pyvc', fromlist=['Ref']).Ref),
                                                                         vm.state['cls_m'], True)})},
         notes=['member alignments in {1,2,4,8} (established by evaluate_member_size / evaluate_array_and_optional_size / '
                'evaluate_partial_padding_size contracts)'])


# ------------------------------------------------------------------ evaluate_array_and_optional_size

def arropt_setup(vm, module, env):
    from vf.pyvc import SBool
    m = vm.fresh_ref('member', model_class(vm, module, 'StructMember'))
    H = lambda a: z3.Select(vm.heap_array(a), m.t)
    # requires: evaluate_member_size succeeded for this member (base type size S and alignment A)
    vm.assume(z3.And(z3.Not(H('byte_size#none')), z3.Not(H('alignment#none')), _in(H('alignment'), ALIGNS), H('byte_size') >= 0))
    # StructMember.__init__ asserts: at most one of (bound or size), greedy, optional
    arr = z3.Or(H('bound'), H('size'))
    vm.assume(z3.And(z3.Not(z3.And(arr, H('greedy'))), z3.Not(z3.And(arr, H('optional'))), z3.Not(z3.And(H('greedy'), H('optional')))))
    # cross_reference: numeric_size is set (positive: parser's positive_expression) iff size is given
    vm.assume(z3.If(H('size'), z3.And(z3.Not(H('numeric_size#none')), H('numeric_size') > 0), H('numeric_size#none')))
    st = {'args': [m], 'm': m, 'S': H('byte_size'), 'A': H('alignment'), 'NS': H('numeric_size'),
          'size': H('size'), 'bound': H('bound'), 'greedy': H('greedy'), 'optional': H('optional'),
          'closure_env': {}}
    return st


def arropt_post(vm, st, result):
    m = st['m']
    a, b = vm.load(m, 'alignment'), vm.load(m, 'byte_size')
    S, A = SInt(st['S']), SInt(st['A'])
    is_array = z3.Or(st['bound'], st['size'], st['greedy'])
    exp_size = z3.If(is_array, z3.If(st['size'], st['S'] * st['NS'], 0),
                     z3.If(st['optional'], spec_int(vm, 'opt_size', S, A), st['S']))
    exp_al = z3.If(z3.And(z3.Not(is_array), st['optional']), spec_int(vm, 'opt_alignment', A), st['A'])
    return [('byte_size: n*S | 0 | opt_size | S', z3.And(z3.Not(b.isnone), b.val == exp_size)),
            ('alignment: opt_alignment | A', z3.And(z3.Not(a.isnone), a.val == exp_al))]


Contract(MODEL, 'evaluate_sizes.evaluate_array_and_optional_size', ['C04', 'C03', 'C08'], arropt_setup, arropt_post,
         shapes=SHAPES, modifies=['alignment', 'byte_size'])


# ------------------------------------------------------------------ _SerializableContainer.calc_wire_stiffness

def stiff_setup(vm, module, env):
    from vf.pyvc import Ref
    node = vm.fresh_ref('node', model_class(vm, module, 'Struct'))
    members = new_members(vm, module, 'StructMember')
    vm.path.objattrs[(str(node.t), '_value')] = members
    f, n = members.fn, members.length
    j = z3.Int('j')
    rng = lambda x: z3.And(0 <= x, x < n)
    MK = z3.Function('MK', Ref, z3.IntSort())          # stiffness of the member's (typedef-resolved) base type
    H = lambda a, t: z3.Select(vm.heap_array(a), t)
    greedy = lambda t: H('greedy', t)
    dynarr = lambda t: z3.And(H('bound', t), z3.Not(H('size', t)))
    vm.assume(z3.ForAll([j], z3.Implies(rng(j), _in(MK(f(j)), (0, 1, 2))), patterns=[f(j)]))
    # legality (C12, checked by the parser): greedy only last; sized arrays / optionals hold fixed types;
    # StructMember.__init__ assertion: at most one of (bound or size), greedy, optional
    vm.assume(z3.ForAll([j], z3.Implies(rng(j), z3.And(
        z3.Implies(greedy(f(j)), j == n - 1),
        z3.Implies(z3.Or(H('size', f(j)), H('optional', f(j))), MK(f(j)) == 0),
        z3.Not(z3.And(z3.Or(H('bound', f(j)), H('size', f(j))), greedy(f(j)))))), patterns=[f(j)]))
    # spec: stiffness of a member = UNLIMITED if greedy array, at least DYNAMIC if dynamic array, else base type's
    ms = lambda t: z3.If(greedy(t), 2, z3.If(z3.And(dynarr(t), MK(t) < 1), 1, MK(t)))
    SK = vm.fresh('SK')
    vm.assume(z3.ForAll([j], z3.Implies(rng(j), ms(f(j)) <= SK), patterns=[f(j)]))
    w = vm.fresh('w')
    vm.assume(z3.If(n > 0, z3.And(rng(w), ms(f(w)) == SK), SK == 0))
    st = {'args': [node], 'node': node, 'members': members, 'MK': MK, 'SK': SK, 'closure_env': {},
          'pre_kind': vm.heap_array('kind')}
    vm.state = st
    return st


def _callee_member_stiffness(vm, args, kwargs):
    """assumed contract of Typedef.calc_wire_stiffness on a member (proved separately below):
    member.kind := stiffness of its base type; nothing else changes"""
    m = args[0]
    vm.store(m, 'kind', SInt(vm.state['MK'](m.t)))
    return None


def stiff_loop_inv(vm, env, k):
    st = vm.state
    f = st['members'].fn
    j = z3.Int('j')
    kind = vm.heap_array('kind')
    return [('kinds<k', z3.ForAll([j], z3.Implies(z3.And(0 <= j, j < k), z3.Select(kind, f(j)) == st['MK'](f(j))),
                                  patterns=[f(j)]))]


def stiff_post(vm, st, result):
    node = st['node']
    k = vm.load(node, 'kind')
    f, n = st['members'].fn, st['members'].length
    j = z3.Int('j')
    kind = vm.heap_array('kind')
    return [('kind==stiff(struct)', k.t == st['SK']),
            ('member kinds', z3.ForAll([j], z3.Implies(z3.And(0 <= j, j < n), z3.Select(kind, f(j)) == st['MK'](f(j))),
                                       patterns=[f(j)]))]


Contract(MODEL, '_SerializableContainer.calc_wire_stiffness', ['C04', 'C12'], stiff_setup, stiff_post,
         shapes=SHAPES, modifies=['kind'],
         loops={0: LoopAnn(stiff_loop_inv, index='k', modifies=['kind'])},
         callees={'_Container._check_members_type': lambda vm, a, k: None,
                  'Typedef.calc_wire_stiffness': _callee_member_stiffness},
         notes=['legality preconditions: greedy member only last, sized arrays and optionals hold fixed types (C12)'])
