"""C04 (model side): contracts on prophyc.model.evaluate_sizes.* against specs/wire.py"""
import z3

from vf.contract import Contract, LoopAnn
from vf.pyvc import SRef, SSeq, SInt
from vf.speclib import spec_int
from .model_shapes import MODEL, SHAPES, new_members, model_class, int_attr, none_attr

ALIGNS = (1, 2, 4, 8)


def _in(t, vals):
    return z3.Or(*[t == v for v in vals])


# ------------------------------------------------------------------ evaluate_union_size

def union_setup(vm, module, env):
    node = vm.fresh_ref('node', model_class(vm, module, 'Union'))
    members = new_members(vm, module, 'UnionMember')
    vm.path.objattrs[(str(node.t), '_value')] = members
    j = z3.Int('j')
    f, n = members.fn, members.length
    al = lambda t: int_attr(vm, 'alignment', t)
    bs = lambda t: int_attr(vm, 'byte_size', t)
    # requires: evaluate_members_sizes succeeded: every arm has a size and an alignment
    vm.assume(z3.ForAll([j], z3.Implies(z3.And(0 <= j, j < n), z3.And(
        z3.Not(none_attr(vm, 'alignment', f(j))), z3.Not(none_attr(vm, 'byte_size', f(j))),
        _in(al(f(j)), ALIGNS), bs(f(j)) >= 0, bs(f(j)) < 2 ** 40)), patterns=[f(j)]))
    # ghost: the spec's maxima over the arms (wire.S / wire.A of a Union)
    MA, MS = vm.fresh('MA'), vm.fresh('MS')
    vm.assume(z3.ForAll([j], z3.Implies(z3.And(0 <= j, j < n), z3.And(al(f(j)) <= MA, bs(f(j)) <= MS)), patterns=[f(j)]))
    wa, ws = vm.fresh('wa'), vm.fresh('ws')
    vm.assume(z3.If(n > 0, z3.And(0 <= wa, wa < n, al(f(wa)) == MA, 0 <= ws, ws < n, bs(f(ws)) == MS),
                    z3.And(MA == 1, MS == 0)))
    return {'args': [node], 'node': node, 'MA': MA, 'MS': MS, 'closure_env': {'DISC_SIZE': env.get('DISC_SIZE')}}


def union_post(vm, st, result):
    node = st['node']
    a = vm.load(node, 'alignment')
    b = vm.load(node, 'byte_size')
    MA, MS = SInt(st['MA']), SInt(st['MS'])
    return [
        ('alignment==A(U)', z3.And(z3.Not(a.isnone), a.val == spec_int(vm, 'union_alignment', MA))),
        ('byte_size==S(U)', z3.And(z3.Not(b.isnone), b.val == spec_int(vm, 'union_size', MS, MA))),
    ]


Contract(MODEL, 'evaluate_sizes.evaluate_union_size', ['C04', 'C03', 'C08'], union_setup, union_post, shapes=SHAPES,
         modifies=['alignment', 'byte_size'],
         case_split=lambda ob: None,
         notes=['arm byte sizes below 2**40 (int(a/b) goes through a double)'])
