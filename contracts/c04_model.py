"""C04 (model side): contracts on prophyc.model.evaluate_sizes.* against specs/wire.py"""
import z3

from vf.contract import Contract, LoopAnn
from vf.pyvc import SRef, SSeq, SInt
from vf.speclib import spec_int
from .model_shapes import MODEL, SHAPES, new_members, model_class, int_attr, none_attr

ALIGNS = (1, 2, 4, 8)


def _in(t, vals):
    return z3.Or(*[t == v for v in vals])


# ------------------------------------------------------------------ evaluate_union_size

def union_setup(vm, module, env):
    node = vm.fresh_ref('node', model_class(vm, module, 'Union'))
    members = new_members(vm, module, 'UnionMember')
    vm.path.objattrs[(str(node.t), '_value')] = members
    j = z3.Int('j')
    f, n = members.fn, members.length
    al = lambda t: int_attr(vm, 'alignment', t)
    bs = lambda t: int_attr(vm, 'byte_size', t)
    # requires: evaluate_members_sizes succeeded: every arm has a size and an alignment
    vm.assume(z3.ForAll([j], z3.Implies(z3.And(0 <= j, j < n), z3.And(
        z3.Not(none_attr(vm, 'alignment', f(j))), z3.Not(none_attr(vm, 'byte_size', f(j))),
        _in(al(f(j)), ALIGNS), bs(f(j)) >= 0, bs(f(j)) < 2 ** 40)), patterns=[f(j)]))
    # ghost: the spec's maxima over the arms (wire.S / wire.A of a Union)
    MA, MS = vm.fresh('MA'), vm.fresh('MS')
    vm.assume(z3.ForAll([j], z3.Implies(z3.And(0 <= j, j < n), z3.And(al(f(j)) <= MA, bs(f(j)) <= MS)), patterns=[f(j)]))
    wa, ws = vm.fresh('wa'), vm.fresh('ws')
    vm.assume(z3.If(n > 0, z3.And(0 <= wa, wa < n, al(f(wa)) == MA, 0 <= ws, ws < n, bs(f(ws)) == MS),
                    z3.And(MA == 1, MS == 0)))
    return {'args': [node], 'node': node, 'MA': MA, 'MS': MS, 'closure_env': {'DISC_SIZE': env.get('DISC_SIZE')}}


def union_post(vm, st, result):
    node = st['node']
    a = vm.load(node, 'alignment')
    b = vm.load(node, 'byte_size')
    MA, MS = SInt(st['MA']), SInt(st['MS'])
    return [
        ('alignment==A(U)', z3.And(z3.Not(a.isnone), a.val == spec_int(vm, 'union_alignment', MA))),
        ('byte_size==S(U)', z3.And(z3.Not(b.isnone), b.val == spec_int(vm, 'union_size', MS, MA))),
    ]


Contract(MODEL, 'evaluate_sizes.evaluate_union_size', ['C04', 'C03', 'C08'], union_setup, union_post, shapes=SHAPES,
         modifies=['alignment', 'byte_size'],
         case_split=lambda ob: None,
         notes=['arm byte sizes below 2**40 (int(a/b) goes through a double)'])


# ------------------------------------------------------------------ evaluate_struct_size

def _dyn(vm, t):
    """spec notion "the size of this member depends on the value" in model vocabulary:
    dynamic array (bound, no size), greedy array, or a struct type that is not FIXED"""
    bound = z3.Select(vm.heap_array('bound'), t)
    size = z3.Select(vm.heap_array('size'), t)
    greedy = z3.Select(vm.heap_array('greedy'), t)
    kind = z3.Select(vm.heap_array('kind'), t)
    return z3.Or(z3.And(bound, z3.Not(size)), greedy, kind != 0)


def struct_setup(vm, module, env):
    vm.contract.divisor_domain = ALIGNS
    node = vm.fresh_ref('node', model_class(vm, module, 'Struct'))
    members = new_members(vm, module, 'StructMember')
    vm.path.objattrs[(str(node.t), '_value')] = members
    j = z3.Int('j')
    f, n = members.fn, members.length
    H = lambda a: vm.heap_array(a)
    al = lambda t: z3.Select(H('alignment'), t)
    bs = lambda t: z3.Select(H('byte_size'), t)
    rng = lambda x: z3.And(0 <= x, x < n)
    vm.assume(z3.ForAll([j], z3.Implies(rng(j), z3.And(
        z3.Not(none_attr(vm, 'alignment', f(j))), z3.Not(none_attr(vm, 'byte_size', f(j))),
        _in(al(f(j)), ALIGNS), bs(f(j)) >= 0, _in(z3.Select(H('kind'), f(j)), (0, 1, 2)))), patterns=[f(j)]))
    # ghost spec functions over the member sequence
    OFF = z3.Function('OFF', z3.IntSort(), z3.IntSort())
    vm.assume(OFF(0) == 0)
    step = spec_int(vm, 'off_static_step', SInt(OFF(j)), SInt(al(f(j))), SInt(bs(f(j))))
    vm.assume(z3.ForAll([j], z3.Implies(rng(j), OFF(j + 1) == step), patterns=[OFF(j + 1)]))
    vm.assume(z3.ForAll([j], z3.Implies(z3.And(0 <= j, j <= n), OFF(j) >= 0), patterns=[OFF(j)]))
    MAXA = vm.fresh('MAXA')
    vm.assume(z3.ForAll([j], z3.Implies(rng(j), al(f(j)) <= MAXA), patterns=[f(j)]))
    wa = vm.fresh('wa')
    vm.assume(z3.If(n > 0, z3.And(rng(wa), al(f(wa)) == MAXA), MAXA == 1))
    pre = {a: H(a) for a in ('alignment', 'byte_size', 'padding', 'kind', 'bound', 'size', 'greedy')}
    pre['padding#none'] = H('padding#none')
    cls_m = model_class(vm, module, 'StructMember')
    st = {'args': [node], 'node': node, 'members': members, 'OFF': OFF, 'MAXA': MAXA, 'pre': pre, 'cls_m': cls_m,
          'closure_env': {}}
    vm.state = st
    return st


def _padspec_inner(vm, st, jt):
    """documented padding representation of member jt (not the last one)"""
    f = st['members'].fn
    pre = st['pre']
    al = lambda t: z3.Select(pre['alignment'], t)
    a_j, a_n = al(f(jt)), al(f(jt + 1))
    static_pad = spec_int(vm, 'pad_to', SInt(st['OFF'](jt + 1)), SInt(a_n))
    from vf.pyvc import SBool
    return spec_int(vm, 'pad_inner', None, SInt(a_j), SBool(_dyn(vm, f(jt))), SInt(a_n), SInt(static_pad))


def struct_loop_inv(vm, env, k):
    st = vm.state
    f, n = st['members'].fn, st['members'].length
    byte_size = vm.as_int(env.get('byte_size'))
    prev = env.get('prev_member')
    j = z3.Int('j')
    pad = vm.heap_array('padding')
    padn = vm.heap_array('padding#none')
    inv = [
        ('byte_size==OFF(k)', byte_size == st['OFF'](k)),
        # prev_member is None only when there are no members
        ('prev_member', (n == 0) if prev is None else (prev.t == z3.If(k > 0, f(k - 1), f(0)))),
        ('paddings<k-1', z3.ForAll([j], z3.Implies(z3.And(0 <= j, j < k - 1), z3.And(
            z3.Not(z3.Select(padn, f(j))), z3.Select(pad, f(j)) == _padspec_inner(vm, st, j))), patterns=[f(j)])),
        ('frame:alignment,byte_size', z3.And(vm.heap_array('alignment') == st['pre']['alignment'],
                                             vm.heap_array('byte_size') == st['pre']['byte_size'])),
    ]
    return inv


def struct_post(vm, st, result):
    from vf.pyvc import SBool
    node, f, n = st['node'], st['members'].fn, st['members'].length
    pre, OFF, MAXA = st['pre'], st['OFF'], st['MAXA']
    j = z3.Int('j')
    pad, padn = vm.heap_array('padding'), vm.heap_array('padding#none')
    al0 = lambda t: z3.Select(pre['alignment'], t)
    bs0 = lambda t: z3.Select(pre['byte_size'], t)
    a = vm.load(node, 'alignment')
    b = vm.load(node, 'byte_size')
    anydyn = z3.Exists([j], z3.And(0 <= j, j < n, _dyn(vm, f(j))))
    static_last = spec_int(vm, 'pad_to', SInt(OFF(n)), SInt(MAXA))
    last = f(n - 1)
    lastspec = spec_int(vm, 'pad_last', SBool(anydyn), SInt(al0(last)), SInt(bs0(last)), SInt(MAXA), SInt(static_last))
    goals = [
        ('alignment==A(struct)', z3.And(z3.Not(a.isnone), a.val == MAXA)),
        ('byte_size==rup(OFF(n),A)', z3.And(z3.Not(b.isnone), b.val == spec_int(vm, 'rup', SInt(OFF(n)), SInt(MAXA)))),
        ('inner-paddings', z3.ForAll([j], z3.Implies(z3.And(0 <= j, j < n - 1), z3.And(
            z3.Not(z3.Select(padn, f(j))), z3.Select(pad, f(j)) == _padspec_inner(vm, st, j))), patterns=[f(j)])),
        ('last-padding', z3.Implies(n > 0, z3.And(z3.Not(z3.Select(padn, last)), z3.Select(pad, last) == lastspec))),
        ('frame:member sizes/alignments unchanged', z3.ForAll([j], z3.Implies(z3.And(0 <= j, j < n), z3.And(
            z3.Select(vm.heap_array('alignment'), f(j)) == al0(f(j)),
            z3.Select(vm.heap_array('byte_size'), f(j)) == bs0(f(j)))), patterns=[f(j)])),
    ]
    return goals


Contract(MODEL, 'evaluate_sizes.evaluate_struct_size', ['C04', 'C03', 'C05', 'C08'], struct_setup, struct_post,
         shapes=SHAPES, modifies=['alignment', 'byte_size', 'padding'],
         loops={0: LoopAnn(struct_loop_inv, index='k', modifies=['padding'],
                           locals_={'prev_member': lambda vm, name: SRef(vm.fresh(name, __import__('vf.pyvc', fromlist=['Ref']).Ref),
                                                                         vm.state['cls_m'], True)})},
         notes=['member alignments in {1,2,4,8} (established by evaluate_member_size / evaluate_array_and_optional_size / '
                'evaluate_partial_padding_size contracts)'])
