"""C04 / C08: the order of the steps inside prophyc.model.evaluate_sizes for one definition.

The nested helpers are under contract one by one (c04_model.py); each relies on what the steps before it have established:
evaluate_partial_padding_size reads member alignments that evaluate_array_and_optional_size has already raised for optional
members (the 4-byte flag), evaluate_struct_size reads what both have left.  This contract fixes the protocol of the driver:
    struct:  evaluate_members_sizes(node); if it says yes: evaluate_array_and_optional_size for EVERY member, in order, then
             evaluate_partial_padding_size(node), then evaluate_struct_size(node) -- nothing else, nothing twice;
             if it says no: nothing more for this node;
    union:   evaluate_members_sizes(node); if yes: evaluate_union_size(node);
    include: the included nodes are evaluated by evaluate_sizes itself (recursion), with the same warn function.
The helpers are summarised by their names (their bodies are verified separately); the struct has two members here -- the
driver does not depend on the number.
"""
import z3

from vf.contract import Contract
from vf.pyvc import SRef, SBool, Sym, OutOfSubset, Closure
from .model_shapes import MODEL, SHAPES, model_class

HELPERS = ('evaluate_members_sizes', 'evaluate_array_and_optional_size', 'evaluate_partial_padding_size', 'evaluate_struct_size',
           'evaluate_union_size', 'evaluate_sizes')


def drv_setup(kind):
    def setup(vm, module, env):
        cls = {'struct': 'Struct', 'union': 'Union', 'include': 'Include'}[kind]
        node = vm.fresh_ref('node', model_class(vm, module, cls), exact=True)
        mcls = model_class(vm, module, 'StructMember' if kind == 'struct' else 'UnionMember')
        members = [vm.fresh_ref('m0', mcls, exact=True), vm.fresh_ref('m1', mcls, exact=True)]
        vm.path.objattrs[(str(node.t), '_value')] = members
        warn = Warn()
        st = {'args': [[node], warn], 'node': node, 'members': members, 'warn': warn, 'kind': kind, 'events': [],
              'sizes_known': vm.fresh('members_sizes_known', z3.BoolSort()), 'closure_env': {}}
        vm.state = st
        return st
    return setup


class Warn(Sym):
    pass


def drv_call(vm, fn, args, kwargs, node):
    st = vm.state
    if isinstance(fn, Closure):
        name = fn.qualname.split('.')[-1]
        if name in HELPERS and (vm.call_depth >= 1 or name != 'evaluate_sizes'):
            st['events'].append((name, list(args)))
            if name == 'evaluate_members_sizes':
                return vm.decide(st['sizes_known'])
            return None
    return NotImplemented


def drv_post(vm, st, result):
    ev = [(n, a) for n, a in st['events']]
    names = [n for n, _ in ev]
    node, ms, kind = st['node'], st['members'], st['kind']
    on_node = lambda a: len(a) == 1 and isinstance(a[0], SRef) and a[0].t.eq(node.t)
    if kind == 'include':
        ok = names == ['evaluate_sizes'] and ev[0][1][0] is ms and ev[0][1][1] is st['warn']
        return [('the included nodes are evaluated, with the same warn function, and nothing else is done', z3.BoolVal(bool(ok)))]
    r = [('the member sizes are evaluated first', z3.BoolVal(bool(names[:1] == ['evaluate_members_sizes'] and on_node(ev[0][1]))))]
    if kind == 'union':
        want = ['evaluate_members_sizes', 'evaluate_union_size']
        ok = names == want and on_node(ev[1][1])
    else:
        want = ['evaluate_members_sizes', 'evaluate_array_and_optional_size', 'evaluate_array_and_optional_size',
                'evaluate_partial_padding_size', 'evaluate_struct_size']
        ok = names == want and ev[1][1][0] is ms[0] and ev[2][1][0] is ms[1] and on_node(ev[3][1]) and on_node(ev[4][1])
    r.append(('members known: then every member\'s array / optional size, the padding of the parts, the size of the whole -- in this '
              'order, once each; members unknown: nothing more',
              z3.If(st['sizes_known'], z3.BoolVal(bool(ok)), z3.BoolVal(names == ['evaluate_members_sizes']))))
    return r


for _kind in ('struct', 'union', 'include'):
    Contract(MODEL, 'evaluate_sizes', ['C04', 'C08'], drv_setup(_kind), drv_post, shapes=SHAPES, modifies=[], hooks={'call': drv_call},
             name='prophyc.model:evaluate_sizes[driver:%s]' % _kind,
             notes=['the nested helpers are summarised by name (each has its own contract); a definition with two members'])
