"""C15: what each model node declares as its dependencies (prophyc.model.*.dependencies)"""
import z3

from vf.contract import Contract, LoopAnn
from vf.pyvc import SRef, SSeq, SInt, SOpt, SBool, SStr, STruth, Ref, OpaqueFn, Sym, OutOfSubset, PyRaise, ClassInfo, StrSort
from vf import interp as I
from vf import builtins as B
from .model_shapes import MODEL, SHAPES, model_class

RT = dict(SHAPES)
RT['discriminator'] = 'str'


class Symbols(Sym):
    """_expression_symbols(text): the identifiers of a constant expression (regex tokenizer, see its own contract)"""

    def __init__(self, text):
        self.text = text


def deps_callee_symbols(vm, args, kwargs):
    return [SymbolsOf(args[0])]


class SymbolsOf(Sym):
    """placeholder element standing for `all identifiers of this text, in order`"""

    def __init__(self, text):
        self.text = text


def node_setup(cls_name):
    def setup(vm, module, env):
        self = vm.fresh_ref('self', model_class(vm, module, cls_name))
        st = {'args': [self], 'self': self, 'closure_env': {}}
        vm.state = st
        return st
    return setup


def same_text(a, t):
    return getattr(a, 't', None) is not None and a.t.eq(t)


def typedef_post(vm, st, result):
    items = B.run_generator(vm, result)
    tn = z3.Select(vm.heap_array('_value'), st['self'].t) if False else None
    return [('exactly the aliased type name', len(items) == 1 and isinstance(items[0], SStr)
             and items[0].t.eq(vm.load(st['self'], '_value').t))]


T_SHAPES = dict(RT)
T_SHAPES['_value'] = 'str'          # Typedef / members: _value is the type name

Contract(MODEL, 'Typedef.dependencies', ['C15'], node_setup('Typedef'), typedef_post, shapes=T_SHAPES, modifies=[])


def smember_post(vm, st, result):
    items = B.run_generator(vm, result)
    s = st['self']
    type_name = vm.load(s, '_value').t
    has_size = z3.Select(vm.heap_array('size'), s.t)
    first_ok = len(items) >= 1 and isinstance(items[0], SStr) and items[0].t.eq(type_name)
    rest = items[1:]
    with_size = len(rest) == 1 and isinstance(rest[0], SymbolsOf)
    return [('the member type name comes first', first_ok),
            ('then the identifiers of the array size expression, when there is one', z3.BoolVal(with_size) == has_size),
            ('nothing else', len(rest) <= 1)]


def smember_getattr(vm, obj, attr):
    if isinstance(obj, SRef) and attr == 'size':
        return SizeText(z3.Select(vm.heap_array('size'), obj.t))
    return NotImplemented


class SizeText(Sym):
    def __init__(self, truthy):
        self.truthy = truthy

    def sym_truthy(self, vm):
        return self.truthy


def symbols_callee(vm, args, kwargs):
    return [SymbolsOf(args[0])]


Contract(MODEL, 'StructMember.dependencies', ['C15'], node_setup('StructMember'), smember_post, shapes=T_SHAPES, modifies=[],
         hooks={'getattr': smember_getattr}, callees={'_expression_symbols': symbols_callee})


def umember_post(vm, st, result):
    items = B.run_generator(vm, result)
    s = st['self']
    return [('the arm type name, then the identifiers of the discriminator expression',
             len(items) == 2 and isinstance(items[0], SStr) and items[0].t.eq(vm.load(s, '_value').t) and isinstance(items[1], SymbolsOf))]


Contract(MODEL, 'UnionMember.dependencies', ['C15'], node_setup('UnionMember'), umember_post, shapes=T_SHAPES, modifies=[],
         callees={'_expression_symbols': symbols_callee})


# containers: the concatenation of the members' dependencies, in member order (checked for two members)

def container_setup(cls_name, member_cls):
    def setup(vm, module, env):
        self = vm.fresh_ref('self', model_class(vm, module, cls_name))
        m1, m2 = vm.fresh_ref('m1', None), vm.fresh_ref('m2', None)
        vm.path.objattrs[(str(self.t), '_value')] = [m1, m2]
        st = {'args': [self], 'self': self, 'members': [m1, m2], 'closure_env': {}}
        vm.state = st
        return st
    return setup


def container_getattr(vm, obj, attr):
    if isinstance(obj, SRef) and attr == 'dependencies' and any(obj.t.eq(m.t) for m in vm.state['members']):
        return OpaqueFn(obj, 'dependencies')
    return NotImplemented


def container_call(vm, fn, args, kwargs, node):
    if isinstance(fn, OpaqueFn) and fn.attr == 'dependencies':
        return [('dep-a', fn.owner), ('dep-b', fn.owner)]
    return NotImplemented


def container_post(vm, st, result):
    items = B.run_generator(vm, result) if isinstance(result, I.GenCall) else list(result)
    m1, m2 = st['members']
    return [('all dependencies of all members, in order', items == [('dep-a', m1), ('dep-b', m1), ('dep-a', m2), ('dep-b', m2)])]


C_SHAPES = dict(RT)
for _cls in ('_Container', 'Enum'):
    Contract(MODEL, '%s.dependencies' % _cls, ['C15'], container_setup(_cls, None), container_post, shapes=C_SHAPES, modifies=[],
             hooks={'getattr': container_getattr, 'call': container_call},
             notes=['checked for a container of two members (the loops are unrolled; any finite member list behaves alike)'])
