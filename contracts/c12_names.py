"""C12: one name, one definition -- the prophy-language parser's declaring productions
(prophyc.parsers.prophy.Parser.p_unique_id, p_constant_def, p_enum_def, p_enum_member, p_typedef_def).

The rule (docs/schema.rst: names of definitions and enumerators live in one scope; the generated C++ and Python put
them in one namespace): a name is entered into the parser's type table or constant table only if, at that moment, it
is in NEITHER table -- or a diagnostic has been reported (prophyc then exits non-zero and writes nothing).

* p_unique_id is the shared check: for every name and every pair of tables it reports `name redefined` exactly when the
  name is in the type table or in the constant table, and hands the name on unchanged.
* each declaring production is verified against that contract, the way a caller is verified against its callee (the
  guarantee dates from the moment unique_id was reduced: tables that a LATER symbol of the same production may write --
  computed from the Parser class: enum_body enters its enumerators before enum_def is reduced -- are taken as grown): the
  grammar line (the production's docstring, part of the verified text -- ply reads the grammar from it) tells for
  every slot t[k] whether it arrives through `unique_id`; such a slot carries the guarantee `new to both tables, or a
  diagnostic was reported`; any other slot carries nothing, and the production has to establish the rule itself
  (its own _parser_check calls are taken into account: a failed check is a reported diagnostic).
model.Constant / Enum / EnumMember / Typedef constructors are summarised as fresh objects (their own checks are under
contract in c10_enum / c13_term); table contents are sets of names (membership only).
"""
import ast
import z3

from vf.contract import Contract
from vf.pyvc import SRef, SSeq, SInt, SBool, SStr, Ref, OpaqueFn, Sym, OutOfSubset, StrSort, Closure
from .absobj import AbsList, HOOKS
from .c16_include import Table, ParserObj, StrSet

PARSER = 'prophyc/parsers/prophy.py'


class Prod(Sym):
    """the yacc production object t: t[k] the value of the k-th grammar symbol, t[0] the result slot"""

    def __init__(self, vm, symbols):
        self.symbols = symbols                  # per alternative: list of grammar symbols (index 1..)
        self.slots = {}
        self.result = None


def grammar_of(fnode):
    doc = ast.get_docstring(fnode) or ''
    if ':' not in doc:
        raise OutOfSubset('production without a grammar line')
    rhs = doc.split(':', 1)[1]
    alts = [a.split() for a in rhs.split('|')]
    return alts


def table_writers(module):
    """per grammar symbol: the tables ('typedecls' / 'constdecls') that reducing it may write -- read off the Parser class:
    a production writes a table when its body stores into / updates self.<table>; a non-terminal inherits the writes of
    every symbol on the right-hand sides of its productions (least fixpoint)"""
    cls, _ = module.find('Parser')
    direct, rhs_of = {}, {}
    for f in cls.body:
        if not isinstance(f, ast.FunctionDef) or not f.name.startswith('p_') or f.name == 'p_error':
            continue
        doc = ast.get_docstring(f) or ''
        if ':' not in doc:
            continue
        lhs = doc.split(':', 1)[0].split()[0]
        w = set()
        for n in ast.walk(f):
            if isinstance(n, ast.Attribute) and n.attr in ('typedecls', 'constdecls') and isinstance(n.value, ast.Name) and n.value.id == 'self':
                par_store = False
                for m in ast.walk(f):
                    if isinstance(m, ast.Subscript) and m.value is n and isinstance(m.ctx, (ast.Store, ast.Del)):
                        par_store = True
                    if isinstance(m, ast.Attribute) and m.value is n and m.attr in ('update', 'setdefault', 'pop', 'clear', 'popitem', '__setitem__'):
                        par_store = True
                    if isinstance(m, (ast.Assign, ast.AugAssign)) and any(t is n for t in (m.targets if isinstance(m, ast.Assign) else [m.target])):
                        par_store = True
                if par_store:
                    w.add(n.attr)
        direct.setdefault(lhs, set()).update(w)
        rhs_of.setdefault(lhs, set()).update(x for a in grammar_of(f) for x in a)
    writes = {k: set(v) for k, v in direct.items()}
    changed = True
    while changed:
        changed = False
        for lhs, syms in rhs_of.items():
            for x in syms:
                extra = writes.get(x, set()) - writes[lhs]
                if extra:
                    writes[lhs] |= extra
                    changed = True
    return writes


def names_setup(qualname):
    def setup(vm, module, env):
        fnode, _ = module.find(qualname)
        alts = grammar_of(fnode)
        writers = table_writers(module)
        self, t = ParserObj(), Prod(vm, alts)
        consts, types = Table(vm, 'constdecls'), Table(vm, 'typedecls')
        own = AbsList(vm, 'own_nodes')
        # the diagnostic flag: True once any diagnostic has been reported for this input
        reported = vm.fresh('reported_before', z3.BoolSort())
        st = {'args': [self, t], 'self': self, 't': t, 'consts': consts, 'types': types, 'own': own, 'alts': alts,
              'reported': reported, 'checks': [], 'entered': [], 'closure_env': {}}
        # every alternative of the production must treat slot k the same way for the slot to carry the guarantee
        width = max(len(a) for a in alts)
        for k in range(1, width + 1):
            syms = set(a[k - 1] for a in alts if len(a) >= k)
            if syms <= {'ID', 'unique_id'}:
                v = SStr(vm.fresh('t%d' % k, StrSort))
            elif syms == {'type_spec'}:
                v = (SStr(vm.fresh('type_name', StrSort)), vm.fresh_ref('type_definition', None))
            else:
                v = vm.fresh_ref('t%d' % k, None)       # value of another symbol: opaque
            t.slots[k] = v
            if syms == {'unique_id'}:
                # p_unique_id's contract: the name was new to both tables, or the diagnostic was reported -- at the moment
                # unique_id was reduced.  The symbols that follow it in the production are reduced before the production
                # itself: a table one of them may write can have grown since (only grown: nothing is ever removed)
                later = set(x for a in alts for x in a[k:])
                grown = set(tb for x in later for tb in writers.get(x, ()))
                st.setdefault('grown', set()).update(grown)
                at_check = {}
                for tb, table in (('typedecls', types), ('constdecls', consts)):
                    at_check[tb] = table.arr
                    if tb in grown:
                        table.arr = vm.fresh(table.name + '_now', StrSet)
                        vm.assume(z3.Implies(z3.Select(at_check[tb], v.t), z3.Select(table.arr, v.t)))
                vm.assume(z3.Or(reported, z3.And(z3.Not(z3.Select(at_check['typedecls'], v.t)),
                                                 z3.Not(z3.Select(at_check['constdecls'], v.t)))))
        vm.state = st
        return st
    return setup


def names_hooks():
    h = dict(HOOKS)

    def getattr_(vm, obj, attr):
        st = vm.state
        if isinstance(obj, ParserObj):
            if attr == 'constdecls':
                return st['consts']
            if attr == 'typedecls':
                return st['types']
            if attr == 'nodes':
                return st['own']
            if attr in ('_parser_check', '_parser_error'):
                return OpaqueFn(obj, attr)
        if isinstance(obj, Prod) and attr in ('lineno', 'lexpos'):
            return OpaqueFn(obj, attr)
        return HOOKS['getattr'](vm, obj, attr)

    def index(vm, obj, idx):
        if isinstance(obj, Prod):
            if idx in obj.slots:
                return obj.slots[idx]
            raise OutOfSubset('production slot %r' % (idx,))
        return NotImplemented

    def setitem(vm, obj, idx, val):
        st = vm.state
        if isinstance(obj, Prod):
            if idx == 0:
                obj.result = val
                return None
            raise OutOfSubset('assignment to production slot %r' % (idx,))
        if isinstance(obj, Table):
            k = vm.as_str(idx)
            rep = z3.Or(st['reported'], *[z3.Not(c) for c in st['checks']])
            vm.oblige('a name enters a table only if it is new to both tables, or a diagnostic was reported',
                      z3.Or(rep, z3.And(z3.Not(z3.Select(st['types'].arr, k)), z3.Not(z3.Select(st['consts'].arr, k)))),
                      'post', vm.cur_line)
            st['entered'].append((obj.name, k))
            obj.arr = z3.Store(obj.arr, k, z3.BoolVal(True))
            return None
        return HOOKS['setitem'](vm, obj, idx, val)

    def contains(vm, container, item):
        if isinstance(container, Table):
            return SBool(z3.Select(container.arr, vm.as_str(item)))
        return NotImplemented

    def call(vm, fn, args, kwargs, node):
        st = vm.state
        if isinstance(fn, OpaqueFn) and fn.attr in ('lineno', 'lexpos'):
            return SInt(vm.fresh(fn.attr))
        if isinstance(fn, OpaqueFn) and fn.attr == '_parser_check':
            cond = vm.truthy(args[0]) if isinstance(args[0], Sym) else z3.BoolVal(bool(args[0]))
            st['checks'].append(cond)
            return None
        if isinstance(fn, OpaqueFn) and fn.attr == '_parser_error':
            st['checks'].append(z3.BoolVal(False))
            return None
        n = getattr(fn, 'name', None) or getattr(fn, 'qualname', None) or ''
        if isinstance(n, str) and n.split('.')[-1] in ('Constant', 'Enum', 'EnumMember', 'Typedef') and not isinstance(fn, Closure):
            return vm.fresh_ref(n.split('.')[-1].lower() + '_node', None)
        return NotImplemented

    def str_(vm, x):
        return SStr(vm.fresh('str', StrSort))

    def format_(vm, *a, **k):
        return SStr(vm.fresh('text', StrSort))

    h.update({'getattr': getattr_, 'index': index, 'setitem': setitem, 'contains': contains, 'call': call, 'str': str_})
    return h


def declaring_post(table, slot):
    def post(vm, st, result):
        e = st['entered']
        t = st['t']
        return [('the declared name is entered, once, into the %s table' % table,
                 z3.And(z3.BoolVal(len(e) == 1 and e[0][0] == table + 'decls'), e[0][1] == t.slots[slot].t) if len(e) == 1 and slot in t.slots
                 else z3.BoolVal(False))]
    return post


for _q, _table, _slot in (('Parser.p_constant_def', 'const', 2), ('Parser.p_enum_def', 'type', 2), ('Parser.p_enum_member', 'const', 1),
                          ('Parser.p_typedef_def', 'type', 3)):
    Contract(PARSER, _q, ['C12'], names_setup(_q), declaring_post(_table, _slot), hooks=names_hooks(), modifies=[],
             notes=['grammar line read from the production docstring; a slot arriving through unique_id carries p_unique_id\'s guarantee',
                    'model constructors summarised as fresh objects'])


# ------------------------------------------------------------------ p_unique_id

def uid_setup(vm, module, env):
    st = names_setup('Parser.p_unique_id')(vm, module, env)
    return st


def uid_post(vm, st, result):
    t, checks = st['t'], st['checks']
    name = t.slots[1].t
    known = z3.Or(z3.Select(st['types'].arr, name), z3.Select(st['consts'].arr, name))
    return [('exactly one check', z3.BoolVal(len(checks) == 1)),
            ('`redefined` is reported exactly when the name is a known type or a known constant',
             checks[0] == z3.Not(known) if len(checks) == 1 else z3.BoolVal(False)),
            ('the name is handed on unchanged', z3.BoolVal(isinstance(t.result, SStr)) if not isinstance(t.result, SStr)
             else t.result.t == name),
            ('no table is written', z3.BoolVal(not st['entered']))]


Contract(PARSER, 'Parser.p_unique_id', ['C12'], uid_setup, uid_post, hooks=names_hooks(), modifies=[],
         notes=['the shared name check the declaring productions rely on'])
