"""C16: what `#include "file"` brings into the including file's scope -- prophyc.parsers.prophy.Parser.p_include_def.

For every list of nodes the included file delivers (kinds, names and enumerators are uninterpreted functions of the node):
    afterwards every delivered constant and every enumerator of a delivered enum is a known constant name, every delivered
    typedef / enum / struct / union a known type name; nothing is removed from either table;
    exactly one Include node (file stem, delivered nodes) is appended to the file's own node list;
    the ONLY diagnostics are: an unknown directive (`#` followed by something else than `include`), and the include error
    reported by the file processor (missing / cyclic include) -- in particular an include never complains about names:
    a file reached twice (listed twice, or along two include paths) delivers the same definitions again, harmlessly.
parse_file (the file processor, under contract in c16_files) is summarised: a list of nodes, or one of its two errors.
"""
import z3

from vf.contract import Contract, LoopAnn
from vf.pyvc import SRef, SSeq, SInt, SBool, SStr, Ref, OpaqueFn, Sym, OutOfSubset, PyRaise, StrSort, Closure
from vf import interp as I
from .absobj import AbsList, HOOKS

PARSER = 'prophyc/parsers/prophy.py'

NAME = z3.Function('node.name', Ref, StrSort)
KIND = z3.Function('node.kind', Ref, z3.IntSort())       # 0 constant, 1 enum, 2 typedef, 3 struct, 4 union, 5 include
NMEM = z3.Function('enum.n_members', Ref, z3.IntSort())
MEM = z3.Function('enum.member', Ref, z3.IntSort(), Ref)
StrSet = z3.ArraySort(StrSort, z3.BoolSort())
KINDS = {'Constant': 0, 'Enum': 1, 'Typedef': 2, 'Struct': 3, 'Union': 4, 'Include': 5}


class Table(Sym):
    def __init__(self, vm, name):
        self.name = name
        self.arr = vm.fresh(name, StrSet)


class ParserObj(Sym):
    pass


class Prod(Sym):
    """the yacc production: t[2] the directive word, t[3] the quoted path"""

    def __init__(self, vm):
        self.word = SStr(vm.fresh('directive', StrSort))
        self.path = SStr(vm.fresh('quoted_path', StrSort))


def inc_setup(vm, module, env):
    self, t = ParserObj(), Prod(vm)
    consts, types = Table(vm, 'constdecls'), Table(vm, 'typedecls')
    own = AbsList(vm, 'own_nodes')
    delivered = AbsList(vm, 'delivered')
    r = z3.Const('r', Ref)
    vm.assume(z3.ForAll([r], z3.And(0 <= KIND(r), KIND(r) <= 5, NMEM(r) >= 0), patterns=[KIND(r)]))
    st = {'args': [self, t], 'self': self, 't': t, 'consts': consts, 'types': types, 'c0': consts.arr, 't0': types.arr, 'own': own,
          'own_n0': own.length, 'delivered': delivered, 'errors': [], 'checks': [], 'include_failed': False, 'made': None, 'closure_env': {}}
    vm.state = st
    return st


def inc_hooks():
    h = dict(HOOKS)

    def getattr_(vm, obj, attr):
        st = vm.state
        if isinstance(obj, ParserObj):
            if attr == 'constdecls':
                return st['consts']
            if attr == 'typedecls':
                return st['types']
            if attr == 'nodes':
                return st['own']
            if attr in ('_parser_check', '_parser_error', 'parse_file'):
                return OpaqueFn(obj, attr)
        if isinstance(obj, Prod) and attr in ('lineno', 'lexpos'):
            return OpaqueFn(obj, attr)
        if isinstance(obj, SRef) and attr == 'name':
            return SStr(NAME(obj.t))
        if isinstance(obj, SRef) and attr == 'members':
            o = obj.t
            return SSeq(NMEM(o), lambda i: SRef(MEM(o, i), None, False), 'members')
        return HOOKS['getattr'](vm, obj, attr)

    def index(vm, obj, idx):
        if isinstance(obj, Prod):
            return {2: obj.word, 3: obj.path}.get(idx, SStr(vm.fresh('t%s' % idx, StrSort)))
        return NotImplemented

    def slice_(vm, obj, lo, hi):
        if isinstance(obj, SStr):
            return SStr(z3.Function('str.slice', StrSort, StrSort)(obj.t))
        return HOOKS['slice'](vm, obj, lo, hi)

    def external(vm, name, args, kwargs):
        if name.startswith('os.path.'):
            if name.endswith('splitext'):
                return (SStr(z3.Function('os.path.stem', StrSort, StrSort)(vm.as_str(args[0]))), SStr(vm.fresh('ext', StrSort)))
            return SStr(z3.Function(name, StrSort, StrSort)(vm.as_str(args[0])))
        return NotImplemented

    def call(vm, fn, args, kwargs, node):
        st = vm.state
        if isinstance(fn, OpaqueFn) and fn.attr in ('lineno', 'lexpos'):
            return SInt(vm.fresh(fn.attr))
        if isinstance(fn, OpaqueFn) and fn.attr == '_parser_check':
            cond = vm.truthy(args[0]) if isinstance(args[0], Sym) else z3.BoolVal(bool(args[0]))
            if st['checks']:
                # any check after the directive word: it must not be able to fail (an include never complains about names)
                vm.oblige('no diagnostic other than unknown directive / include error: this check always passes', cond, 'post', vm.cur_line)
            st['checks'].append(cond)
            return None
        if isinstance(fn, OpaqueFn) and fn.attr == '_parser_error':
            st['errors'].append(args[0])
            return None
        if isinstance(fn, OpaqueFn) and fn.attr == 'parse_file':
            k = vm.choose(3)
            if k == 1:
                st['include_failed'] = True
                raise PyRaise(I.ExcClass('CyclicIncludeError', 'Exception'), ('cycle',))
            if k == 2:
                st['include_failed'] = True
                raise PyRaise(I.ExcClass('FileNotFoundError', 'Exception'), ('missing',))
            return st['delivered']
        n = getattr(fn, 'name', None) or getattr(fn, 'qualname', None) or ''
        if isinstance(n, str) and n.split('.')[-1] == 'Include' and not isinstance(fn, Closure):
            st['made'] = (args[0], args[1])
            return vm.fresh_ref('include_node', None)
        return NotImplemented

    def isinstance_(vm, x, c):
        if isinstance(x, SRef):
            names = [getattr(k, 'name', None) for k in (c if isinstance(c, tuple) else (c,))]
            if all(n in KINDS for n in names):
                return vm.decide(z3.Or(*[KIND(x.t) == KINDS[n] for n in names]))
        return NotImplemented

    def setitem(vm, obj, idx, val):
        if isinstance(obj, Table):
            obj.arr = z3.Store(obj.arr, vm.as_str(idx), z3.BoolVal(True))
            return None
        return HOOKS['setitem'](vm, obj, idx, val)

    def contains(vm, container, item):
        if isinstance(container, Table):
            return SBool(z3.Select(container.arr, vm.as_str(item)))
        return NotImplemented

    def str_(vm, x):
        return SStr(vm.fresh('str', StrSort))

    h.update({'getattr': getattr_, 'index': index, 'slice': slice_, 'external': external, 'call': call, 'isinstance': isinstance_,
              'setitem': setitem, 'contains': contains, 'str': str_})
    return h


def scope_facts(vm, st, upto, inner=None):
    d = st['delivered']
    c, t = st['consts'].arr, st['types'].arr
    j, m = z3.Ints('j m')
    s = z3.Const('s', StrSort)
    n = lambda i: d.elem(i).t
    r = [('nothing is removed from the tables',
          z3.ForAll([s], z3.And(z3.Implies(z3.Select(st['c0'], s), z3.Select(c, s)), z3.Implies(z3.Select(st['t0'], s), z3.Select(t, s))))),
         ('delivered constants so far are known constants',
          z3.ForAll([j], z3.Implies(z3.And(0 <= j, j < upto, KIND(n(j)) == 0), z3.Select(c, NAME(n(j)))))),
         ('enumerators of delivered enums so far are known constants',
          z3.ForAll([j, m], z3.Implies(z3.And(0 <= j, j < upto, KIND(n(j)) == 1, 0 <= m, m < NMEM(n(j))), z3.Select(c, NAME(MEM(n(j), m)))))),
         ('delivered types so far are known types',
          z3.ForAll([j], z3.Implies(z3.And(0 <= j, j < upto, 1 <= KIND(n(j)), KIND(n(j)) <= 4), z3.Select(t, NAME(n(j))))))]
    if inner is not None:
        cur = n(upto)
        r.append(('enumerators of the enum at hand so far are known constants',
                  z3.ForAll([m], z3.Implies(z3.And(0 <= m, m < inner), z3.Select(c, NAME(MEM(cur, m)))))))
    return r


def fresh_tables(which):
    def f(vm, name):
        st = vm.state
        st[which].arr = vm.fresh(st[which].name, StrSet)
        return st[which]
    return f


def inc_outer(vm, env, k):
    return scope_facts(vm, vm.state, k)


def inc_inner(vm, env, m):
    st = vm.state
    k = vm.path.ghost['k']
    node = env.get('node')
    return scope_facts(vm, st, k, inner=m) + [('the node at hand', z3.And(node.t == st['delivered'].elem(k).t, KIND(node.t) == 1))]


class TablesLoop(LoopAnn):
    def havoc(self, vm, node, env):
        LoopAnn.havoc(self, vm, node, env)
        st = vm.state
        st['consts'].arr = vm.fresh('constdecls', StrSet)
        st['types'].arr = vm.fresh('typedecls', StrSet)


def inc_post(vm, st, result):
    t = st['t']
    is_include = t.word.t == vm.contract.str_const('include')
    checks = st['checks']
    r = []
    r.append(('exactly one check: the directive word', z3.BoolVal(len(checks) == 1)))
    if checks:
        r.append(('the directive check is `word == include`', checks[0] == is_include))
        for i, c in enumerate(checks[1:]):
            r.append(('no other complaint is possible (check %d always passes)' % (i + 2), c))
    r.append(('an include error is reported exactly when the file processor raised one',
              z3.BoolVal(len(st['errors']) == (1 if st['include_failed'] else 0))))
    own = st['own']
    r.append(('exactly one node appended to the file\'s own list', own.length == st['own_n0'] + 1))
    made = st['made']
    r.append(('it is Include(stem of the path, the delivered nodes)',
              z3.BoolVal(made is not None and (made[1] is st['delivered'] or (st['include_failed'] and made[1] == [])))))
    if not st['include_failed']:
        r += scope_facts(vm, st, st['delivered'].length)
    return r


Contract(PARSER, 'Parser.p_include_def', ['C16'], inc_setup, inc_post, hooks=inc_hooks(), modifies=[],
         loops={0: TablesLoop(inc_outer, index='k'), 1: TablesLoop(inc_inner, index='m')},
         notes=['parse_file summarised: delivers a list of nodes or raises CyclicIncludeError / FileNotFoundError',
                'node kinds, names and enumerators as uninterpreted functions; table membership only (not the stored objects)'])
