"""abstract Python objects used by the API contracts (C10/C11): lists with symbolic length and dict-like field maps.
They implement CPython's list/dict semantics for the operations the code uses (builtin contracts = assumptions,
cross-checked by vf/selftest) and record every *mutation* so that `unchanged on rejection` is checkable."""
import z3

from vf.pyvc import SSeq, SInt, SBool, SRef, Sym, OutOfSubset, PyRaise, Ref
from vf import interp as I


def clamp_index(i, n):
    """Python slice bound normalisation"""
    i = z3.If(i < 0, i + n, i)
    return z3.If(i < 0, z3.IntVal(0), z3.If(i > n, n, i))


def slice_bound(vm, x, default, n):
    """a slice bound: None -> default, int -> clamped (Python semantics)"""
    from vf.pyvc import SOpt
    if x is None:
        return default if z3.is_expr(default) else z3.IntVal(default)
    if isinstance(x, SOpt):
        d = default if z3.is_expr(default) else z3.IntVal(default)
        return z3.If(x.isnone, d, clamp_index(x.val, n))
    return clamp_index(vm.as_int(x), n)


class AbsList(SSeq):
    """a Python list of symbolic length; elements via self.elem(i)"""

    def __init__(self, vm, name, elem_kind='ref'):
        n = vm.fresh('n_' + name)
        vm.assume(n >= 0)
        vm.lengths.append(n)
        sort = Ref if elem_kind == 'ref' else z3.IntSort()
        f = z3.Function('%s_at!%d' % (name, next(vm._fresh)), z3.IntSort(), sort)
        wrap = (lambda t: SRef(t, None, False)) if elem_kind == 'ref' else (lambda t: SInt(t))
        SSeq.__init__(self, n, lambda i: wrap(f(i)), name)
        self.n0, self.elem0, self.wrap = n, self.elem, wrap
        self.mutations = []

    def term(self, x):
        return x.t

    # --- reads
    def sym_len(self, vm):
        return SInt(self.length)

    def sym_slice(self, vm, lo, hi):
        n = self.length
        a = slice_bound(vm, lo, 0, n)
        b = slice_bound(vm, hi, n, n)
        ln = z3.If(b > a, b - a, z3.IntVal(0))
        old = self.elem
        return SSeq(ln, lambda i: old(a + i), self.name + '[a:b]')

    # --- mutations (CPython list semantics)
    def m_append(self, vm, x):
        n, old = self.length, self.elem
        self.length, self.elem = n + 1, (lambda i: vm.merge(i < n, old(i), x))
        self.mutations.append(('append',))

    def m_insert(self, vm, idx, x):
        n, old = self.length, self.elem
        p = clamp_index(vm.as_int(idx), n)
        self.length = n + 1
        self.elem = lambda i: vm.merge(i < p, old(i), vm.merge(i == p, x, old(i - 1)))
        self.mutations.append(('insert',))

    def m_extend(self, vm, seq):
        n, old = self.length, self.elem
        if not isinstance(seq, SSeq):
            items = list(vm.iterate(seq))
            seq = SSeq(z3.IntVal(len(items)), lambda i: I_pick(items, i), 'items')
        m, new = seq.length, seq.elem
        self.length, self.elem = n + m, (lambda i: vm.merge(i < n, old(i), new(i - n)))
        self.mutations.append(('extend',))

    def m_setslice(self, vm, lo, hi, seq):
        n, old = self.length, self.elem
        a = slice_bound(vm, lo, 0, n)
        b = slice_bound(vm, hi, n, n)
        b = z3.If(b < a, a, b)
        m, new = seq.length, seq.elem
        self.length = n - (b - a) + m
        self.elem = lambda i: vm.merge(i < a, old(i), vm.merge(i < a + m, new(i - a), old(i - m + (b - a))))
        self.mutations.append(('setslice',))

    def m_setitem(self, vm, idx, x):
        n, old = self.length, self.elem
        i0 = vm.as_int(idx)
        ok = z3.And(i0 >= -n, i0 < n)
        if vm.decide(z3.Not(ok)):
            raise PyRaise(I.ExcClass('IndexError'), ('list assignment index out of range',))
        p = z3.If(i0 < 0, i0 + n, i0)
        self.elem = lambda i: vm.merge(i == p, x, old(i))
        self.mutations.append(('setitem',))

    def m_delslice(self, vm, lo, hi):
        n, old = self.length, self.elem
        a = slice_bound(vm, lo, 0, n)
        b = slice_bound(vm, hi, n, n)
        b = z3.If(b < a, a, b)
        self.length = n - (b - a)
        self.elem = lambda i: vm.merge(i < a, old(i), old(i + (b - a)))
        self.mutations.append(('delslice',))

    def m_delitem(self, vm, idx):
        n, old = self.length, self.elem
        i0 = vm.as_int(idx)
        ok = z3.And(i0 >= -n, i0 < n)
        if vm.decide(z3.Not(ok)):
            raise PyRaise(I.ExcClass('IndexError'), ('list assignment index out of range',))
        p = z3.If(i0 < 0, i0 + n, i0)
        self.length = n - 1
        self.elem = lambda i: vm.merge(i < p, old(i), old(i + 1))
        self.mutations.append(('delitem',))

    def sym_getattr(self, vm, attr):
        if attr in ('append', 'insert', 'extend', 'remove'):
            return I.MethodOf(self, attr)
        return NotImplemented


def I_pick(items, i):
    i = z3.simplify(i)
    if z3.is_int_value(i):
        return items[i.as_long()]
    raise OutOfSubset('symbolic index into a concrete list')


# ---- hooks dispatching to the protocol

def hook_method(vm, obj, name, args, kwargs):
    if isinstance(obj, AbsList):
        if name == 'append':
            obj.m_append(vm, args[0])
            return None
        if name == 'insert':
            obj.m_insert(vm, args[0], args[1])
            return None
        if name == 'extend':
            obj.m_extend(vm, args[0])
            return None
    if isinstance(obj, FieldsMap):
        return obj.method(vm, name, args, kwargs)
    return NotImplemented


def hook_getattr(vm, obj, attr):
    if hasattr(obj, 'sym_getattr'):
        return obj.sym_getattr(vm, attr)
    return NotImplemented


def hook_slice(vm, obj, lo, hi):
    if hasattr(obj, 'sym_slice'):
        return obj.sym_slice(vm, lo, hi)
    return NotImplemented


def hook_setslice(vm, obj, lo, hi, val):
    if isinstance(obj, AbsList):
        if not isinstance(val, SSeq):
            raise OutOfSubset('slice assignment from %r' % (val,))
        obj.m_setslice(vm, lo, hi, val)
        return None
    return NotImplemented


def hook_setitem(vm, obj, idx, val):
    if isinstance(obj, AbsList):
        obj.m_setitem(vm, idx, val)
        return None
    if isinstance(obj, FieldsMap):
        obj.setitem(vm, idx, val)
        return None
    return NotImplemented


def hook_delitem(vm, obj, key):
    if isinstance(obj, AbsList):
        if isinstance(key, tuple) and key[0] == 'slice':
            obj.m_delslice(vm, key[1], key[2])
        else:
            obj.m_delitem(vm, key)
        return None
    return NotImplemented


HOOKS = {'method': hook_method, 'getattr': hook_getattr, 'slice': hook_slice, 'setslice': hook_setslice,
         'setitem': hook_setitem, 'delitem': hook_delitem}


# ---------------------------------------------------------------------------------------------- dict of fields

class FieldsMap(Sym):
    """message._fields restricted to the one key the function under contract works on:
    (present, value) for that key; every operation is recorded"""

    def __init__(self, vm, key, value_factory):
        self.key = key
        self.present = vm.fresh('present', z3.BoolSort())
        self.value = value_factory()
        self.present0, self.value0 = self.present, self.value
        self.ops = []

    def _check_key(self, vm, k, what):
        same = hasattr(k, 't') and k.t.eq(self.key.t)
        vm.oblige('call._fields.%s:key is descriptor_field.name' % what, same, 'call', vm.cur_line)

    def method(self, vm, name, args, kwargs):
        if name == 'get':
            self._check_key(vm, args[0], 'get')
            default = args[1] if len(args) > 1 else None
            self.ops.append(('get', default))
            if vm.decide(self.present):
                return self.value
            return default
        if name == 'setdefault':
            self._check_key(vm, args[0], 'setdefault')
            if vm.decide(self.present):
                self.ops.append(('setdefault-kept',))
                return self.value
            self.present, self.value = z3.BoolVal(True), args[1]
            self.ops.append(('setdefault-stored', args[1]))
            return args[1]
        if name == 'pop':
            self._check_key(vm, args[0], 'pop')
            if len(args) < 2:
                raise OutOfSubset('pop without default')
            old_p, old_v = self.present, self.value
            self.present = z3.BoolVal(False)
            self.ops.append(('pop',))
            if vm.decide(old_p):
                return old_v
            return args[1]
        if name == 'clear':
            self.present = z3.BoolVal(False)
            self.ops.append(('clear',))
            return None
        return NotImplemented

    def setitem(self, vm, k, val):
        self._check_key(vm, k, '__setitem__')
        self.present, self.value = z3.BoolVal(True), val
        self.ops.append(('set', val))

    def sym_getattr(self, vm, attr):
        if attr in ('get', 'setdefault', 'pop', 'clear', 'items'):
            return I.MethodOf(self, attr)
        return NotImplemented

    def mutated(self):
        return any(op[0] in ('set', 'setdefault-stored', 'pop', 'clear') for op in self.ops)
