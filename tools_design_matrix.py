#!/usr/bin/env python3
"""rewrites DESIGN.md section 12.8 (the seed matrix) from seeded/MATRIX.json"""
import json, os, re
rows = [r for r in json.load(open('/verif/seeded/MATRIX.json')) if r.get('status') != 'superseded']
MISSED = ['C09-m1', 'C17-m3', 'C10-m3', 'C14-m3', 'C16-m3', 'C06-m4', 'C17-m4', 'C13-m3', 'C11-m4', 'C18-m5', 'C20-m4', 'C16-m4', 'C12-m5',
          'C14-m4', 'C13-m4', 'C16-m5', 'C01-m5', 'C12-m6', 'C17-m5', 'C18-m6', 'C14-m5']
n = len(rows)
ex1 = [r for r in rows if r.get('exit') == 1]
byc = [r for r in rows if r.get('n_contract_refutations', 0) > 0]
so = [r['seed'] for r in rows if r.get('n_contract_refutations', 0) == 0]
co = [r['seed'] for r in rows if r.get('n_contract_refutations', 0) > 0 and r.get('standin_failures', 0) == 0]
words = {16: 'Sixteen', 20: 'Twenty', 21: 'Twenty-one'}
head = """### 12.8 Seed matrix (from `seeded/MATRIX.json`; quick tier, VERIF_SEED=0; refreshed after 12.26)

"contracts" = number of refuted contract obligations that are not recorded findings; "stand-in" = failures of the
bounded stand-in (recorded findings included). Every live seed makes its property's check exit 1 (%d of %d); %d are refuted by a contract obligation
(25 of 38 when this table was first written), the other %d only by the bounded stand-in (%s): their changed code leaves the
accepted subset, is text processing on characters (strings are opaque to PyVC), or sits in code without a contract (12.12–12.24).
%d seeds are caught by a contract obligation and by *no* stand-in case (%s). %s seeds were *missed* by the first run
against them (%s); each led to a new or wider contract and / or new stand-in inputs (12.10, 12.14–12.24).

| seed | property | files changed | exit | contracts | stand-in |
|---|---|---|---|---|---|
""" % (len(ex1), n, len(byc), len(so), ', '.join(so), len(co), ', '.join(co), words.get(len(MISSED), str(len(MISSED))), ', '.join(MISSED))
body = ''.join('| %s | %s | %s | %s | %s | %s |\n' % (r['seed'], r['property'], ', '.join(os.path.basename(f) for f in (r.get('files') or [])),
                                                  r.get('exit'), r.get('n_contract_refutations'), r.get('standin_failures')) for r in rows)
s = open('/verif/DESIGN.md').read()
a = s.index('### 12.8 Seed matrix')
b = s.index('### 12.9 ')
s = s[:a] + head + body + '\n' + s[b:]
open('/verif/DESIGN.md', 'w').write(s)
print(len(ex1), n, len(byc), so, co)
