#!/bin/sh
# usage: tools_run_all.sh [tier] -- runs every claimed check against /repo (VERIF_SEED from the environment), prints one line each
TIER=${1:-quick}
cd /verif
for P in $(python3 -c "import json; print(' '.join(c['property_id'] for c in json.load(open('MANIFEST.json'))['checks']))"); do
  S=$(date +%s)
  ./check $P --tier $TIER > /tmp/runall_$P.log 2>&1; R=$?
  E=$(( $(date +%s) - S ))
  echo "$P exit=$R ${E}s viol=$(grep -c '^VIOLATION' /tmp/runall_$P.log) undecided=$(grep -c '^UNDECIDED' /tmp/runall_$P.log) known=$(grep -c '^KNOWN-FINDING' /tmp/runall_$P.log) notes=$(grep -c '^ENGINE' /tmp/runall_$P.log) | $(grep -E "^$P:" /tmp/runall_$P.log | cut -c1-150)"
done
