"""
Bounded stand-in for C08 (raw C++ struct layout == wire layout): prophyc --cpp_out on a schema family, a generated
translation unit printing offsetof/sizeof evaluated by g++ on the real <schema>.pp.hpp, compared with the offsets
specs/wire.py assigns (relative to the start of the struct or of the part).  Labelled bounded.
"""
import os
import subprocess
from concurrent.futures import ThreadPoolExecutor

from specs import wire as W, family as F, adapters as Ad
from . import lib, cxx

DOMAIN = 'structs with 1..4 members drawn from %d member kinds and unions over the fixed type pool; GCC x86-64 ABI'


def expected_struct(st):
    """[(designator type, member name, expected offset)], expected sizeof or None"""
    v = W.default_value(st)
    offs, total = W.field_offsets(st, v)
    rows = []
    part_type, part_start, part_no = st.name, 0, 1
    new_part = False
    for j, f in enumerate(st.fields):
        if new_part:
            part_no += 1
            part_type, part_start = '%s::part%d' % (st.name, part_no), offs[j]
            new_part = False
        rel = offs[j] - part_start
        if isinstance(f.ty, W.Optional):
            rows.append((part_type, 'has_' + f.name, rel))
            rows.append((part_type, f.name, rel + W.opt_alignment(W.A(f.ty.base))))
        else:
            rows.append((part_type, f.name, rel))
        if W.is_dynamic_field(f.ty):
            new_part = True
    size = W.S(st) if W.stiff(st) == 0 else None
    return rows, size


def expected_union(u):
    a = W.A(u)
    rows = [(u.name, 'discriminator', 0)] + [(u.name, arm.name, a) for arm in u.arms]
    return rows, W.S(u)


def _probe_source(name, types):
    lines = ['#include <cstdio>', '#include <cstddef>', '#include "%s.pp.hpp"' % name, 'int main()', '{']
    for t in types:
        rows, size = expected_struct(t) if isinstance(t, W.Struct) else expected_union(t)
        for ty, member, _ in rows:
            lines.append('    printf("%s %s %%zu\\n", offsetof(%s, %s));' % (ty, member, ty, member))
        lines.append('    printf("%s sizeof %%zu\\n", sizeof(%s));' % (t.name, t.name))
    lines += ['    return 0;', '}']
    return '\n'.join(lines) + '\n'


def _build_and_run(unit):
    if unit.error:
        return unit
    d = unit.dir
    with open(os.path.join(d, 'probe.cpp'), 'w') as f:
        f.write(_probe_source(unit.name, unit.all_types))
    p = subprocess.run([cxx.CXX, '-std=c++11', '-O0', '-w', '-Wno-invalid-offsetof', '-I', cxx.INCLUDE, '-I', d,
                        os.path.join(d, 'probe.cpp'), '-o', os.path.join(d, 'probe')],
                       stdout=subprocess.PIPE, stderr=subprocess.STDOUT)
    if p.returncode != 0:
        unit.error = 'g++: ' + p.stdout.decode('utf-8', 'replace')[-2500:]
        return unit
    p = subprocess.run([os.path.join(d, 'probe')], stdout=subprocess.PIPE, stderr=subprocess.STDOUT)
    unit.table = {}
    for ln in p.stdout.decode().splitlines():
        ty, member, val = ln.split()
        unit.table[(ty, member)] = int(val)
    return unit


def _prepare(unit, scratch):
    d = scratch.path(unit.name)
    os.makedirs(d)
    src = os.path.join(d, unit.name + '.prophy')
    with open(src, 'w') as f:
        f.write(unit.text)
    nodes, error, _ = lib.run_prophyc([src, '--cpp_out', d])
    if error:
        unit.error = 'prophyc: ' + error
    unit.dir = d
    return unit


def _check(unit, fail, texts):
    cases = 0
    for t in unit.all_types:
        txt = texts.get(t.name, 'pool %s' % t.name)
        rows, size = expected_struct(t) if isinstance(t, W.Struct) else expected_union(t)
        cases += 1
        bad = [(ty, m, exp, unit.table.get((ty, m))) for ty, m, exp in rows if unit.table.get((ty, m)) != exp]
        if bad:
            fail('offsetof', txt, None, '; '.join('offsetof(%s, %s) is %s, wire offset %s' % (ty, m, got, exp)
                                                  for ty, m, exp, got in bad[:6]))
        if size is not None and unit.table.get((t.name, 'sizeof')) != size:
            fail('sizeof', txt, None, 'sizeof(%s) is %s, wire size %s' % (t.name, unit.table.get((t.name, 'sizeof')), size))
    return cases


def _pool_types():
    return [t for n, t in F.POOL.t.items() if isinstance(t, (W.Struct, W.Union)) and n == getattr(t, 'name', None)]


def run(prop, seed, tier, only=None):
    units, rng = cxx.family(seed, tier, prop, count=150 if tier == 'quick' else 1500, chunk=60)
    failures, cases, perkey = [], 0, {}
    texts = {}

    def fail(key, txt, v, what):
        perkey[key] = perkey.get(key, 0) + 1
        if perkey[key] <= 3:
            failures.append({'key': key, 'schema': F.Pool.TEXT + (txt if not txt.startswith('pool ') else ''),
                             'struct': txt.split()[1], 'value': repr(v), 'what': what})

    for u in units:
        for line in u.text[len(F.Pool.TEXT):].splitlines(True):
            texts[line.split()[1]] = line
        u.all_types = (_pool_types() if u is units[0] else []) + u.types
    with lib.Scratch() as sc:
        for u in units:
            _prepare(u, sc)
        with ThreadPoolExecutor(max_workers=16) as ex:
            list(ex.map(_build_and_run, units))
        for u in units:
            if u.error:
                fail('build', u.text[len(F.Pool.TEXT):].splitlines(True)[0], None, u.error[:1500])
                continue
            cases += _check(u, fail, texts)
    for f in failures:
        f['count_for_key'] = perkey[f['key']]
    ntypes = sum(len(u.all_types) for u in units)
    return {'cases': cases, 'distinct': ntypes, 'failures': failures, 'domain': DOMAIN % len(F.member_kinds()),
            'bound': '%d structs and unions (seed %d)%s, <=4 members; offsetof/sizeof evaluated by g++ 12 (x86-64)' %
                     (ntypes, seed, '' if tier == 'quick' else ' incl. all structs of <=2 members over the reduced kind list')}


def replay(prop, w):
    failures = []
    name = w['struct']
    with lib.Scratch() as sc:
        u = cxx.Unit('r', w['schema'], [])
        _prepare(u, sc)
        if u.error:
            print(u.error)
            return False
        nodes, _, _ = lib.run_prophyc([os.path.join(u.dir, 'r.prophy')])
        node = [n for n in nodes['r'] if n.name == name]
        if node:
            t = Ad.from_model(node[0])
            t.name = name
            u.all_types = [t]
        else:
            u.all_types = [t for t in _pool_types() if t.name == name]
        _build_and_run(u)
        if u.error:
            print(u.error)
            return False
        _check(u, lambda *a: failures.append(a), {})
    for f in failures[:10]:
        print(f[0], f[3])
    return not failures
