"""
Bounded stand-in for C06: real decoders on arbitrary bytes -- every prefix of valid encodings, every
single-word corruption (counters, flags, discriminators, enum words set to 0 / 1 / 0xff.. / large),
random bytes.  Checks: returns or raises ProphyError only; prompt (time and allocation budget);
a returned message encodes and decode(encode) is a fixpoint.
"""
import random
import resource
import signal
import time

from specs import wire as W, family as F, adapters as Ad
from . import lib

DOMAIN = 'sampled struct family x (all prefixes, word corruptions at every 4-byte offset, random strings), both byte orders'


class Slow(Exception):
    pass


def _alarm(*a):
    raise Slow()


def _try_decode(cls, st, data, e, fail, txt, what):
    import prophy
    m = cls()
    signal.signal(signal.SIGALRM, _alarm)
    signal.setitimer(signal.ITIMER_REAL, 2.0)
    import tracemalloc
    budget = 64 * 1024 + 1024 * len(data)          # "never allocates memory disproportionate to the input"
    tracemalloc.start()
    try:
        try:
            m.decode(data, e)
        finally:
            signal.setitimer(signal.ITIMER_REAL, 0)
            peak = tracemalloc.get_traced_memory()[1]
            tracemalloc.stop()
            if peak > budget:
                fail('allocation', txt, data.hex(), '%s: decode of %d bytes allocated %d bytes (budget 64 KiB + 1 KiB per input byte)'
                     % (what, len(data), peak))
    except prophy.ProphyError:
        return
    except Slow:
        fail('slow', txt, data.hex(), '%s: decode of %d bytes did not finish in 2 s' % (what, len(data)))
        return
    except MemoryError:
        fail('memory', txt, data.hex(), '%s: decode of %d bytes exhausted the allocation budget' % (what, len(data)))
        return
    except Exception as ex:
        fail('exception', txt, data.hex(), '%s: %s escaped decode' % (what, type(ex).__name__))
        return
    try:
        b = m.encode(e)
        m2 = cls()
        n = m2.decode(b, e)
        if m2.encode(e) != b or n != len(b):
            fail('fixpoint', txt, data.hex(), '%s: decode(encode(m)) is not a fixpoint' % what)
    except Exception as ex:
        key = 'reencode'
        try:
            from specs import adapters as Ad
            if not W.greedy_aligned(st, Ad.view(m, st)):
                # the documented exception of the format (C02): a greedy tail that ends off the message alignment is
                # followed by padding that cannot be told from elements -- recorded finding, reported under its own key
                key = 'unaligned-greedy-tail:reencode'
        except Exception:
            pass
        fail(key, txt, data.hex(), '%s: decoded message does not encode/decode: %r' % (what, ex))


def run(prop, seed, tier):
    rng = F.rng_for(seed, 'py_fuzz')
    count = 60 if tier == 'quick' else 600
    structs = F.sample_structs(rng, count, 4)
    failures, cases = [], 0

    def fail(key, txt, v, what):
        if len(failures) < 50:
            failures.append({'key': key, 'schema': F.Pool.TEXT + txt, 'struct': txt.split()[1], 'value': v, 'what': what})

    soft, hard = resource.getrlimit(resource.RLIMIT_AS)
    resource.setrlimit(resource.RLIMIT_AS, (2 << 30, hard))
    with lib.Scratch() as sc:
        try:
            mod, nodes = lib.compile_python(F.Pool.TEXT + ''.join(t for t, _ in structs), sc, 'fz')
        except lib.CompileError as ex:
            failures.append({'key': 'build', 'schema': F.Pool.TEXT + ''.join(t for t, _ in structs), 'struct': '-', 'value': '-',
                             'what': str(ex)[:1500]})
            structs = []
        for txt, st in structs:
            cls = getattr(mod, st.name)
            for e in '<>':
                v = F.gen_value(st, rng)
                good = W.enc(st, v, e)
                inputs = [('prefix', good[:i]) for i in range(len(good))]
                inputs.append(('extended', good + b'\x00'))
                for off in range(0, len(good), 4 if len(good) > 8 else 1):
                    for word in (b'\x00\x00\x00\x00', b'\x01\x00\x00\x00', b'\xff\xff\xff\xff', b'\x00\x01\x00\x01', b'\x00\x00\x00\x01'):
                        inputs.append(('corrupt@%d' % off, good[:off] + word[:max(0, len(good) - off)] + good[off + 4:]))
                for _ in range(4):
                    inputs.append(('random', bytes(rng.randrange(256) for _ in range(rng.randint(0, 24)))))
                if tier == 'quick':
                    rng.shuffle(inputs)
                    inputs = inputs[:40]
                for what, data in inputs:
                    _try_decode(cls, st, data, e, fail, txt, what)
                    cases += 1
    return {'cases': cases, 'distinct': cases, 'failures': failures, 'domain': DOMAIN,
            'bound': '%d structs, <=40 inputs each per byte order (quick) / all inputs (thorough); 2 s and 2 GiB per decode' % count}


def replay(prop, w):
    with lib.Scratch() as sc:
        mod, nodes = lib.compile_python(w['schema'], sc, 'r')
        cls = getattr(mod, w['struct'])
        fails = []
        st = Ad.from_model([n for n in nodes if n.name == w['struct']][0])
        for e in '<>':
            _try_decode(cls, st, bytes.fromhex(w['value']), e, lambda *a: fails.append(a), w['struct'], 'replay')
        for f in fails:
            print(f)
        return not fails
