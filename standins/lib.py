"""
standins/lib.py -- shared helpers for bounded stand-ins and replays (run under /venv/bin/python).
Everything is compiled from /repo's *current working tree* on each call: prophyc is invoked
in-process (prophyc.main) on freshly written schema text; generated modules go to a scratch
directory that is removed by the caller.
"""
import importlib
import io
import contextlib
import os
import shutil
import sys
import tempfile

REPO = os.environ.get('VERIF_REPO', '/repo')
if REPO not in sys.path:
    sys.path.insert(0, REPO)


class Scratch(object):
    def __init__(self, prefix='vf-'):
        self.dir = tempfile.mkdtemp(prefix=prefix)

    def __enter__(self):
        return self

    def __exit__(self, *a):
        shutil.rmtree(self.dir, ignore_errors=True)

    def path(self, *p):
        return os.path.join(self.dir, *p)

    def write(self, name, text):
        p = self.path(name)
        d = os.path.dirname(p)
        if not os.path.isdir(d):
            os.makedirs(d)
        with io.open(p, 'w', encoding='utf-8') as f:
            f.write(text)
        return p


def run_prophyc(args):
    """prophyc.main in-process; returns (model_nodes | None, error text | None, stderr text)"""
    import prophyc
    err = io.StringIO()
    try:
        with contextlib.redirect_stderr(err), contextlib.redirect_stdout(io.StringIO()):
            nodes = prophyc.main(list(args))
        return nodes, None, err.getvalue()
    except prophyc.ProphycError as e:
        return None, str(e), err.getvalue()


_counter = [0]


def import_generated(directory, name):
    """import generated module `name` from `directory` as part of a fresh package (generated
    modules use relative imports for includes)"""
    _counter[0] += 1
    pkg = 'vfgen%d' % _counter[0]
    pkgdir = os.path.join(directory, pkg)
    os.makedirs(pkgdir)
    for f in os.listdir(directory):
        if f.endswith('.py'):
            shutil.copy(os.path.join(directory, f), os.path.join(pkgdir, f))
    open(os.path.join(pkgdir, '__init__.py'), 'w').close()
    sys.path.insert(0, directory)
    try:
        importlib.invalidate_caches()
        return importlib.import_module('%s.%s' % (pkg, name))
    finally:
        sys.path.remove(directory)


def compile_python(text, scratch, name='t'):
    """schema text -> (generated module, model nodes list).  Raises CompileError."""
    src = scratch.write('%s.prophy' % name, text)
    out = scratch.path('out_%s' % name)
    os.makedirs(out)
    nodes, error, _ = run_prophyc([src, '--python_out', out])
    if error:
        raise CompileError(error)
    try:
        mod = import_generated(out, name)
    except Exception as ex:
        # accepted by prophyc, but the module it wrote cannot be imported: reported like a rejection, with the reason
        raise CompileError('generated module does not import: %r' % ex)
    return mod, nodes[name]


class CompileError(Exception):
    pass
