"""
Bounded stand-in for C16 (and the include part of C20): a schema split over several files with includes (chain, diamond,
-I directories, other working directory, nested directory with sibling includes, empty files) against its single-file
concatenation: same definitions, same layouts; each file processed once; missing / cyclic includes are errors.
"""
import os

from specs import family as F
from . import lib

DOMAIN = 'sampled struct family split into <= 4 files x {same dir, -I dir, nested dir + sibling include, diamond, empty file, other cwd}'


def layout_of(nodes, acc=None):
    from prophyc import model
    acc = {} if acc is None else acc
    for n in nodes:
        if isinstance(n, model.Include):
            layout_of(n.members, acc)
        elif isinstance(n, (model.Struct, model.Union)):
            acc[n.name] = (n.byte_size, n.alignment, getattr(n, 'kind', None), tuple((m.name, m.byte_size, getattr(m, 'padding', None)) for m in n.members))
        elif isinstance(n, model.Constant):
            acc[n.name] = n.value
        elif isinstance(n, model.Enum):
            acc[n.name] = tuple((m.name, m.value) for m in n.members)
        elif isinstance(n, model.Typedef):
            acc[n.name] = n.type_name
    return acc


def run(prop, seed, tier):
    import prophyc
    rng = F.rng_for(seed, 'multifile')
    rounds = 12 if tier == 'quick' else 120
    failures, cases = [], 0

    def fail(key, text, what):
        if len(failures) < 30:
            failures.append({'key': key, 'schema': text, 'struct': '-', 'value': '-', 'what': what})

    pool_lines = [l + '\n' for l in F.Pool.TEXT.strip().split('\n')]
    with lib.Scratch() as sc:
        for r in range(rounds):
            structs = F.sample_structs(rng, 6, 3, prefix='M%d_' % r)
            # add cross references so that later files need earlier ones
            texts = [t for t, _ in structs]
            for i in range(1, len(texts)):
                texts[i] = texts[i].replace(' };', ' %s ref%d; };' % (structs[rng.randrange(i)][1].name, i)) if rng.random() < 0.7 and \
                    all(k not in texts[i] for k in ('<...>', ' G1 ', ' G16 ')) and 'G' not in structs[i][1].name else texts[i]
            lines = pool_lines + ['const K%d = %d;\n' % (r, 3)] + texts
            single = ''.join(lines)
            base = sc.path('r%d' % r)
            os.makedirs(base)
            with open(os.path.join(base, 'single.prophy'), 'w') as f:
                f.write(single)
            out = os.path.join(base, 'out_single')
            os.makedirs(out)
            nodes, err, _ = lib.run_prophyc([os.path.join(base, 'single.prophy'), '--python_out', out, '--quiet'])
            cases += 1
            if err:
                continue            # an invalid random cross reference (e.g. unlimited not last): not a C16 case
            want = layout_of(nodes['single'])
            mod1 = [None]
            # split
            cuts = sorted(rng.sample(range(1, len(lines)), min(3, len(lines) - 1)))
            parts = [lines[a:b] for a, b in zip([0] + cuts, cuts + [len(lines)])]
            for arrangement in ('flat', 'incdir', 'nested', 'diamond', 'emptyfile', 'othercwd'):
                d = os.path.join(base, arrangement)
                os.makedirs(d)
                incdir = d
                names = ['part%d' % i for i in range(len(parts))]
                args_extra = []
                if arrangement == 'incdir':
                    incdir = os.path.join(d, 'inc')
                    os.makedirs(incdir)
                    args_extra = ['-I', incdir]
                if arrangement == 'nested':
                    incdir = os.path.join(d, 'inc', 'proto')
                    os.makedirs(incdir)
                    args_extra = ['-I', os.path.join(d, 'inc')]
                for i, part in enumerate(parts):
                    last = i == len(parts) - 1
                    where = d if (last or arrangement in ('flat', 'othercwd', 'diamond', 'emptyfile')) else incdir
                    # every file includes (directly) the files whose names it uses: all earlier ones -> diamonds everywhere
                    order = list(range(i))
                    if arrangement == 'diamond':
                        order.reverse()
                    prefix = 'proto/' if (arrangement == 'nested' and last) else ''
                    incs = ''.join('#include "%s%s.prophy"\n' % (prefix, names[j]) for j in order)
                    if arrangement == 'emptyfile':
                        incs = '#include "empty.prophy"\n' + incs
                    with open(os.path.join(where, names[i] + '.prophy'), 'w') as f:
                        f.write(incs + ''.join(part))
                if arrangement == 'emptyfile':
                    with open(os.path.join(d, 'empty.prophy'), 'w') as f:
                        f.write('// nothing declared here\n')
                main = os.path.join(d, names[-1] + '.prophy')
                out = os.path.join(d, 'out')
                os.makedirs(out)
                cwd = os.getcwd()
                try:
                    if arrangement == 'othercwd':
                        os.chdir(out)
                        main = os.path.relpath(main, out)
                    nodes2, err2, _ = lib.run_prophyc([main, '--python_out', out, '--quiet'] + args_extra)
                    if not err2 and arrangement != 'othercwd':
                        # the per-file outputs of the files it includes (every file is an input of its own run)
                        for i, nm in enumerate(names[:-1]):
                            where = d if arrangement in ('flat', 'diamond', 'emptyfile') else incdir
                            _, e3, _ = lib.run_prophyc([os.path.join(where, nm + '.prophy'), '--python_out', out, '--quiet'] + args_extra)
                            if e3:
                                err2 = 'included file %s alone: %s' % (nm, e3)
                                break
                        if arrangement == 'emptyfile' and not err2:
                            _, e3, _ = lib.run_prophyc([os.path.join(d, 'empty.prophy'), '--python_out', out, '--quiet'])
                finally:
                    os.chdir(cwd)
                cases += 1
                if err2:
                    fail('rejected:' + arrangement, single, '%s arrangement of a valid schema rejected: %s' % (arrangement, err2[:200]))
                    continue
                got = layout_of(nodes2[names[-1]])
                if got != want:
                    diff = [k for k in want if got.get(k) != want[k]]
                    fail('layout:' + arrangement, single, '%s arrangement differs from the single file for %r: %r vs %r'
                         % (arrangement, diff[:2], [got.get(k) for k in diff[:2]], [want[k] for k in diff[:2]]))
                    continue
                if arrangement == 'othercwd':
                    continue
                # the generated modules, together, are usable like the single-file module: the last one imports, and what
                # it defines or imports has the same static size
                try:
                    if mod1[0] is None:
                        mod1[0] = lib.import_generated(os.path.join(base, 'out_single'), 'single')
                    mod2 = lib.import_generated(out, names[-1])
                except Exception as ex:
                    fail('import:' + arrangement, single, '%s arrangement: the generated modules do not import: %r' % (arrangement, ex))
                    continue
                for k in want:
                    a, b = getattr(mod1[0], k, None), getattr(mod2, k, None)
                    if a is not None and b is not None and getattr(a, '_SIZE', None) != getattr(b, '_SIZE', None):
                        fail('module:' + arrangement, single, '%s: %s has _SIZE %r in the split modules, %r in the single one'
                             % (arrangement, k, getattr(b, '_SIZE', None), getattr(a, '_SIZE', None)))
        # a file named like the definition it holds (one definition per file), reached along two include paths, the
        # intermediate file included before the leaf
        d = sc.path('stems')
        os.makedirs(d)
        files = {'Color': 'enum Color { Color_Red = 1, Color_Blue = 2 };\n',
                 'Point': 'struct Point { u16 x; u16 y; };\n',
                 'Shape': '#include "Color.prophy"\n#include "Point.prophy"\nstruct Shape { Color c; Point p<2>; };\n',
                 'Scene': '#include "Shape.prophy"\n#include "Point.prophy"\n#include "Color.prophy"\nstruct Scene { Shape s; Color c; Point o; };\n',
                 # the leaves first, then the file that includes them again; and the same file listed twice
                 'Stage': '#include "Color.prophy"\n#include "Point.prophy"\n#include "Shape.prophy"\nstruct Stage { Shape s; Color c; Point o; };\n',
                 'Twice': '#include "Point.prophy"\n#include "Color.prophy"\n#include "Point.prophy"\nstruct Twice { Color c; Point o; };\n'}
        for nm, text in files.items():
            open(os.path.join(d, nm + '.prophy'), 'w').write(text)
        out = os.path.join(d, 'out')
        os.makedirs(out)
        bad = None
        for nm in files:
            _, e3, _ = lib.run_prophyc([os.path.join(d, nm + '.prophy'), '--python_out', out, '--quiet'])
            bad = bad or e3
        cases += 1
        if bad:
            fail('rejected:stems', repr(files), 'one definition per file, files named after them: rejected: %s' % str(bad)[:200])
        else:
            try:
                m = lib.import_generated(out, 'Scene')
                if (m.Scene._SIZE, m.Shape._SIZE) != (24, 16):
                    fail('module:stems', repr(files), 'Scene/Shape sizes %r, documented (24, 16)' % ((m.Scene._SIZE, m.Shape._SIZE),))
                m2, m3 = lib.import_generated(out, 'Stage'), lib.import_generated(out, 'Twice')
                if (m2.Stage._SIZE, m3.Twice._SIZE) != (24, 8):
                    fail('module:stems', repr(files), 'Stage/Twice sizes %r, documented (24, 8)' % ((m2.Stage._SIZE, m3.Twice._SIZE),))
            except Exception as ex:
                fail('import:stems', repr(files), 'files named after their definitions: the generated modules do not import: %r' % ex)
        # all files in ONE run, with C++ outputs: every generated header names every file its schema includes
        if not bad:
            outc = os.path.join(d, 'out_cpp')
            os.makedirs(outc)
            order = ['Color', 'Point', 'Shape', 'Scene', 'Stage', 'Twice']
            _, e3, _ = lib.run_prophyc([os.path.join(d, nm + '.prophy') for nm in order] + ['--cpp_out', outc, '--cpp_full_out', outc, '--quiet'])
            cases += 1
            if e3:
                fail('rejected:stems-cpp', repr(files), 'the files compiled in one run with C++ outputs: rejected: %s' % str(e3)[:200])
            else:
                import re
                for nm in order:
                    wanted = set(re.findall(r'#include "(\w+)\.prophy"', files[nm]))
                    for ext in ('.pp.hpp', '.ppf.hpp'):
                        try:
                            text = open(os.path.join(outc, nm + ext)).read()
                        except OSError:
                            fail('cpp-include:stems', repr(files), '%s%s was not written' % (nm, ext))
                            continue
                        missing = [w for w in sorted(wanted) if '#include "%s%s"' % (w, ext) not in text]
                        if missing:
                            fail('cpp-include:stems', repr(files), '%s%s lacks the include line for %s (files compiled in one run)' % (nm, ext, missing))
        # error cases
        d = sc.path('errs')
        os.makedirs(d)
        open(os.path.join(d, 'a.prophy'), 'w').write('#include "b.prophy"\nstruct A { u8 a; };\n')
        open(os.path.join(d, 'b.prophy'), 'w').write('#include "a.prophy"\nstruct B { u8 b; };\n')
        open(os.path.join(d, 'c.prophy'), 'w').write('#include "nosuch.prophy"\nstruct C { u8 c; };\n')
        for f in ('a.prophy', 'c.prophy'):
            nodes, err, _ = lib.run_prophyc([os.path.join(d, f), '--python_out', d, '--quiet'])
            cases += 1
            if err is None:
                fail('include-error-dropped', f, 'a %s include was not reported' % ('cyclic' if f == 'a.prophy' else 'missing'))
    return {'cases': cases, 'distinct': cases, 'failures': failures, 'domain': DOMAIN, 'bound': '%d schemas x 6 arrangements' % rounds}


def replay(prop, w):
    r = run(prop, 0, 'quick')
    for f in r['failures']:
        print(f['key'], f['what'])
    return not r['failures']
