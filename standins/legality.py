"""
Bounded stand-in for C12: (a) rule-breaking schemas (one-edit neighbours of valid ones, in prophy and isar syntax) must be
rejected with a diagnostic; (b) whatever prophyc accepts must be realisable: the generated Python module imports and the
generated C++ (full and raw) compiles against the shipped headers.
"""
import os
import subprocess

from specs import family as F
from . import lib

DOMAIN = 'documented composability rules x prophy / isar syntax; sampled valid schemas x {python import, g++ -fsyntax-only of full and raw C++}'

BASE = """struct F { u8 a; u16 b; };
struct D { u8 a<>; };
struct G { u8 g<...>; };
enum E { E_A = 1 };
typedef float TF; typedef TF TTF; typedef u16 TU; typedef D TD; typedef G TG;
union U { 1: u8 a; };
"""

BREAKERS = [
    ('unlimited member not last', 'struct X { u8 g<...>; u8 b; };'),
    ('unlimited struct not last', 'struct X { G g; u8 b; };'),
    ('unlimited struct (typedef) not last', 'struct X { TG g; u8 b; };'),
    ('unlimited struct in dynamic array', 'struct X { G g<>; };'),
    ('unlimited struct in greedy array', 'struct X { G g<...>; };'),
    ('unlimited struct in fixed array', 'struct X { G g[2]; };'),
    ('dynamic struct in fixed array', 'struct X { D d[2]; };'),
    ('dynamic struct in limited array', 'struct X { D d<2>; };'),
    ('dynamic struct (typedef) in fixed array', 'struct X { TD d[2]; };'),
    ('optional dynamic struct', 'struct X { D* d; };'),
    ('optional unlimited struct', 'struct X { G* g; };'),
    ('dynamic union arm', 'union V { 1: D d; };'),
    ('unlimited union arm', 'union V { 1: G g; };'),
    ('sizer missing', 'struct X { u8 a<@n>; };'),
    ('sizer after its array', 'struct X { u8 a<@n>; u32 n; };'),
    ('optional sizer', 'struct X { u32* n; u8 a<@n>; };'),
    ('float sizer', 'struct X { float n; u8 a<@n>; };'),
    ('typedef-of-float sizer', 'struct X { TF n; u8 a<@n>; };'),
    ('typedef-chain-of-float sizer', 'struct X { TTF n; u8 a<@n>; };'),
    ('enum sizer', 'struct X { E n; u8 a<@n>; };'),
    ('struct sizer', 'struct X { F n; u8 a<@n>; };'),
    ('array sizer', 'struct X { u8 n[2]; u8 a<@n>; };'),
    ('duplicate field names', 'struct X { u8 a; u16 a; };'),
    ('duplicate arm names', 'union V { 1: u8 a; 2: u16 a; };'),
    ('duplicate discriminators', 'union V { 1: u8 a; 1: u16 b; };'),
    ('enumerator named like an earlier struct', 'enum Z { F = 1, Q = 2 };'),
    ('enumerator named like an earlier typedef', 'enum Z { TF = 1, Q = 2 };'),
    ('enumerator named like its own enum', 'enum Z { Z = 1, Q = 2 };'),
    ('struct named like an earlier enumerator', 'enum Z { Q1 = 1 }; struct Q1 { u8 a; };'),
    ('constant named like an earlier struct', 'const F = 3;'),
    ('typedef named like an earlier struct', 'typedef u8 F;'),
    ('zero array size', 'struct X { u8 a[0]; };'),
    ('negative array size', 'struct X { u8 a[-1]; };'),
    ('zero limit', 'struct X { u8 a<0>; };'),
    ('enumerator over 32 bits', 'enum EE { EE_A = 0x100000000 };'),
    ('negative discriminator', 'union V { -1: u8 a; };'),
    ('discriminator over 32 bits', 'union V { 0x100000000: u8 a; };'),
]

ISAR_BREAKERS = [
    ('isar: dynamic struct in fixed array', '<struct name="D"><member name="n" type="u32"/><member name="a" type="u8"><dimension variableSizeFieldName="@n"/></member></struct>'
                                             '<struct name="X"><member name="d" type="D"><dimension size="2"/></member></struct>'),
    ('isar: sizer missing', '<struct name="X"><member name="a" type="u8"><dimension variableSizeFieldName="@nosuch"/></member></struct>'),
    ('isar: sizer after its array', '<struct name="X"><member name="a" type="u8"><dimension variableSizeFieldName="@n"/></member><member name="n" type="u32"/></struct>'),
    ('isar: float sizer', '<struct name="X"><member name="n" type="r32"/><member name="a" type="u8"><dimension variableSizeFieldName="@n"/></member></struct>'),
    ('isar: duplicate discriminators', '<union name="V"><member name="a" type="u8" discriminatorValue="1"/><member name="b" type="u16" discriminatorValue="1"/></union>'),
    ('isar: duplicate field names', '<struct name="X"><member name="a" type="u8"/><member name="a" type="u16"/></struct>'),
]

VALID = [
    'struct X { u8 a; F f[2]; D d<>; u8 b; G g; };', 'struct X { u32 n; u8 a<@n>; u16 b<@n>; E e; U u; };', 'struct X { TU n; u8 a<@n>; };',
    'struct X { F* f; u64* o; bytes b<3>; bytes c<...>; };', 'struct X { D d<...>; };', 'union V { 1: F f; 2: u64 x; 0xFFFFFFFF: E e; };',
    'enum EE { EE_A = 0xFFFFFFFF, EE_B = 0 };', 'struct X { u8 a<>; u8 n; u8 b<>; u16 c<@n>; };',
    'struct X { u8 a<>; u16 n; u32 m; u8 b<@n>; D d; u64 c<@m>; u8 e<@n>; };', 'struct X { u8 a[1]; u8 b<1>; };', 'struct X { TD d; TG g; };',
]


def compile_cpp(sc, out, base):
    inc = os.path.join(lib.REPO, 'prophy_cpp', 'include')
    errs = []
    for f in ('%s.ppf.cpp' % base, '%s.pp.cpp' % base):
        p = subprocess.run(['g++', '-std=c++11', '-fsyntax-only', '-I', inc, '-I', out, os.path.join(out, f)], capture_output=True, text=True)
        if p.returncode != 0:
            errs.append('%s: %s' % (f, p.stderr.strip().splitlines()[0][:200] if p.stderr.strip() else 'g++ failed'))
    return errs


def run(prop, seed, tier):
    rng = F.rng_for(seed, 'legality')
    failures, cases = [], 0

    def fail(key, text, what):
        failures.append({'key': key, 'schema': text, 'struct': '-', 'value': '-', 'what': what})

    with lib.Scratch() as sc:
        n = 0
        for label, text in BREAKERS:
            n += 1
            src = sc.write('b%d.prophy' % n, BASE + text + '\n')
            out = sc.path('bo%d' % n)
            os.makedirs(out)
            nodes, err, _ = lib.run_prophyc([src, '--python_out', out, '--quiet'])
            cases += 1
            if err is None:
                ok = True
                try:
                    lib.import_generated(out, 'b%d' % n)
                except Exception as ex:
                    ok = False
                fail('accepted:' + label, BASE + text, 'rule breaker accepted (%s); generated module %s' % (label, 'imports' if ok else 'does not import'))
        for label, text in ISAR_BREAKERS:
            n += 1
            src = sc.write('b%d.xml' % n, '<xml>' + text + '</xml>')
            out = sc.path('bo%d' % n)
            os.makedirs(out)
            try:
                nodes, err, _ = lib.run_prophyc(['--isar', src, '--python_out', out, '--quiet'])
            except Exception as ex:
                err = 'exception %r' % ex
            cases += 1
            if err is None:
                fail('accepted:' + label, text, 'rule breaker accepted (%s)' % label)
        # isar constants whose value text is not a constant expression: whatever is accepted must still import
        for label, text in (('value that is no expression', '<constant name="A" value="1 +"/>'),
                            ('value naming an unknown symbol', '<constant name="A" value="NOSUCH + 1"/>')):
            n += 1
            src = sc.write('c%d.xml' % n, '<xml>' + text + '</xml>')
            out = sc.path('co%d' % n)
            os.makedirs(out)
            try:
                nodes, err, _ = lib.run_prophyc(['--isar', src, '--python_out', out, '--quiet'])
            except Exception as ex:
                err = 'exception %r' % ex
            cases += 1
            if err is None:
                try:
                    lib.import_generated(out, 'c%d' % n)
                except Exception as ex:
                    fail('isar-constant-passthrough:' + label, text, 'accepted (isar constant with a %s), but the generated module does not import: %r' % (label, ex))
        # the run-time library must refuse what prophyc refuses: rule breakers built directly with the array factory
        import prophy

        class _Unl(prophy.with_metaclass(prophy.struct_generator, prophy.struct)):
            _descriptor = [('x', prophy.u32), ('y', prophy.array(prophy.u8))]

        class _Dyn(prophy.with_metaclass(prophy.struct_generator, prophy.struct)):
            _descriptor = [('n', prophy.u32), ('y', prophy.array(prophy.u8, bound='n'))]

        for label, make in (('counted array of an unlimited struct', lambda: prophy.array(_Unl, bound='n')),
                            ('fixed array of an unlimited struct', lambda: prophy.array(_Unl, size=2)),
                            ('limited array of an unlimited struct', lambda: prophy.array(_Unl, size=2, bound='n')),
                            ('greedy array of an unlimited struct', lambda: prophy.array(_Unl)),
                            ('fixed array of a dynamic struct', lambda: prophy.array(_Dyn, size=2)),
                            ('limited array of a dynamic struct', lambda: prophy.array(_Dyn, size=2, bound='n')),
                            ('array of arrays', lambda: prophy.array(prophy.array(prophy.u8, size=2), size=2)),
                            ('array of bytes', lambda: prophy.array(prophy.bytes(size=2), size=2)),
                            ('array of optionals', lambda: prophy.array(prophy.optional(prophy.u32), size=2)),
                            ('shift without bound', lambda: prophy.array(prophy.u8, size=2, shift=1))):
            cases += 1
            try:
                make()
                fail('runtime-accepted:' + label, label, 'the run-time array factory accepts a rule breaker (%s)' % label)
            except prophy.ProphyError:
                pass
            except Exception as ex:
                fail('runtime-exception:' + label, label, 'the run-time array factory answers a rule breaker with %r, not ProphyError' % ex)
        valid = [(BASE + v, 'v%d' % i) for i, v in enumerate(VALID)]
        structs = F.sample_structs(rng, 40 if tier == 'quick' else 400, 4)
        valid.append((F.Pool.TEXT + ''.join(t for t, _ in structs), 'fam'))
        for text, base in valid:
            src = sc.write('%s.prophy' % base, text)
            out = sc.path('vo_' + base)
            os.makedirs(out)
            nodes, err, _ = lib.run_prophyc([src, '--python_out', out, '--cpp_out', out, '--cpp_full_out', out, '--quiet'])
            cases += 1
            if err is not None:
                if 'not supported' in err and 'Multiple arrays' in err:
                    # the C++ full generator documents this refusal (one ext-sized array per sizer): python and raw C++ only
                    nodes, err, _ = lib.run_prophyc([src, '--python_out', out, '--cpp_out', out, '--quiet'])
                if err is not None:
                    fail('rejected-valid', text, 'valid schema rejected: %s' % err[:200])
                    continue
            try:
                lib.import_generated(out, base)
            except Exception as ex:
                fail('import', text, 'accepted, but the generated module does not import: %r' % ex)
            if True:        # every accepted file is compiled in both tiers (a quick tier that skipped files missed fb11fe2)
                for e in compile_cpp(sc, out, base) if os.path.exists(os.path.join(out, base + '.ppf.cpp')) else []:
                    fail('cpp-compile', text, 'accepted, but generated C++ does not compile: %s' % e)
        # names that mean something else in a target language: whatever prophyc accepts must still be usable
        for label, text in (('struct named like the endianness template parameter E of the generated C++', 'struct E { u8 a; };\nstruct S { E e; };\n'),
                            ('member named like a C++ keyword', 'struct K { u8 class; };\n'),
                            ('struct named like a Python keyword', 'struct def { u8 a; };\n')):
            n += 1
            base = 'r%d' % n
            src = sc.write('%s.prophy' % base, text)
            out = sc.path('ro%d' % n)
            os.makedirs(out)
            nodes, err, _ = lib.run_prophyc([src, '--python_out', out, '--cpp_out', out, '--cpp_full_out', out, '--quiet'])
            cases += 1
            if err is not None:
                continue            # rejected with a diagnostic: fine
            problems = []
            try:
                lib.import_generated(out, base)
            except Exception as ex:
                problems.append('the Python module does not import: %r' % ex)
            problems += ['C++ does not compile: %s' % e for e in compile_cpp(sc, out, base)]
            if problems:
                fail('reserved-name:' + label, text, 'accepted (%s), but %s' % (label, '; '.join(problems)[:600]))
    return {'cases': cases, 'distinct': cases, 'failures': failures, 'domain': DOMAIN,
            'bound': '%d prophy + %d isar rule breakers, %d valid files (one with a sampled family of structs)' % (len(BREAKERS), len(ISAR_BREAKERS), len(valid))}


def replay(prop, w):
    r = run(prop, 0, 'quick')
    for f in r['failures']:
        print(f['key'], f['what'])
    return not r['failures']
