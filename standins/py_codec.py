"""
Bounded stand-in (and system-level witness search) for the Python codec and the computed layout:
real prophyc + real prophy on a sampled/enumerated schema family against specs/wire.py.
Labelled bounded: never counted among discharged obligations.
"""
import random

from specs import wire as W, family as F, adapters as Ad
from . import lib

DOMAIN = ('structs with 1..4 members drawn from %d member kinds (plain/fixed/dynamic/limited/ext-sized/optional/greedy '
          'x scalars, enums, fixed/dynamic/unlimited structs, unions, typedefs, bytes), values at boundaries and random, '
          'both byte orders')


def _check_struct(prop, txt, st, cls, node, rng, fail, nvals):
    k = W.stiff(st)
    if prop in ('C04', 'C01', 'C02'):
        if not Ad.same_schema(Ad.from_class(cls), st):
            fail('py-schema', txt, None, 'class descriptor does not denote the declared schema')
        if not Ad.same_schema(Ad.from_model(node), st):
            fail('model-schema', txt, None, 'model members do not denote the declared schema')
    if prop == 'C04':
        if cls._ALIGNMENT != W.A(st):
            fail('py-align', txt, None, '_ALIGNMENT %s, spec %s' % (cls._ALIGNMENT, W.A(st)))
        if node.alignment != W.A(st):
            fail('model-align', txt, None, 'alignment %s, spec %s' % (node.alignment, W.A(st)))
        if node.kind != k:
            fail('model-kind', txt, None, 'kind %s, spec %s' % (node.kind, k))
        if cls._DYNAMIC != (k != 0) or cls._UNLIMITED != (k == 2):
            fail('py-kind', txt, None, '_DYNAMIC/_UNLIMITED %s/%s, spec stiffness %s' % (cls._DYNAMIC, cls._UNLIMITED, k))
        if k == 0:
            if cls._SIZE != W.S(st):
                fail('py-size', txt, None, '_SIZE %s, spec %s' % (cls._SIZE, W.S(st)))
            if node.byte_size != W.S(st):
                fail('model-size', txt, None, 'byte_size %s, spec %s' % (node.byte_size, W.S(st)))
    for _ in range(nvals):
        v = F.gen_value(st, rng)
        if prop in ('C04', 'C03', 'C05', 'C08'):
            offs, total = W.field_offsets(st, v)
            pos, ok = 0, True
            for j, (m, f) in enumerate(zip(node.members, st.fields)):
                ok = ok and pos == offs[j]
                pos += f.ty.size if f.sizer_of else len(W.enc(f.ty, v[f.name], '<'))
                pos = W.rup(pos, -m.padding) if m.padding < 0 else pos + m.padding
            if not ok or pos != total:
                fail('model-padding', txt, v, 'member paddings %s do not reproduce the documented offsets %s/%s'
                     % ([m.padding for m in node.members], offs, total))
        if prop not in ('C01', 'C02', 'C04', 'C19', 'C06'):
            continue
        m = cls()
        try:
            Ad.assign(m, st, v)
        except Exception as e:
            fail('assign-exc', txt, v, repr(e))
            continue
        encs = {}
        for e in '<>':
            exp = W.enc(st, v, e)
            try:
                got = m.encode(e)
            except Exception as ex:
                fail('encode-exc', txt, v, repr(ex))
                continue
            encs[e] = got
            if prop in ('C01', 'C04') and got != exp:
                fail('encode', txt, v, 'endianness %s: got %s expected %s' % (e, got.hex(), exp.hex()))
                continue
            if prop in ('C02', 'C06') and W.greedy_aligned(st, v):
                m2 = cls()
                try:
                    n = m2.decode(exp, e)
                except Exception as ex:
                    fail('decode-exc', txt, v, 'decode of canonical bytes %s raised %r' % (exp.hex(), ex))
                    continue
                if n != len(exp):
                    fail('decode-len', txt, v, 'consumed %s of %s' % (n, len(exp)))
                elif Ad.view(m2, st) != v:
                    fail('decode-view', txt, v, 'decoded %r' % (Ad.view(m2, st),))
                elif m2.encode(e) != exp:
                    fail('decode-reencode', txt, v, 're-encode differs')
        if prop == 'C19' and len(encs) == 2:
            lo, hi = encs['<'], encs['>']
            slots = W.layout(st, v)
            pos, ok = 0, len(lo) == len(hi)
            for s in slots:
                ln = W.slots_len([s])
                a, b = lo[pos:pos + ln], hi[pos:pos + ln]
                if s[0] == 'pad':
                    ok = ok and a == b == b'\x00' * ln
                elif s[0] == 'scalar':
                    ok = ok and a == b[::-1]
                else:
                    ok = ok and a == b
                pos += ln
            if not ok or pos != len(lo):
                fail('endian-relation', txt, v, 'little %s big %s' % (lo.hex(), hi.hex()))


PY_PROBES = [
    ('YQ0', [('plain', 'u8', 0), ('limited', 'U4', 3), ('plain', 'u8', 0)]),
    ('YQ1', [('limited', 'U4', 2), ('limited', 'U8', 2), ('plain', 'u16', 0)]),
    ('YQ2', [('limited', 'F16', 3), ('limited', 'FO', 2), ('plain', 'U4', 0)]),
]


def run(prop, seed, tier, only=None):
    rng = F.rng_for(seed, 'py_codec/' + prop)
    count = 160 if tier == 'quick' else 2500
    structs = F.sample_structs(rng, count, 4, with_floats=False)
    if tier != 'quick':
        structs += F.all_structs(2)
    # deterministic part: every member kind once (the C++ probes), and limited arrays of elements whose default value is
    # not all-zero bytes (a union whose first discriminator is 1; a struct / union holding one) -- unused slots are zeros
    structs += [F.build_struct('Y' + n, ks) for n, ks in F.CXX_PROBES]
    structs += [F.build_struct(n, ks) for n, ks in PY_PROBES]
    unions = [F.build_union('UU%d' % i, [rng.choice(F.FIXED_TYPES) for _ in range(rng.randint(1, 4))])
              for i in range(12 if tier == 'quick' else 100)] + F.all_unions()
    failures, cases, distinct = [], [0], set()

    def fail(key, txt, v, what):
        failures.append({'key': key, 'schema': F.Pool.TEXT + txt, 'struct': txt.split()[1], 'value': repr(v), 'what': what})

    with lib.Scratch() as sc:
        chunk = 400
        for base in range(0, len(structs), chunk):
            part = structs[base:base + chunk]
            text = F.Pool.TEXT + ''.join(t for t, _ in part) + (''.join(t for t, _ in unions) if base == 0 else '')
            try:
                mod, nodes = lib.compile_python(text, sc, 'f%d' % base)
            except lib.CompileError as ex:
                # a legal schema family that prophyc rejects, or for which it writes a module that does not import
                failures.append({'key': 'build', 'schema': text, 'struct': '-', 'value': '-', 'what': str(ex)[:1500]})
                continue
            byname = {n.name: n for n in nodes}
            for txt, st in part:
                _check_struct(prop, txt, st, getattr(mod, st.name), byname[st.name], rng, fail, 3 if tier == 'quick' else 6)
                cases[0] += 1
                distinct.add(repr(st.fields))
            if base == 0:
                for txt, ut in unions:
                    cls, node = getattr(mod, ut.name), byname[ut.name]
                    cases[0] += 1
                    distinct.add(repr(ut.arms))
                    if prop == 'C04':
                        if (cls._SIZE, cls._ALIGNMENT) != (W.S(ut), W.A(ut)):
                            fail('py-union-size', txt, None, '%s/%s spec %s/%s' % (cls._SIZE, cls._ALIGNMENT, W.S(ut), W.A(ut)))
                        if (node.byte_size, node.alignment) != (W.S(ut), W.A(ut)):
                            fail('model-union-size', txt, None, '%s/%s spec %s/%s' % (node.byte_size, node.alignment, W.S(ut), W.A(ut)))
                    if prop in ('C01', 'C02', 'C19'):
                        for _ in range(3):
                            v = F.gen_value(ut, rng)
                            m = cls()
                            Ad.assign(m, ut, v)
                            for e in '<>':
                                exp = W.enc(ut, v, e)
                                if m.encode(e) != exp:
                                    fail('union-encode', txt, v, 'got %s expected %s' % (m.encode(e).hex(), exp.hex()))
                                m2 = cls()
                                try:
                                    if m2.decode(exp, e) != len(exp) or Ad.view(m2, ut) != v:
                                        fail('union-decode', txt, v, 'round trip differs')
                                except Exception as ex:
                                    fail('union-decode', txt, v, repr(ex))
    return {'cases': cases[0], 'distinct': len(distinct), 'failures': failures, 'domain': DOMAIN % len(F.member_kinds()),
            'bound': '%d sampled structs (seed %d)%s, <=4 members, array lengths <=3' %
                     (count, seed, '' if tier == 'quick' else ' + all structs of <=2 members over the reduced kind list')}


def replay(prop, w):
    """re-run one recorded failing input on the current tree; True = no discrepancy"""
    failures = []
    name = w['struct']
    with lib.Scratch() as sc:
        mod, nodes = lib.compile_python(w['schema'], sc, 'r')
        st = Ad.from_model([n for n in nodes if n.name == name][0])
        rng = random.Random(0)
        _check_struct(prop, w['schema'], st, getattr(mod, name), [n for n in nodes if n.name == name][0], rng,
                      lambda *a: failures.append(a), 8)
    for f in failures:
        print(f[0], f[3])
    return not failures
