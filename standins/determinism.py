"""
Bounded stand-in for C20: the real prophyc as a subprocess under different PYTHONHASHSEED values, working directories and
command-line orders of independent inputs; outputs must be byte-identical, and compiling one file must not change what is
generated for another (shared FileProcessor cache, include directory stack, in-place model passes).
"""
import filecmp
import hashlib
import os
import subprocess
import sys

from specs import family as F
from . import lib

DOMAIN = 'single- and multi-file schemas (prophy, isar+patch) x PYTHONHASHSEED {0,1,2,3,random} x working directories x input orders'

ISAR = """<xml>
<constant name="N" value="3"/>
<struct name="Frame"><member name="num_of_samples" type="u32"/><member name="num_of_marks" type="u32"/><member name="num_of_header" type="u32"/>
<member name="header" type="u8"><dimension variableSizeFieldName="@num_of_header"/></member>
<member name="marks" type="u16"><dimension size="8"/></member>
<member name="samples" type="u32"><dimension variableSizeFieldName="@num_of_samples"/></member></struct>
<struct name="B"><member name="f" type="Frame"/></struct><enum name="E"><enum-member name="E_A" value="1"/></enum>
<union name="U"><member name="a" type="u8" discriminatorValue="1"/><member name="b" type="E" discriminatorValue="2"/></union>
</xml>
"""
PATCH = "Frame limited marks num_of_marks\n"


def digest_dir(d):
    h = {}
    for root, _, files in os.walk(d):
        for f in sorted(files):
            p = os.path.join(root, f)
            h[os.path.relpath(p, d)] = hashlib.sha256(open(p, 'rb').read()).hexdigest()
    return h


def prophyc(args, cwd, seed, env_extra=None):
    env = dict(os.environ, PYTHONPATH=lib.REPO, PYTHONHASHSEED=str(seed))
    env.update(env_extra or {})
    p = subprocess.run([sys.executable, '-m', 'prophyc'] + args, cwd=cwd, env=env, capture_output=True, text=True, timeout=120)
    return p.returncode, p.stderr[-300:]


def run(prop, seed, tier):
    rng = F.rng_for(seed, 'determinism')
    failures, cases = [], 0
    seeds = [0, 1, 2, 3] if tier == 'quick' else list(range(12))

    def fail(key, text, what):
        if len(failures) < 20:
            failures.append({'key': key, 'schema': text, 'struct': '-', 'value': '-', 'what': what})

    with lib.Scratch() as sc:
        structs = F.sample_structs(rng, 25 if tier == 'quick' else 120, 4)
        text = F.Pool.TEXT + ''.join(t for t, _ in structs)
        # files: common (included by both), a, b in different directories; types.prophy exists twice (include dir vs next to a)
        for d in ('src/a', 'src/b', 'inc', 'w1', 'w2'):
            os.makedirs(sc.path(d))
        sc.write('inc/common.prophy', F.Pool.TEXT)
        sc.write('inc/types.prophy', 'typedef u32 TT;\n')
        sc.write('src/a/types.prophy', 'typedef u16 TT;\n')
        half = len(structs) // 2
        # the two independent inputs use the same type name (HH) for different types: nothing learnt about one file may
        # leak into the other's output
        sc.write('src/a/x.prophy', '#include "common.prophy"\ntypedef u64 HH;\nstruct XH { u8 a; HH* h; HH k<2>; };\n' + ''.join(t for t, _ in structs[:half]))
        sc.write('src/b/y.prophy', '#include "common.prophy"\n#include "types.prophy"\ntypedef u32 HH;\nstruct YH { u8 a; HH* h; HH k<2>; };\n'
                                   'struct Y { u8 a; TT t; };\n' + ''.join(t for t, _ in structs[half:]))
        sc.write('isar/frame.xml', ISAR)
        sc.write('isar/frame.patch', PATCH)
        x, y = sc.path('src/a/x.prophy'), sc.path('src/b/y.prophy')
        ref = {}
        scenarios = []
        for s in seeds:
            scenarios.append(('seed%d' % s, [x, y], sc.dir, s))
        scenarios += [('order-yx', [y, x], sc.dir, 0), ('alone-y', [y], sc.dir, 0), ('alone-x', [x], sc.dir, 0),
                      ('cwd-w1', [os.path.relpath(x, sc.path('w1')), os.path.relpath(y, sc.path('w1'))], sc.path('w1'), 1),
                      ('cwd-w2-yx', [os.path.relpath(y, sc.path('w2')), os.path.relpath(x, sc.path('w2'))], sc.path('w2'), 2)]
        for label, inputs, cwd, s in scenarios:
            out = sc.path('out_' + label)
            os.makedirs(out)
            rc, err = prophyc(inputs + ['-I', sc.path('inc'), '--python_out', out, '--cpp_out', out, '--cpp_full_out', out, '--quiet'], cwd, s)
            cases += 1
            if rc != 0:
                if 'Multiple arrays' in err:
                    rc, err = prophyc(inputs + ['-I', sc.path('inc'), '--python_out', out, '--cpp_out', out, '--quiet'], cwd, s)
                if rc != 0:
                    fail('failed:' + label, text[:2000], 'prophyc failed: %s' % err)
                    continue
            d = digest_dir(out)
            for f, h in d.items():
                if f in ref and ref[f][0] != h:
                    fail('differs', f, '%s generated under "%s" differs from the one generated under "%s"' % (f, label, ref[f][1]))
                ref.setdefault(f, (h, label))
        # isar + patch route (C++ raw swap code is where set/dict order can leak)
        ref = {}
        for s in seeds + ['random']:
            out = sc.path('iout_%s' % s)
            os.makedirs(out)
            rc, err = prophyc(['--isar', sc.path('isar/frame.xml'), '--patch', sc.path('isar/frame.patch'), '--python_out', out, '--cpp_out', out, '--quiet'],
                              sc.dir, s)
            cases += 1
            if rc != 0:
                fail('failed:isar', ISAR, 'prophyc failed: %s' % err)
                continue
            for f, h in digest_dir(out).items():
                if f in ref and ref[f][0] != h:
                    fail('differs', f, 'isar+patch: %s differs between PYTHONHASHSEED=%s and %s' % (f, s, ref[f][1]))
                ref.setdefault(f, (h, s))
    return {'cases': cases, 'distinct': cases, 'failures': failures, 'domain': DOMAIN, 'bound': '%d prophyc runs' % cases}


def replay(prop, w):
    r = run(prop, 0, 'quick')
    for f in r['failures']:
        print(f['key'], f['what'])
    return not r['failures']
