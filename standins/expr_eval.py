"""
Bounded stand-in for C14: random well-formed constant expressions through the real tool chain -- parse-time evaluator
(prophy text), model-time evaluator (calc, also through isar input), generated Python constants / descriptor sizes /
enumerators / discriminators, C++ literals -- against specs/expr.py (precedence-climbing evaluator over its table).
"""
import os
import random

from specs import expr as E, family as F
from . import lib

DOMAIN = 'random expressions of <= 6 operands over + - * / << >> unary minus, parentheses, dec/oct/hex literals and earlier constants'

BIN = {'+': 0, '-': 0, '*': 1, '/': 1, '<<': 2, '>>': 2}     # level per specs.expr.PRECEDENCE


def tokens_eval(toks):
    """precedence climbing over specs.expr.PRECEDENCE (left-assoc binary levels 0..2, unary minus highest)"""
    pos = [0]

    def prec(op):
        for lvl, row in enumerate(E.PRECEDENCE):
            name = {'<<': 'LSHIFT', '>>': 'RSHIFT'}.get(op, op)
            if name in row[1:]:
                return lvl
        raise KeyError(op)

    def atom():
        t = toks[pos[0]]
        pos[0] += 1
        if t == '-':
            return -atom_u()
        if t == '(':
            v = expr(0)
            pos[0] += 1
            return v
        return t

    def atom_u():
        # unary minus binds tighter than every binary operator
        return atom()

    def expr(minp):
        lhs = atom()
        while pos[0] < len(toks) and toks[pos[0]] in BIN and prec(toks[pos[0]]) >= minp:
            op = toks[pos[0]]
            pos[0] += 1
            rhs = expr(prec(op) + 1)
            lhs = E.binop(op, lhs, rhs)
        return lhs

    return expr(0)


def gen_expr(rng, names, depth=0):
    """(tokens with ints for evaluation, text)"""
    n = rng.randint(1, 4)
    toks, text = [], []
    for i in range(n):
        if i:
            op = rng.choice(list(BIN))
            toks.append(op)
            text.append(op)
        kind = rng.random()
        if kind < 0.15 and depth < 2:
            t2, x2 = gen_expr(rng, names, depth + 1)
            toks += ['('] + t2 + [')']
            text.append('(' + x2 + ')')
        elif kind < 0.25:
            v = rng.randint(0, 9)
            toks += ['-', v]
            text.append('-%d' % v)
        elif kind < 0.45 and names:
            nm = rng.choice(sorted(names))
            toks.append(names[nm])
            text.append(nm)
        else:
            v = rng.choice([0, 1, 2, 3, 7, 8, 10, 16, 255, 1000])
            form = rng.random()
            toks.append(v)
            text.append(('0x%X' % v) if form < 0.3 else (('0%o' % v) if form < 0.45 and v > 7 else str(v)))
    return toks, ' '.join(text)


def well_formed(toks):
    """property domain: division with non-negative operands and a non-zero divisor, shift counts 0..16"""
    try:
        ok = [True]
        orig = E.binop

        def guarded(op, a, b):
            if op == '/' and (a < 0 or b <= 0):
                ok[0] = False
                return 1
            if op in ('<<', '>>') and not (0 <= b <= 16):
                ok[0] = False
                return 1
            return orig(op, a, b)
        E.binop = guarded
        try:
            v = tokens_eval(list(toks))
        finally:
            E.binop = orig
        return ok[0], v
    except Exception:
        return False, None


def run(prop, seed, tier):
    import prophyc
    from prophyc import calc, model
    from prophyc.generators import cpp
    rng = F.rng_for(seed, 'expr')
    rounds = 40 if tier == 'quick' else 400
    failures, cases = [], 0

    def fail(key, text, what):
        if len(failures) < 30:
            failures.append({'key': key, 'schema': text, 'struct': '-', 'value': '-', 'what': what})

    with lib.Scratch() as sc:
        for r in range(rounds):
            names, lines, expect = {}, [], {}
            for i in range(4):
                for _ in range(20):
                    toks, text = gen_expr(rng, names)
                    ok, v = well_formed(toks)
                    if ok and -(2 ** 31) <= v < 2 ** 32:
                        break
                else:
                    continue
                nm = 'K%d_%d' % (r, i)
                lines.append('const %s = %s;' % (nm, text))
                names[nm], expect[nm] = v, (v, text)
            pos = {n: v for n, v in names.items() if 1 <= v <= 64}
            enums = {n: v for n, v in names.items() if 0 <= v < 2 ** 32}
            schema = '\n'.join(lines) + '\n'
            if enums:
                en = sorted(enums)[:3]
                schema += 'enum EN%d { %s };\n' % (r, ', '.join('EV%d_%d = %s + 0' % (r, i, n) for i, n in enumerate(en)))
            if pos:
                pn = sorted(pos)[0]
                schema += 'struct ST%d { u16 a[%s]; u8 b[%s * 1]; };\n' % (r, pn, pn)
                schema += 'union UN%d { %s: u8 x; };\n' % (r, pn)
            src = sc.write('e%d.prophy' % r, schema)
            out = sc.path('o%d' % r)
            os.makedirs(out)
            nodes, err, _ = lib.run_prophyc([src, '--python_out', out, '--cpp_out', out])
            cases += 1
            if err:
                fail('rejected', schema, 'well-formed expressions rejected: %s' % err[:200])
                continue
            nodes = nodes['e%d' % r]
            try:
                mod = lib.import_generated(out, 'e%d' % r)
            except Exception as ex:
                fail('python-module', schema, 'the generated Python module does not import: %r' % ex)
                continue
            hpp = open(os.path.join(out, 'e%d.pp.hpp' % r)).read()
            for n in nodes:
                if isinstance(n, model.Constant) and n.name in expect:
                    v, text = expect[n.name]
                    if str(n.value) != str(v):
                        fail('parse-value', schema, '%s = %s: parser computed %r, integer arithmetic gives %d' % (n.name, text, n.value, v))
                    if getattr(mod, n.name) != v or type(getattr(mod, n.name)) is not int:
                        fail('python-constant', schema, '%s: python constant %r, expected int %d' % (n.name, getattr(mod, n.name), v))
                    lit = cpp._to_literal(str(n.value))
                    # what the literal denotes in C++: an unsigned suffix makes a negative number wrap around
                    cxx = int(lit.rstrip('u'), 0) % (1 << 32) if lit.endswith('u') else int(lit, 0)
                    if cxx != v or ('enum { %s = %s }' % (n.name, lit)) not in hpp:
                        fail('cpp-literal', schema, '%s: C++ literal %r for %d' % (n.name, lit, v))
                    # model-time evaluator on the text it can read (decimal and hex literals only)
                    if not any(t.startswith('0') and len(t) > 1 and not t.lower().startswith('0x') for t in text.replace('(', ' ').replace(')', ' ').split()):
                        consts = {k: vv for k, vv in names.items()}
                        try:
                            cv = calc.eval(text, consts)
                        except Exception as ex:
                            cv = repr(ex)
                        if cv != v:
                            fail('calc-disagrees', schema, '%s = %s: model-time evaluator gives %r, parse-time/spec %d' % (n.name, text, cv, v))
                if isinstance(n, model.Struct) and pos:
                    want = pos[sorted(pos)[0]]
                    if [m.numeric_size for m in n.members] != [want, want] or n.byte_size != 2 * want + want + (want % 2):
                        fail('layout', schema, 'array extents %r / byte_size %r for size %d' % ([m.numeric_size for m in n.members], n.byte_size, want))
                    cls = getattr(mod, n.name)
                    if cls._descriptor[0].type._max_len != want:
                        fail('python-size', schema, 'python descriptor size %r, expected %d' % (cls._descriptor[0].type._max_len, want))
                if isinstance(n, model.Enum) and enums:
                    en = sorted(enums)[:3]
                    got = [getattr(mod, m.name) for m in n.members]
                    if got != [enums[x] for x in en]:
                        fail('enumerator', schema, 'enumerators %r expected %r' % (got, [enums[x] for x in en]))
                if isinstance(n, model.Union) and pos:
                    if getattr(mod, n.name)._descriptor[0].discriminator != pos[sorted(pos)[0]]:
                        fail('discriminator', schema, 'discriminator differs')
        # the isar spelling of expressions: operator functions, nested in each other and in themselves
        isar_consts = [('I_A', 'shiftLeft(1, 4)', 1 << 4), ('I_B', 'bitMaskOr(bitMaskOr(1, 2), 4)', 7),
                       ('I_C', 'shiftLeft(1, shiftLeft(1, 2))', 1 << (1 << 2)), ('I_D', 'bitMaskOr(shiftLeft(1, 3), shiftLeft(1, bitMaskOr(1, 4)))', 8 | (1 << 5)),
                       ('I_E', 'shiftLeft(bitMaskOr(1, shiftLeft(1, 1)), 2)', (1 | 2) << 2), ('I_F', 'bitMaskOr(I_A, shiftLeft(I_B, 8))', 16 | (7 << 8)),
                       ('I_G', 'shiftLeft(shiftLeft(shiftLeft(1, 1), 1), 1)', 8), ('I_H', '0x10', 16), ('I_I', '-3', -3)]
        xml = '<xml>%s<struct name="IS"><member name="a" type="u8"><dimension size="I_E"/></member></struct></xml>' % ''.join(
            '<constant name="%s" value="%s"/>' % (n, t) for n, t, _ in isar_consts)
        src = sc.write('isarexpr.xml', xml)
        out = sc.path('o_isar')
        os.makedirs(out)
        nodes, err, _ = lib.run_prophyc(['--isar', src, '--python_out', out])
        cases += 1
        if err:
            fail('isar-rejected', xml, 'isar constants with operator functions rejected: %s' % err[:200])
        else:
            try:
                mod = lib.import_generated(out, 'isarexpr')
                for n, t, v in isar_consts:
                    if getattr(mod, n, None) != v:
                        fail('isar-constant', xml, '%s = %s: python constant %r, expected %d' % (n, t, getattr(mod, n, None), v))
                if mod.IS._SIZE != 12:
                    fail('isar-size', xml, 'array extent from I_E: struct size %r, expected 12' % (mod.IS._SIZE,))
            except Exception as ex:
                fail('isar-module', xml, 'the generated Python module does not import: %r' % ex)
        # evaluated extents cross an include: a struct of the included file, embedded by the includer (two levels), keeps the
        # size its array expression says -- in the model (what the C++ generators compute layouts from) and at run time
        xd = sc.write('xdefs.prophy', 'const N = 1 + 2;\nstruct Row { u16 cell[N * 2]; };\n')
        xm = sc.write('xmid.prophy', '#include "xdefs.prophy"\nstruct Pair { Row a; Row b; };\n')
        top = sc.write('xtop.prophy', '#include "xdefs.prophy"\n#include "xmid.prophy"\nstruct Top { u8 head; Row r; Pair p[N]; u8 tail; };\n')
        out = sc.path('o_inc')
        os.makedirs(out)
        nodes, err, _ = lib.run_prophyc([xd, xm, top, '--python_out', out, '-I', os.path.dirname(top)])
        cases += 1
        inc_text = 'xdefs: const N = 1 + 2; struct Row { u16 cell[N * 2]; };  xmid: struct Pair { Row a; Row b; };  xtop (includes both): struct Top { u8 head; Row r; Pair p[N]; u8 tail; };'
        if err:
            fail('include-rejected', inc_text, 'rejected: %s' % err[:200])
        else:
            def find(ns, name):
                for x in ns:
                    if getattr(x, 'name', None) == name and hasattr(x, 'byte_size'):
                        return x
                    if type(x).__name__ == 'Include':
                        r = find(x.members, name)
                        if r is not None:
                            return r
                return None
            for name, want in (('Row', 12), ('Pair', 24), ('Top', 2 + 12 + 72 + 2)):
                node = find(nodes.get('xtop', []), name)
                if node is None or node.byte_size != want:
                    fail('include-model-size', inc_text, 'model byte_size of %s is %r, expected %d' % (name, getattr(node, 'byte_size', None), want))
            try:
                mod = lib.import_generated(out, 'xtop')
                if mod.Top._SIZE != 88:
                    fail('include-runtime-size', inc_text, 'Top._SIZE %r, expected 88' % (mod.Top._SIZE,))
            except Exception as ex:
                fail('include-module', inc_text, 'the generated Python module does not import: %r' % ex)
        # the model-time evaluator must be a function of (expression, constants): same text, different constants
        for a, b in ((2, 3), (5, 7)):
            v = calc.eval('ROWS*COLS', {'ROWS': a, 'COLS': b})
            cases += 1
            if v != a * b:
                fail('calc-state', 'ROWS*COLS with ROWS=%d COLS=%d' % (a, b), 'calc.eval gave %r (stale state from an earlier evaluation?)' % (v,))
    return {'cases': cases, 'distinct': cases, 'failures': failures, 'domain': DOMAIN,
            'bound': '%d schema files of 4 constants + enum/struct/union uses each' % rounds}


def replay(prop, w):
    print(w['schema'])
    r = run(prop, 0, 'quick')
    return not r['failures']
