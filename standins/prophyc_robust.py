"""
Bounded stand-in for C13: the prophyc entry point on hostile inputs (token- and structure-level corruptions of valid prophy and
isar schemas, random text, bad includes, bad patch files, bad options).  Allowed outcomes: normal return, ProphycError
(the designed channel) or SystemExit (argparse --help/--version).  Anything else, or no termination within the time limit,
is a violation.
"""
import os
import random
import signal

from specs import family as F
from . import lib

DOMAIN = 'corruptions of valid prophy / isar schemas, include and patch files, option combinations'

PROPHY_BASE = """\
const MAX = 4;
const HEX = 0x10 + MAX * 2;
enum E { E_A = 1, E_B = MAX << 1 };
typedef u16 T;
struct In { u8 a; T b; };
union U { 1: u8 x; 2: In y; };
struct M { u32 n; In arr<@n>; U u; E e; u8* o; bytes raw<MAX>; u16 tail<...>; };
"""

ISAR_BASE = """\
<xml>
<constant name="MAX" value="4"/>
<typedef name="T" primitiveType="16 bit integer unsigned"/>
<enum name="E"><enum-member name="E_A" value="1"/><enum-member name="E_B" value="-1"/></enum>
<struct name="In"><member name="a" type="u8"/><member name="b" type="T"><dimension size="MAX"/></member></struct>
<union name="U"><member name="x" type="u8" discriminatorValue="1"/><member name="y" type="In" discriminatorValue="2"/></union>
<message name="M"><member name="u" type="U"/><member name="v" type="In"><dimension isVariableSize="true" size="3"/></member></message>
</xml>
"""

PATCH_BASE = "M type u In\nM insert 1 extra u32\nM remove extra\nM rename v w\n"

TOKENS = ['{', '}', ';', '<', '>', '[', ']', '*', '/', '0', '-1', '<<', '@', '...', 'struct', 'union', 'enum', 'const', 'typedef', 'bytes',
          'u8', 'M', 'In', 'E_A', '=', ',', ':', '(', ')', '#include "x"', '#include ""', '"', '\x00', '\xff', '0x', '1/0', '4/2', '1 << -1']


class Timeout(Exception):
    pass


def _alarm(*a):
    raise Timeout()


def corrupt_text(rng, text, tokens):
    words = text.split(' ')
    k = rng.random()
    i = rng.randrange(len(words))
    if k < 0.3:
        del words[i]
    elif k < 0.6:
        words.insert(i, rng.choice(tokens))
    elif k < 0.8:
        words[i] = rng.choice(tokens)
    else:
        j = rng.randrange(len(words))
        words[i], words[j] = words[j], words[i]
    return ' '.join(words)


def corrupt_xml(rng, text):
    k = rng.random()
    lines = text.split('\n')
    i = rng.randrange(1, len(lines) - 1)
    if k < 0.25:
        # drop an attribute
        import re
        attrs = list(re.finditer(r' \w+="[^"]*"', lines[i]))
        if attrs:
            a = rng.choice(attrs)
            lines[i] = lines[i][:a.start()] + lines[i][a.end():]
    elif k < 0.45:
        lines[i] = lines[i].replace('value="', 'value="x', 1).replace('size="', 'size="?', 1)
    elif k < 0.6:
        del lines[i]
    elif k < 0.75:
        lines.insert(i, lines[rng.randrange(1, len(lines) - 1)])
    elif k < 0.85:
        lines[i] = lines[i].replace('<', '<<', 1)
    else:
        lines[i] = lines[i].replace('type="', 'type="Q', 1)
    return '\n'.join(lines)


def run_one(args, limit=10.0):
    import prophyc
    signal.signal(signal.SIGALRM, _alarm)
    signal.setitimer(signal.ITIMER_REAL, limit)
    try:
        try:
            import io, contextlib
            with contextlib.redirect_stderr(io.StringIO()), contextlib.redirect_stdout(io.StringIO()):
                prophyc.main(list(args))
            return 'ok', None
        finally:
            signal.setitimer(signal.ITIMER_REAL, 0)
    except prophyc.ProphycError as e:
        return 'diagnostic', str(e)
    except SystemExit:
        return 'exit', None
    except Timeout:
        return 'hang', None
    except RecursionError as e:
        return 'escape', 'RecursionError'
    except (ValueError, KeyError, AttributeError, TypeError, IndexError, AssertionError) as e:
        # the internal exception classes the property names (subclasses included, e.g. UnicodeDecodeError)
        return 'escape', '%s: %s' % (type(e).__name__, str(e)[:150])
    except Exception as e:
        # other classes (xml ParseError, the bare Exception of patch.py, OSError): not in the property's list -> a note
        return 'other', '%s: %s' % (type(e).__name__, str(e)[:150])


def run(prop, seed, tier):
    rng = F.rng_for(seed, 'robust')
    n = 150 if tier == 'quick' else 2500
    failures, cases, seen, others = [], 0, set(), {}

    def fail(key, text, what):
        sig = key + ':' + what.split(':')[0] + ':' + what[-40:]
        if len(failures) < 40 and sig not in seen:
            seen.add(sig)
            failures.append({'key': key, 'schema': text, 'struct': '-', 'value': '-', 'what': what})

    with lib.Scratch() as sc:
        out = sc.path('out')
        os.makedirs(out)
        inc = sc.path('inc')
        os.makedirs(inc)
        sc.write('inc/common.prophy', 'struct C { u8 c; };\n')
        fixed = [
            ('prophy', '#include "self.prophy"\n', 'self.prophy'),
            ('prophy', '#include "missing.prophy"\nstruct A { u8 a; };\n', None),
            ('prophy', '#include ""\n', None), ('prophy', '#include "."\n', None),
            ('prophy', 'const A = 4/2; struct X { u8 a[A]; };\n', None),
            ('prophy', 'const A = 1 << -1;\n', None), ('prophy', 'const A = 1/0; const B = A * 2;\n', None),
            ('prophy', 'union U { 1: u8 a; 2: u8 a; };\n', None), ('prophy', 'enum E { E = 1 };\n', None),
            ('prophy', 'struct A { u8 a; u8 a; };\n', None), ('prophy', '\xff\xfe binary \x00', None), ('prophy', '', None),
            ('isar', '<xml><struct name="A"><member name="b" type="B"/></struct><struct name="B"><member name="a" type="A"/></struct></xml>', None),
            ('isar', '<xml><enum name="E"><enum-member name="A"/></enum></xml>', None),
            ('isar', '<xml><typedef name="A" type="B"/><typedef name="B" type="A"/><struct name="S"><member name="x" type="A"/></struct></xml>', None),
            ('isar', '<xml><constant name="A"/></xml>', None), ('isar', '<xml><struct name="S"><member type="u8"/></struct></xml>', None),
            ('isar', '<xml><enum name="E"><enum-member name="A" value="1"/><enum-member name="B" value="1"/></enum></xml>', None),
            ('isar', 'not xml at all', None), ('isar', '<xml>', None), ('isar', '', None),
            # self-referential typedefs (alone, used by a member, used in a size expression), a redefined typedef used as a sizer
            ('isar', '<xml><typedef name="A" type="A"/></xml>', None),
            ('isar', '<xml><typedef name="A" type="A"/><struct name="S"><member name="x" type="A"/></struct></xml>', None),
            ('isar', '<xml><typedef name="A" type="A"/><struct name="S"><member name="x" type="u8"><dimension size="A+0"/></member></struct></xml>', None),
            ('prophy', 'typedef u32 A; typedef A A; struct S { A n; u8 x<@n>; };\n', None),
            ('prophy', 'typedef u32 A; typedef A B; typedef B A; struct S { B n; u8 x<@n>; };\n', None),
            # expressions that end too early, in every place isar takes one; empty type / sizer-type attributes
            ('isar', '<xml><constant name="A" value="1 +"/></xml>', None),
            ('isar', '<xml><constant name="A" value="1"/><struct name="S"><member name="x" type="u8"><dimension size="A +"/></member></struct></xml>', None),
            ('isar', '<xml><enum name="E"><enum-member name="E_A" value="(1"/></enum></xml>', None),
            ('isar', '<xml><struct name="S"><member name="n" type=""/><member name="a" type="u8"><dimension variableSizeFieldName="@n"/></member></struct></xml>', None),
            ('isar', '<xml><struct name="S"><member name="a" type="u8"><dimension isVariableSize="true" variableSizeFieldType=""/></member></struct></xml>', None),
            ('isar', '<xml><message name="S"><member name="a" type="u8"><dimension isVariableSize="true" variableSizeFieldType="" size="3"/></member></message></xml>', None),
            ('isar', '<xml><union name="U"><member name="a" type="" discriminatorValue="1"/></union></xml>', None),
            ('isar', '<xml><xi:include xmlns:xi="http://www.w3.org/2001/XInclude" href="missing.xml"/></xml>', None),
        ]
        jobs = []
        for kind, text, fname in fixed:
            jobs.append((kind, text, fname, None))
        for i in range(n):
            k = rng.random()
            if k < 0.45:
                jobs.append(('prophy', corrupt_text(rng, PROPHY_BASE, TOKENS), None, None))
            elif k < 0.8:
                jobs.append(('isar', corrupt_xml(rng, ISAR_BASE), None, None))
            elif k < 0.93:
                ptext = corrupt_text(rng, PATCH_BASE.replace('\n', ' \n '), ['M', 'type', 'insert', 'x', '-1', 'dynamic', 'limited', 'static', 'greedy', 'struct', 'rename', '', 'abc'])
                jobs.append(('isar', ISAR_BASE, None, ptext.replace(' \n ', '\n')))
            else:
                jobs.append(('options', PROPHY_BASE, None, rng.choice([['--nosuch'], ['--isar', '--sack'], ['-I', '/nonexistent'], ['--patch', '/nonexistent'],
                                                                        ['--python_out', '/nonexistent'], [], ['--version'], ['--cpp_full_out']])))
        # valid multi-file inputs must compile (an include whose stem equals a type name defined elsewhere)
        sc.write('inc/defs.prophy', 'struct Foo { u8 f; };\n')
        sc.write('inc/Foo.prophy', 'struct Bar { u16 b; };\n')
        for text in ('#include "defs.prophy"\nstruct X { Foo f; };\n#include "Foo.prophy"\nstruct Y { Bar b; Foo f; };\n',
                     '#include "Foo.prophy"\n#include "defs.prophy"\nstruct X { Foo f; Bar b; };\n'):
            path = sc.write('valid%d.prophy' % cases, text)
            verdict, detail = run_one([path, '--python_out', out, '--quiet', '-I', inc])
            cases += 1
            if verdict != 'ok':
                fail('valid-rejected', text, 'valid multi-file schema: %s %s' % (verdict, detail))
        # paths that are no regular files (a directory, a FIFO nobody writes to) as input and as patch file
        os.makedirs(sc.path('adir.prophy'))
        fifo = sc.path('afifo.prophy')
        try:
            os.mkfifo(fifo)
        except (OSError, AttributeError):
            fifo = None
        good = sc.write('good_for_paths.prophy', PROPHY_BASE)
        goodx = sc.write('good_for_paths.xml', ISAR_BASE)
        for bad in [sc.path('adir.prophy')] + ([fifo] if fifo else []):
            for args in ([bad, '--python_out', out, '--quiet'], [good, bad, '--python_out', out, '--quiet'],
                         ['--isar', goodx, '--patch', bad, '--python_out', out, '--quiet']):
                verdict, detail = run_one(args, limit=5.0)
                cases += 1
                if verdict == 'hang':
                    fail('hang', ' '.join(args), 'prophyc did not terminate within 5 s on a path that is no regular file (%s)' % os.path.basename(bad))
                elif verdict == 'escape':
                    fail('escape', ' '.join(args), 'internal exception escaped: %s' % detail)
                elif verdict == 'other':
                    others[detail.split(':')[0]] = others.get(detail.split(':')[0], 0) + 1
        for idx, (kind, text, fname, extra) in enumerate(jobs):
            ext = 'xml' if kind == 'isar' else 'prophy'
            name = fname or ('f%d.%s' % (idx, ext))
            path = sc.path(name)
            with open(path, 'wb') as f:
                f.write(text.encode('latin-1', 'replace') if any(ord(c) > 127 for c in text) else text.encode('utf-8'))
            args = [path, '--python_out', out, '--cpp_out', out, '--cpp_full_out', out, '--quiet', '-I', inc]
            if kind == 'isar':
                args.insert(0, '--isar')
                args = [a for a in args if a not in ('--cpp_full_out',)]
                args.remove(out) if False else None
                args = ['--isar', path, '--python_out', out, '--quiet']
            if kind == 'options':
                args = [path] + extra
            elif extra is not None:
                pp = sc.write('p%d.patch' % idx, extra)
                args += ['--patch', pp]
            verdict, detail = run_one(args)
            cases += 1
            if verdict == 'hang':
                fail('hang', text + ('\n--patch--\n' + extra if isinstance(extra, str) else ''), 'prophyc did not terminate within 10 s (%s)' % ' '.join(args[-4:]))
            elif verdict == 'other':
                others[detail.split(':')[0]] = others.get(detail.split(':')[0], 0) + 1
            elif verdict == 'escape':
                key = 'escape:dup-enum' if 'Duplicate Enum value' in detail else 'escape'
                fail(key, text + ('\n--patch--\n' + extra if isinstance(extra, str) else ''), 'internal exception escaped: %s' % detail)
    return {'cases': cases, 'distinct': cases, 'failures': failures, 'domain': DOMAIN, 'bound': '%d inputs, 10 s each' % len(jobs),
            'notes': 'escapes of classes the property does not list (reported, not violations): %r' % others}


def replay(prop, w):
    with lib.Scratch() as sc:
        isar = w['schema'].lstrip().startswith('<')
        text, _, patch = w['schema'].partition('\n--patch--\n')
        p = sc.write('r.' + ('xml' if isar else 'prophy'), text)
        out = sc.path('o')
        os.makedirs(out)
        args = (['--isar'] if isar else []) + [p, '--python_out', out, '--quiet']
        if patch:
            args += ['--patch', sc.write('r.patch', patch)]
        v, d = run_one(args)
        print(v, d)
        return v not in ('hang', 'escape')
