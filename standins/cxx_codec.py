"""
Bounded stand-in for the C++ full codec (C03 C05 C07 C18 C19): generated .ppf.cpp of a schema family, compiled with
g++ -fsanitize=address,undefined against /repo's headers, driven with canonical / corrupted / random byte strings;
compared with specs/wire.py, specs/text.py and the real Python codec.  Labelled bounded.
"""
from specs import wire as W, family as F, adapters as Ad, text as T
from . import lib, cxx

DOMAIN = ('structs with 1..4 members drawn from %d member kinds and unions over the fixed type pool, every type the C++ '
          'full generator accepts (one sizer per externally sized array); values at boundaries and random; '
          'little / big / native')
ENDS = (('l', '<'), ('b', '>'), ('n', '<'))
ALLOC_FACTOR = 64


def _holds_vector(t):
    """fixed struct whose C++ class has a std::vector member (limited array / limited bytes), directly or nested"""
    if isinstance(t, W.Struct):
        return any((isinstance(f.ty, (W.Array, W.Bytes)) and f.ty.mode == W.LIMITED) or _holds_vector(f.ty)
                   for f in t.fields if not f.sizer_of)
    if isinstance(t, W.Array):
        return _holds_vector(t.elem)
    if isinstance(t, W.Union):
        return any(_holds_vector(a.ty) for a in t.arms)
    return False


def known_shape(t):
    """tag of a schema shape with a recorded finding (so that it is reported as that finding and nothing else is
    masked): an optional whose value is a fixed struct holding a std::vector while its wire alignment is <= 4 --
    the header pads the optional by the C++ object alignment (8), not by the wire alignment"""
    if isinstance(t, W.Struct):
        for f in t.fields:
            if f.sizer_of:
                continue
            if isinstance(f.ty, W.Optional) and _holds_vector(f.ty.base) and W.A(f.ty.base) <= 4:
                return 'opt-vector-holder'
            inner = f.ty.elem if isinstance(f.ty, W.Array) else f.ty.base if isinstance(f.ty, W.Optional) else f.ty
            if isinstance(inner, (W.Struct, W.Union)) and known_shape(inner):
                return known_shape(inner)
    if isinstance(t, W.Union):
        for a in t.arms:
            if known_shape(a.ty):
                return known_shape(a.ty)
    return None


def _values(t, rng, n, text_domain=False):
    out = []
    tries = 0
    while len(out) < n and tries < n * 6:
        tries += 1
        v = F.gen_value(t, rng)
        if text_domain:
            v = _edge_bytes(t, v, rng)
        if isinstance(t, W.Struct) and not W.greedy_aligned(t, v):
            continue
        if text_domain and not T.in_domain(t, v):
            continue
        out.append(v)
    return out


EDGE_BYTES = [0x00, 0x07, 0x0a, 0x1f, 0x20, 0x22, 0x5c, 0x7e, 0x7f, 0x80, 0xff]


def _edge_bytes(t, v, rng):
    """text rendering: bytes fields get the edges of the printable range (0x1f/0x20, 0x7e/0x7f/0x80), quotes and backslash"""
    if isinstance(t, W.Bytes) and isinstance(v, (bytes, bytearray)) and v and rng.random() < 0.6:
        return bytes(rng.choice(EDGE_BYTES) for _ in v)
    if isinstance(t, W.Struct) and isinstance(v, dict):
        return {k: _edge_bytes(f.ty, v[k], rng) if k in v else v.get(k) for f in t.fields for k in [f.name] if k in v}
    if isinstance(t, W.Array) and isinstance(v, list):
        return [_edge_bytes(t.elem, x, rng) for x in v]
    if isinstance(t, W.Optional) and v is not None:
        return _edge_bytes(t.base, v, rng)
    if isinstance(t, W.Union) and isinstance(v, tuple):
        arm = [a for a in t.arms if a.disc == v[0]]
        return (v[0], _edge_bytes(arm[0].ty, v[1], rng)) if arm else v
    return v


def _corruptions(b, rng):
    """every truncation point; every aligned 32-bit word replaced by hostile counters / flags; random strings"""
    out = [b[:k] for k in range(len(b))]
    for off in range(0, len(b) - 3, 4):
        for w in (b'\xff\xff\xff\xff', b'\x00\x00\x10\x00', b'\x00\x10\x00\x00', b'\x01\x00\x00\x00', b'\x00\x00\x00\x01',
                  b'\x00\x00\x00\x00'):
            if b[off:off + 4] != w:
                out.append(b[:off] + w + b[off + 4:])
    for off in range(len(b)):
        out.append(b[:off] + bytes([b[off] ^ 0xff]) + b[off + 1:])
    for _ in range(4):
        out.append(bytes(rng.randrange(256) for _ in range(rng.randint(0, len(b) + 8))))
    out.append(b + b'\x00')
    out.append(b + b'\x00' * 8)
    return out


def _check_rt(prop, t, v, reqs, res, fail, txt, pystr=None):
    """reqs/res: the three round trips (l, b, n) of value v"""
    enc = {}
    for (code, e), r in zip(ENDS, res):
        exp = W.enc(t, v, e)
        if 'crash' in r:
            fail('crash', txt, v, '%s: decode/encode of canonical bytes %s: %s' % (code, exp.hex(), r['crash'][:600]))
            continue
        if 'exc' in r:
            fail('exception', txt, v, '%s: %s on canonical bytes %s' % (code, r['exc'], exp.hex()))
            continue
        if not r.get('ok'):
            if prop in ('C03', 'C07'):
                fail('decode-rejects', txt, v, '%s: canonical bytes %s rejected' % (code, exp.hex()))
            continue
        enc[code] = r['vec']
        if prop == 'C03' and r['vec'] != exp:
            fail('reencode', txt, v, '%s: canonical %s re-encoded as %s' % (code, exp.hex(), r['vec'].hex()))
        if prop in ('C05', 'C07'):
            if not (r['size'] == r['written'] == len(r['vec'])):
                fail('size', txt, v, '%s: get_byte_size %d, pointer encode wrote %d, vector %d' %
                     (code, r['size'], r['written'], len(r['vec'])))
            elif r['fixed'] >= 0 and r['fixed'] != r['size']:
                fail('fixed-size', txt, v, '%s: encoded_byte_size %d, get_byte_size %d' % (code, r['fixed'], r['size']))
            elif r['vec'] != r['ptr']:
                fail('vec-ptr', txt, v, '%s: vector encode %s, pointer encode %s' % (code, r['vec'].hex(), r['ptr'].hex()))
            if prop == 'C07' and r['size'] != len(exp):
                fail('reencode-length', txt, v, '%s: accepted %d bytes, re-encodes to %d' % (code, len(exp), r['size']))
        if prop == 'C18':
            want = T.render(t, v)
            got = r['text'].decode('latin-1')
            if got != want:
                fail('cxx-text', txt, v, '%s: C++ print() %r, expected %r' % (code, got, want))
            if pystr is not None and got != pystr:
                fail('cxx-vs-python', txt, v, '%s: C++ print() %r, Python str() %r' % (code, got, pystr))
    if prop == 'C19' and 'l' in enc and 'b' in enc:
        lo, hi = enc['l'], enc['b']
        pos, ok = 0, len(lo) == len(hi)
        if ok:
            for s in W.layout(t, v):
                ln = W.slots_len([s])
                a, b = lo[pos:pos + ln], hi[pos:pos + ln]
                if s[0] == 'pad':
                    ok = ok and a == b == b'\x00' * ln
                elif s[0] == 'scalar':
                    ok = ok and a == b[::-1]
                else:
                    ok = ok and a == b
                pos += ln
        if not ok or pos != len(lo):
            fail('endian-relation', txt, v, 'little %s big %s' % (lo.hex(), hi.hex()))
        if enc.get('n') is not None and enc['n'] != lo:
            fail('native', txt, v, 'native %s differs from host order (little) %s' % (enc['n'].hex(), lo.hex()))


def _run_unit(prop, unit, texts, rng, fail, nvals, pymod):
    cases = 0
    reqs, meta = [], []
    for t in unit.types:
        txt = texts[t.name]
        for v in _values(t, rng, nvals, text_domain=(prop == 'C18')):
            base = len(reqs)
            for code, e in ENDS:
                reqs.append((t.name, code, 'rt', W.enc(t, v, e)))
            meta.append(('rt', t, v, base))
            if prop == 'C05' and isinstance(t, W.Struct) and cxx.overfill_code(t):
                for code, e in ENDS[:2]:
                    meta.append(('over', t, v, len(reqs), code))
                    reqs.append((t.name, code, 'over', W.enc(t, v, e)))
            if prop == 'C05' and isinstance(t, W.Struct) and cxx.overwrap_code(t):
                meta.append(('wrap', t, v, len(reqs), 'l'))
                reqs.append((t.name, 'l', 'wrap', W.enc(t, v, '<')))
            if prop == 'C07':
                for code, e in ENDS[:2]:
                    for b in _corruptions(W.enc(t, v, e), rng):
                        meta.append(('bad', t, v, len(reqs), code, b))
                        reqs.append((t.name, code, 'rt', b))
    res = cxx.run_requests(unit, reqs)
    fail0 = fail
    if prop == 'C18' and pymod is not None:
        # a message nobody assigned to: str() of the freshly constructed object is the rendering of the default value
        for t in unit.types:
            if not isinstance(t, W.Struct) or known_shape(t):
                continue
            cases += 1
            try:
                fresh_text = str(getattr(pymod, t.name)())
            except Exception as ex:
                fail('python-str-default', texts[t.name], None, repr(ex))
                continue
            want = T.render(t, W.default_value(t))
            if fresh_text != want:
                fail('python-text-default', texts[t.name], W.default_value(t),
                     'Python str() of a never-assigned message %r, expected %r' % (fresh_text, want))
    for m in meta:
        cases += 1
        kind, t, v, base = m[:4]
        txt = texts[t.name]
        tag = known_shape(t)
        fail = (lambda key, *a, _tag=tag: fail0('%s:%s' % (_tag, key), *a)) if tag else fail0
        if kind == 'rt':
            pystr = None
            if prop == 'C18' and pymod is not None:
                msg = getattr(pymod, t.name)()
                try:
                    Ad.assign(msg, t, v)
                    pystr = str(msg)
                except Exception as ex:
                    fail('python-str', txt, v, repr(ex))
                if pystr is not None and pystr != T.render(t, v):
                    fail('python-text', txt, v, 'Python str() %r, expected %r' % (pystr, T.render(t, v)))
            _check_rt(prop, t, v, reqs[base:base + 3], res[base:base + 3], fail, txt, pystr)
        elif kind == 'over':
            r = res[base]
            if 'crash' in r:
                fail('over-crash', txt, v, 'limited arrays filled beyond their limit: %s' % r['crash'][:600])
            elif 'exc' in r:
                fail('over-exception', txt, v, r['exc'])
            elif r.get('ok'):
                if not (r['size'] == r['written'] == len(r['vec'])):
                    fail('over-size', txt, v, 'limited arrays filled beyond their limit: get_byte_size %d, pointer encode '
                         'wrote %d, vector %d' % (r['size'], r['written'], len(r['vec'])))
        elif kind == 'wrap':
            r = res[base]
            if 'crash' in r:
                fail('wrap-crash', txt, v, 'array with 300 elements counted by an 8-bit sizer: %s' % r['crash'][:600])
            elif 'exc' in r:
                fail('wrap-exception', txt, v, r['exc'])
            elif r.get('ok') and not (r['size'] == r['written'] == len(r['vec'])):
                fail('wrap-size', txt, v, 'array with 300 elements counted by an 8-bit sizer: get_byte_size %d, pointer encode '
                     'wrote %d, vector %d' % (r['size'], r['written'], len(r['vec'])))
        else:
            r, code, b = res[base], m[4], m[5]
            if 'crash' in r:
                fail('bad-crash', txt, b.hex(), '%s-endian decode of %s: %s' % (code, b.hex(), r['crash'][:600]))
            elif 'exc' in r:
                fail('bad-exception', txt, b.hex(), '%s-endian decode of %d bytes %s: %s (largest request %s bytes)' %
                     (code, len(b), b.hex(), r['exc'], r.get('maxalloc')))
            else:
                if r['maxalloc'] > ALLOC_FACTOR * (len(b) + 16):
                    fail('bad-alloc', txt, b.hex(), '%s-endian decode of %d bytes %s requested %d bytes of memory' %
                         (code, len(b), b.hex(), r['maxalloc']))
                if r.get('ok') and not (r['size'] == r['written'] == len(b)):
                    fail('bad-accepted-length', txt, b.hex(), '%s-endian decode accepted %d bytes %s which re-encode to %d' %
                         (code, len(b), b.hex(), r['size']))
    return cases


def run(prop, seed, tier, only=None):
    count = {'C07': 40}.get(prop, 60) if tier == 'quick' else {'C07': 160}.get(prop, 400)
    units, rng = cxx.family(seed, tier, prop, count=count)
    failures, cases = [], 0
    texts = {}

    perkey = {}

    def fail(key, txt, v, what):
        perkey[key] = perkey.get(key, 0) + 1
        if perkey[key] > 3:
            return
        failures.append({'key': key, 'schema': F.Pool.TEXT + txt, 'struct': txt.split()[1], 'value': repr(v), 'what': what})

    # schema text per type (for replay)
    for u in units:
        body = u.text[len(F.Pool.TEXT):]
        for line in body.splitlines(True):
            texts[line.split()[1]] = line
    with lib.Scratch() as sc:
        cxx.build_all(units, sc, jobs=16)
        for u in units:
            if u.error:
                fail('build', u.text[len(F.Pool.TEXT):].splitlines(True)[0], None, u.error[:1500])
                continue
            pymod = None
            if prop == 'C18':
                try:
                    pymod, _ = lib.compile_python(u.text, sc, u.name)
                except lib.CompileError as ex:
                    fail('python-build', u.text, None, str(ex))
            cases += _run_unit(prop, u, texts, rng, fail, 2 if tier == 'quick' else 5, pymod)
    ntypes = sum(len(u.types) for u in units)
    for f in failures:
        f['count_for_key'] = perkey[f['key']]
    return {'cases': cases, 'distinct': ntypes, 'failures': failures, 'domain': DOMAIN % len(F.member_kinds()),
            'bound': '%d sampled structs and unions (seed %d)%s, <=4 members, array lengths <=3, inputs <=~150 bytes; '
                     'g++ -O1 -fsanitize=address,undefined' %
                     (ntypes, seed, '' if tier == 'quick' else ' + all structs of <=2 members over the reduced kind list')}


def replay(prop, w):
    """re-run one recorded failing schema on the current tree; True = no discrepancy"""
    import random
    failures = []
    name = w['struct']
    text = w['schema']
    with lib.Scratch() as sc:
        pymod, nodes = lib.compile_python(text, sc, 'r')
        t = Ad.from_model([n for n in nodes if n.name == name][0])
        t.name = name
        u = cxx.Unit('r', text, [t])
        cxx.build_all([u], sc)
        if u.error:
            print(u.error)
            return False
        _run_unit(prop, u, {name: text}, random.Random(0), lambda *a: failures.append(a), 8, pymod)
    for f in failures[:10]:
        print(f[0], f[3])
    return not failures
