"""python -m standins.run <standin> --prop ID --seed N --tier quick|thorough [--replay file]"""
import argparse
import importlib
import json
import sys


def main():
    ap = argparse.ArgumentParser()
    ap.add_argument('name')
    ap.add_argument('--prop', required=True)
    ap.add_argument('--seed', type=int, default=0)
    ap.add_argument('--tier', default='quick')
    ap.add_argument('--replay')
    a = ap.parse_args()
    mod = importlib.import_module('standins.' + a.name)
    if a.replay:
        with open(a.replay) as f:
            rec = json.load(f)
        w = rec.get('system_level_witness') or rec.get('input')
        ok = mod.replay(a.prop, w)
        print('replay: %s' % ('discrepancy reproduces' if not ok else 'no discrepancy on this tree'))
        sys.exit(0 if ok else 1)
    r = mod.run(a.prop, a.seed, a.tier)
    r['failures'] = r.get('failures', [])[:20]
    print(json.dumps(r, default=str))


if __name__ == '__main__':
    main()
