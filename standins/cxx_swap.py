"""
Bounded stand-in for C09 (raw C++ swap): prophyc --cpp_out on a schema family; a generated driver (g++
-fsanitize=address,undefined) copies the foreign-endian (big) encoding of a value into an exact-size heap buffer, calls
prophy::swap<T>() on it and prints the buffer and the returned offset; expected: the native (little) encoding of the same
value, returned offset == message length (for a struct with an unlimited last member: the members before it are swapped
and the returned address is that member's).  Labelled bounded.
"""
import os
import subprocess
from concurrent.futures import ThreadPoolExecutor

from specs import wire as W, family as F
from . import lib, cxx

DOMAIN = 'structs with 1..4 members drawn from %d member kinds and unions over the fixed type pool; values at boundaries and random'

DRIVER = r'''
#include "%(name)s.pp.hpp"
#include <cstdio>
#include <cstdlib>
#include <cstring>
#include <iostream>
#include <string>
#include <vector>

static std::string hex(const uint8_t* p, size_t n)
{ static const char* d = "0123456789abcdef"; std::string s; for (size_t i = 0; i < n; ++i) { s += d[p[i] >> 4]; s += d[p[i] & 15]; } return s; }
static std::vector<uint8_t> unhex(const std::string& s)
{ std::vector<uint8_t> v; for (size_t i = 0; i + 1 < s.size(); i += 2) v.push_back(uint8_t(strtoul(s.substr(i, 2).c_str(), 0, 16))); return v; }

template <class T>
void work(const std::vector<uint8_t>& in)
{
    /* exact-size, 16-byte aligned heap copy: any access outside the message hits an ASan redzone */
    uint8_t* buf = static_cast<uint8_t*>(malloc(in.size() ? in.size() : 1));
    if (in.size()) memcpy(buf, &in[0], in.size());
    T* end = prophy::swap(reinterpret_cast<T*>(buf));
    std::cout << "end=" << (reinterpret_cast<uint8_t*>(end) - buf) << " buf=" << hex(buf, in.size()) << "." << std::endl;
    free(buf);
}

int main()
{
    std::string type, data;
    while (std::cin >> type >> data)
    {
        std::vector<uint8_t> in = unhex(data == "-" ? std::string() : data);
        std::cout << "@" << type << " " << std::flush;
        if (false) { }
%(cases)s
        else std::cout << "unknown-type" << std::endl;
    }
    return 0;
}
'''


def build_unit(unit, scratch):
    d = scratch.path(unit.name)
    os.makedirs(d)
    src = os.path.join(d, unit.name + '.prophy')
    with open(src, 'w') as f:
        f.write(unit.text)
    nodes, error, _ = lib.run_prophyc([src, '--cpp_out', d])
    unit.dir = d
    if error:
        unit.error = 'prophyc: ' + error
        return unit
    cases = ''.join('        else if (type == "%s") work<%s>(in);\n' % (t.name, t.name) for t in unit.types)
    with open(os.path.join(d, 'driver.cpp'), 'w') as f:
        f.write(DRIVER % {'name': unit.name, 'cases': cases})
    return unit


def compile_unit(unit):
    if unit.error:
        return unit
    d = unit.dir
    binary = os.path.join(d, 'driver')
    p = subprocess.run([cxx.CXX] + cxx.CXXFLAGS + ['-I', cxx.INCLUDE, '-I', d, os.path.join(d, unit.name + '.pp.cpp'),
                                                   os.path.join(d, 'driver.cpp'), '-o', binary],
                       stdout=subprocess.PIPE, stderr=subprocess.STDOUT)
    if p.returncode != 0:
        unit.error = 'g++: ' + p.stdout.decode('utf-8', 'replace')[-2500:]
    else:
        unit.binary = binary
    return unit


def run_requests(unit, requests):
    results = []
    env = dict(os.environ)
    env.update(cxx.ASAN_ENV)
    i = 0
    while i < len(requests):
        batch = requests[i:]
        inp = ''.join('%s %s\n' % (t, b.hex() if b else '-') for t, b in batch).encode()
        p = subprocess.run([unit.binary], input=inp, stdout=subprocess.PIPE, stderr=subprocess.PIPE, env=env)
        done = 0
        for ln in p.stdout.decode('utf-8', 'replace').split('\n'):
            parts = ln.strip().split()
            if not parts or not parts[0].startswith('@'):
                continue
            kv = dict(x.split('=', 1) for x in parts[1:] if '=' in x)
            if 'end' in kv and 'buf' in kv:
                results.append({'end': int(kv['end']), 'buf': bytes.fromhex(kv['buf'].rstrip('.'))})
                done += 1
            else:
                break
        if done < len(batch):
            results.append({'crash': p.stderr.decode('utf-8', 'replace')[:2500]})
            done += 1
        i += done
    return results


def expected(t, v):
    """(expected buffer, expected returned offset) after swapping the big-endian encoding"""
    big, little = W.enc(t, v, '>'), W.enc(t, v, '<')
    if isinstance(t, W.Struct) and W.stiff(t) == 2:
        # unlimited last member: members before it are swapped, the rest is left alone; its address is returned
        offs, total = W.field_offsets(t, v)
        k = offs[-1]
        return little[:k] + big[k:], k
    return little, len(little)


def _values(t, rng, n):
    out = []
    tries = 0
    while len(out) < n and tries < n * 6:
        tries += 1
        v = F.gen_value(t, rng)
        if isinstance(t, W.Struct) and not W.greedy_aligned(t, v):
            continue
        out.append(v)
    return out


def run(prop, seed, tier, only=None):
    units, rng = cxx.family(seed, tier, 'C09', count=60 if tier == 'quick' else 600, chunk=25)
    failures, cases, perkey = [], 0, {}
    texts = {}

    def fail(key, txt, v, what):
        perkey[key] = perkey.get(key, 0) + 1
        if perkey[key] <= 3:
            failures.append({'key': key, 'schema': F.Pool.TEXT + txt, 'struct': txt.split()[1], 'value': repr(v), 'what': what})

    for u in units:
        for line in u.text[len(F.Pool.TEXT):].splitlines(True):
            texts[line.split()[1]] = line
    fail0 = fail
    with lib.Scratch() as sc:
        for u in units:
            build_unit(u, sc)
        with ThreadPoolExecutor(max_workers=16) as ex:
            list(ex.map(compile_unit, units))
        for u in units:
            if u.error:
                fail('build', u.text[len(F.Pool.TEXT):].splitlines(True)[0], None, u.error[:1500])
                continue
            reqs, meta = [], []
            for t in u.types:
                for v in _values(t, rng, 3 if tier == 'quick' else 6):
                    reqs.append((t.name, W.enc(t, v, '>')))
                    meta.append((t, v))
            res = run_requests(u, reqs)
            for (t, v), r in zip(meta, res):
                cases += 1
                txt = texts[t.name]
                fail = (lambda key, *a, _f=fail0: _f('part-overalign:' + key, *a)) if W.overaligned_part(t) else fail0
                if 'crash' in r:
                    fail('crash', txt, v, 'swap of %s: %s' % (W.enc(t, v, '>').hex(), r['crash'][:700]))
                    continue
                want, end = expected(t, v)
                if r['buf'] != want:
                    fail('buffer', txt, v, 'swap of %s gives %s, native encoding is %s' % (W.enc(t, v, '>').hex(), r['buf'].hex(), want.hex()))
                elif r['end'] != end:
                    unlimited = isinstance(t, W.Struct) and W.stiff(t) == 2
                    fail('unlimited-end' if unlimited else 'end', txt, v, 'swap returned offset %d, expected %d' % (r['end'], end))
    for f in failures:
        f['count_for_key'] = perkey[f['key']]
    ntypes = sum(len(u.types) for u in units)
    return {'cases': cases, 'distinct': ntypes, 'failures': failures, 'domain': DOMAIN % len(F.member_kinds()),
            'bound': '%d structs and unions (seed %d), <=4 members, array lengths <=3; g++ -O1 -fsanitize=address,undefined' % (ntypes, seed)}


def replay(prop, w):
    import random
    from specs import adapters as Ad
    failures = []
    name = w['struct']
    with lib.Scratch() as sc:
        pymod, nodes = lib.compile_python(w['schema'], sc, 'r')
        t = Ad.from_model([n for n in nodes if n.name == name][0])
        t.name = name
        u = cxx.Unit('r', w['schema'], [t])
        build_unit(u, sc)
        compile_unit(u)
        if u.error:
            print(u.error)
            return False
        rng = random.Random(0)
        for v in _values(t, rng, 12):
            r = run_requests(u, [(name, W.enc(t, v, '>'))])[0]
            want, end = expected(t, v)
            if 'crash' in r or r.get('buf') != want or r.get('end') != end:
                failures.append((v, r))
    for f in failures[:5]:
        print(f)
    return not failures
