"""
Bounded stand-in for C10/C11: random histories of public API operations on real messages against a plain reference
model (dicts / lists with the documented checks).  Labelled bounded.
"""
import copy
import random

from specs import wire as W, family as F, adapters as Ad
from . import lib

DOMAIN = 'sampled struct family x random histories (<= 12 operations) of assignment, optional set/clear, array ops, copy_from'


def _plain(x):
    if isinstance(x, int) and type(x) not in (int, bool):
        return int(x)
    if isinstance(x, list):
        return [_plain(y) for y in x]
    return x


def model_apply(t, v, op):
    """reference model: returns (new value, accepted?)"""
    kind = op[0]
    op = tuple(_plain(x) for x in op)          # the model holds numbers, whatever object carried them
    v = copy.deepcopy(v)
    f = op[1]
    ty = [x.ty for x in t.fields if x.name == f][0]
    if kind == 'set':
        x = op[2]
        if isinstance(ty, W.Optional) and x is None:
            v[f] = None
            return v, True
        base = ty.base if isinstance(ty, W.Optional) else ty
        if isinstance(base, (W.Struct, W.Union)):
            if isinstance(ty, W.Optional) and x is True:
                v[f] = W.default_value(base)
                return v, True
            return v, False
        if isinstance(base, W.Array):
            return v, False
        if isinstance(base, W.Bytes):
            if not W.wf_value(base, x if not (isinstance(x, bytes) and base.mode == W.FIXED) else x.ljust(base.n, b'\0')[:max(base.n, len(x))]):
                return v, False
            v[f] = x.ljust(base.n, b'\0') if base.mode == W.FIXED else x
            return v, True
        if not W.wf_value(base, x):
            return v, False
        v[f] = x
        return v, True
    arr = v[f]
    elem = ty.elem
    limit = ty.n if ty.mode == W.LIMITED else None
    if kind == 'append':
        if not W.wf_value(elem, op[2]) or (limit is not None and len(arr) >= limit):
            return v, False
        arr.append(op[2])
    elif kind == 'extend':
        if not all(W.wf_value(elem, x) for x in op[2]) or (limit is not None and len(arr) + len(op[2]) > limit):
            return v, False
        arr.extend(op[2])
    elif kind == 'insert':
        if not W.wf_value(elem, op[3]) or (limit is not None and len(arr) >= limit):
            return v, False
        arr.insert(op[2], op[3])
    elif kind == 'setslice':
        new = list(arr)
        try:
            new[op[2]] = list(op[3])
        except ValueError:
            return v, False
        if not all(W.wf_value(elem, x) for x in op[3]) or (limit is not None and len(new) > limit):
            return v, False
        if ty.mode == W.FIXED and len(new) != ty.n:
            return v, False
        v[f] = new
    elif kind == 'setitem':
        if not W.wf_value(elem, op[3]) or not (-len(arr) <= op[2] < len(arr)):
            return v, False
        arr[op[2]] = op[3]
    elif kind == 'delitem':
        if not (-len(arr) <= op[2] < len(arr)):
            return v, False
        del arr[op[2]]
    return v, True


def real_apply(msg, op):
    kind, f = op[0], op[1]
    if kind == 'set':
        setattr(msg, f, op[2])
    elif kind == 'append':
        getattr(msg, f).append(op[2])
    elif kind == 'extend':
        getattr(msg, f).extend(op[2])
    elif kind == 'insert':
        getattr(msg, f).insert(op[2], op[3])
    elif kind == 'setslice':
        getattr(msg, f)[op[2]] = op[3]
    elif kind == 'setitem':
        getattr(msg, f)[op[2]] = op[3]
    elif kind == 'delitem':
        del getattr(msg, f)[op[2]]


# values carried by objects of another type: enumerators of a foreign enum (int subclass instances), numbers in / out of range
CARRIERS = []


def gen_op(t, v, rng):
    fs = [x for x in t.fields if not x.sizer_of]
    fld = rng.choice(fs)
    ty = fld.ty
    base = ty.base if isinstance(ty, W.Optional) else ty
    junk = rng.choice([None, 'x', 1.5, -1, 1 << 70, b'zz', [1], True] + CARRIERS)
    if isinstance(ty, W.Array) and not isinstance(ty.elem, (W.Struct, W.Union)):
        good = lambda: F.gen_value(ty.elem, rng)
        val = lambda: good() if rng.random() < 0.8 else junk
        k = rng.choice(['append', 'extend', 'insert', 'setslice', 'setitem', 'delitem', 'set'])
        if ty.mode == W.FIXED and k in ('append', 'extend', 'insert', 'delitem'):
            k = 'setitem'
        if k == 'append':
            return ('append', fld.name, val())
        if k == 'extend':
            return ('extend', fld.name, [val() for _ in range(rng.randint(0, 3))])
        if k == 'insert':
            return ('insert', fld.name, rng.randint(-4, 4), val())
        if k == 'setslice':
            sl = slice(rng.choice([None, -3, -1, 0, 1, 2, 5]), rng.choice([None, -2, -1, 0, 1, 3, 9]), rng.choice([None, None, None, 1, 2, -1]))
            return ('setslice', fld.name, sl, [val() for _ in range(rng.randint(0, 3))])
        if k == 'setitem':
            return ('setitem', fld.name, rng.randint(-4, 4), val())
        if k == 'delitem':
            return ('delitem', fld.name, rng.randint(-4, 4))
        return ('set', fld.name, junk)
    if isinstance(ty, W.Array):
        return ('set', fld.name, junk)
    if isinstance(base, (W.Struct, W.Union)):
        return ('set', fld.name, rng.choice([True, None, 5, 'x']))
    x = F.gen_value(base, rng) if rng.random() < 0.7 else junk
    if isinstance(ty, W.Optional) and rng.random() < 0.3:
        x = None
    return ('set', fld.name, x)


def lazify(t, v, rng):
    """replace (some) union arm values by the arm's default so that they can stay unassigned"""
    if isinstance(t, W.Union):
        arm = [a for a in t.arms if a.disc == v[0]][0]
        return (v[0], W.default_value(arm.ty)) if rng.random() < 0.6 else (v[0], lazify(arm.ty, v[1], rng))
    if isinstance(t, W.Struct):
        return {f.name: lazify(f.ty, v[f.name], rng) for f in t.fields if not f.sizer_of}
    if isinstance(t, W.Array):
        return [lazify(t.elem, x, rng) for x in v]
    if isinstance(t, W.Optional):
        return None if v is None else lazify(t.base, v, rng)
    return v


def run(prop, seed, tier):
    import prophy
    rng = F.rng_for(seed, 'py_api/' + prop)
    if not CARRIERS:
        class Foreign(prophy.with_metaclass(prophy.enum_generator, prophy.enum)):
            _enumerators = [('FOREIGN_A', 77), ('FOREIGN_B', 1), ('FOREIGN_C', 0x7FFFFFFF)]
        CARRIERS.extend([Foreign._check(n) for n in ('FOREIGN_A', 'FOREIGN_B', 'FOREIGN_C')])
    count = 80 if tier == 'quick' else 800
    structs = F.sample_structs(rng, count, 4)
    failures, cases = [], 0

    def fail(key, txt, hist, what):
        if len(failures) < 40:
            failures.append({'key': key, 'schema': F.Pool.TEXT + txt, 'struct': txt.split()[1], 'value': repr(hist), 'what': what})

    with lib.Scratch() as sc:
        try:
            mod, nodes = lib.compile_python(F.Pool.TEXT + ''.join(t for t, _ in structs), sc, 'api')
        except lib.CompileError as ex:
            failures.append({'key': 'build', 'schema': F.Pool.TEXT + ''.join(t for t, _ in structs), 'struct': '-', 'value': '-',
                             'what': str(ex)[:1500]})
            structs = []
        mod_twin = None
        if prop == 'C11' and structs:
            try:
                mod_twin, _ = lib.compile_python(F.Pool.TEXT + ''.join(t for t, _ in structs), sc, 'apitwin')
            except lib.CompileError:
                mod_twin = None
        for txt, st in structs:
            cls = getattr(mod, st.name)
            for _ in range(3 if tier == 'quick' else 8):
                m = cls()
                v = W.default_value(st)
                if rng.random() < 0.5:
                    v = F.gen_value(st, rng)
                    Ad.assign(m, st, v)
                hist = []
                for _ in range(rng.randint(1, 12)):
                    op = gen_op(st, v, rng)
                    hist.append(op)
                    cases += 1
                    if prop == 'C11':
                        break
                    v2, ok = model_apply(st, v, op)
                    try:
                        real_apply(m, op)
                        accepted = True
                    except (prophy.ProphyError, IndexError, ValueError):
                        accepted = False
                    except Exception as ex:
                        fail('exception', txt, hist, '%s escaped %r' % (type(ex).__name__, op))
                        break
                    if accepted != ok:
                        fail('accept', txt, hist, 'operation %r: real %s, model %s' % (op, accepted, ok))
                        break
                    v = v2 if ok else v
                    try:
                        got = Ad.view(m, st)
                    except Exception as ex:
                        fail('view', txt, hist, repr(ex))
                        break
                    if got != v:
                        fail('state', txt, hist, 'after %r: message %r, model %r' % (op, got, v))
                        break
                    if W.wf_value(st, v):
                        try:
                            if m.encode('<') != W.enc(st, v, '<'):
                                fail('encode', txt, hist, 'reachable state does not encode canonically')
                                break
                        except Exception as ex:
                            fail('encode-exc', txt, hist, 'reachable state cannot be encoded: %r' % ex)
                            break
                if prop == 'C11':
                    # copy_from: equal, independent
                    a, b = cls(), cls()
                    va, vb = lazify(st, F.gen_value(st, rng), rng), F.gen_value(st, rng)
                    try:
                        Ad.LAZY[0] = True
                        try:
                            Ad.assign(a, st, va)
                        finally:
                            Ad.LAZY[0] = False
                        Ad.assign(b, st, vb)
                        b.copy_from(a)
                    except Exception as ex:
                        fail('copy-exc', txt, [va, vb], 'copy_from raised %r' % ex)
                        continue
                    if Ad.view(b, st) != va or Ad.view(a, st) != va or a.encode('<') != b.encode('<'):
                        fail('copy-equal', txt, [va, vb], 'after b.copy_from(a): a=%r b=%r expected %r' % (Ad.view(a, st), Ad.view(b, st), va))
                        continue
                    # mutate b everywhere, a must not move (and vice versa)
                    vc = F.gen_value(st, rng)
                    try:
                        Ad.assign(b, st, vc)
                    except Exception as ex:
                        fail('copy-mutate-exc', txt, [va, vc], repr(ex))
                        continue
                    if Ad.view(a, st) != va:
                        fail('copy-alias', txt, [va, vc], 'mutating the copy changed the source: %r' % (Ad.view(a, st),))
                        continue
                    b2 = cls()
                    b2.copy_from(a)
                    Ad.assign(a, st, vc)
                    if Ad.view(b2, st) != va:
                        fail('copy-alias', txt, [va, vc], 'mutating the source changed the copy')
                    # a source of another type is rejected and the destination stays as it was -- also a look-alike type
                    # (the same definition compiled into another module: equal structure, different class)
                    twin = getattr(mod_twin, st.name, None) if mod_twin is not None else None
                    foreign = [object(), 5, 'x', cls] + ([twin()] if twin is not None else [])
                    for src in foreign:
                        before = (Ad.view(b2, st), b2.encode('<'))
                        try:
                            b2.copy_from(src)
                            fail('copy-foreign-accepted', txt, [va, repr(type(src))], 'copy_from accepted a source of another type (%s)' % type(src).__name__)
                        except Exception:
                            pass
                        try:
                            after = (Ad.view(b2, st), b2.encode('<'))
                        except Exception as ex:
                            after = ('broken', repr(ex))
                        if after != before:
                            fail('copy-foreign-changed', txt, [va, repr(type(src))], 'a rejected copy_from (source of type %s) changed the destination: %r'
                                 % (type(src).__name__, after[0]))
    return {'cases': cases, 'distinct': cases, 'failures': failures, 'domain': DOMAIN,
            'bound': '%d structs x %d histories of <= 12 operations' % (count, 3 if tier == 'quick' else 8)}


def replay(prop, w):
    print('history:', w['value'])
    r = run(prop, 0, 'quick')
    return not r['failures']
