"""
Bounded stand-in for C17: the same types described in prophy text and in isar XML (+ patch) must give models with identical
wire layout and codecs producing identical bytes; patch rules naming an absent message are ignored; rules that cannot be
applied fail the compilation.
"""
import os

from specs import wire as W, family as F, adapters as Ad
from . import lib

DOMAIN = 'isar <dimension> forms x element types, optional flag, unions, typedefs, enums with negative values; documented patch rules'

ISAR_TYPES = {'u8': 'u8', 'u16': 'u16', 'u32': 'u32', 'u64': 'u64', 'i8': 'i8', 'i16': 'i16', 'i32': 'i32', 'i64': 'i64'}

# (label, isar xml of the members inside <struct>, prophy text of the same members, isar-as-message?)
FORMS = [
    ('plain', '<member name="a" type="{t}"/><member name="z" type="u8"/>', '{t} a; u8 z;'),
    ('fixed', '<member name="a" type="{t}"><dimension size="3"/></member><member name="z" type="u8"/>', '{t} a[3]; u8 z;'),
    ('fixed 2-d', '<member name="a" type="{t}"><dimension size="2" size2="3"/></member><member name="z" type="u8"/>', '{t} a[6]; u8 z;'),
    ('limited (isVariableSize)', '<member name="a" type="{t}"><dimension isVariableSize="true" size="3"/></member><member name="z" type="u8"/>',
     'u32 a_len; {t} a<@a_len>; u8 z;'.replace('<@a_len>', '<3#a_len>')),
    ('limited 2-d (isVariableSize size x size2)', '<member name="a" type="{t}"><dimension isVariableSize="true" size="2" size2="3"/></member><member name="z" type="u8"/>',
     'u32 a_len; {t} a<6#a_len>; u8 z;'),
    ('limited with sizer type/name', '<member name="a" type="{t}"><dimension isVariableSize="true" size="4" variableSizeFieldType="u8" variableSizeFieldName="cnt"/></member>'
                                     '<member name="z" type="u8"/>', 'u8 cnt; {t} a<4#cnt>; u8 z;'),
    ('ext-sized (@name)', '<member name="n" type="u16"/><member name="a" type="{t}"><dimension variableSizeFieldName="@n"/></member><member name="z" type="u8"/>',
     'u16 n; {t} a<@n>; u8 z;'),
    ('optional', '<member name="a" type="{t}" optional="true"/><member name="z" type="u8"/>', '{t}* a; u8 z;'),
    # inside a <message> the limit of a variable-size array is dropped (a dynamic array), wherever the member stands
    ('message: variable-size array, not last', '<member name="a" type="{t}"><dimension isVariableSize="true" size="3"/></member><member name="z" type="u8"/>',
     'u32 a_len; {t} a<@a_len>; u8 z;', 'message'),
    ('message: variable-size array, last', '<member name="z" type="u8"/><member name="a" type="{t}"><dimension isVariableSize="true" size="3"/></member>',
     'u8 z; u32 a_len; {t} a<@a_len>;', 'message'),
    ('message: two variable-size arrays', '<member name="a" type="{t}"><dimension isVariableSize="true" size="3" variableSizeFieldType="u16"/></member>'
                                          '<member name="b" type="u8"><dimension isVariableSize="true" size="2"/></member>',
     'u16 a_len; {t} a<@a_len>; u32 b_len; u8 b<@b_len>;', 'message'),
]


def prophy_struct(name, body):
    """tiny macro: `T a<N#sizer>` = limited array with an explicit sizer name (prophy text has no syntax for it: use a patch-free
    equivalent built directly as a model through the python text: we compare against the spec instead)"""
    return body


def spec_from_members(text, types):
    """abstract schema of the prophy-like member list (with the <N#sizer> extension)"""
    fields, sizers = [], {}
    items = [x.strip() for x in text.split(';') if x.strip()]
    parsed = []
    for it in items:
        ty, rest = it.split(' ', 1)
        opt = ty.endswith('*')
        ty = ty.rstrip('*')
        name, mode, n, sizer = rest, None, 0, None
        if '[' in rest:
            name, n = rest[:-1].split('[')
            mode, n = W.FIXED, int(n)
        elif '<' in rest:
            name, inner = rest[:-1].split('<')
            if inner.startswith('@'):
                mode, sizer = W.DYNAMIC, inner[1:]
            else:
                n, sizer = inner.split('#')
                mode, n = W.LIMITED, int(n)
        parsed.append((ty, name, opt, mode, n, sizer))
        if sizer:
            sizers.setdefault(sizer, []).append(name)
    for ty, name, opt, mode, n, sizer in parsed:
        t = types[ty]
        if opt:
            t = W.Optional(t)
        if mode:
            t = W.Array(mode, n, t, sizer)
        fields.append(W.Field(name, t, sizers.get(name)))
    return W.Struct('X', fields)


def run(prop, seed, tier):
    import prophyc
    from prophyc import model
    rng = F.rng_for(seed, 'frontends')
    failures, cases = [], 0

    def fail(key, text, what):
        if len(failures) < 30:
            failures.append({'key': key, 'schema': text, 'struct': '-', 'value': '-', 'what': what})

    types = dict(F.POOL.t)
    helper_xml = ('<struct name="F16"><member name="a" type="u8"/><member name="b" type="u16"/></struct>'
                  '<enum name="EN"><enum-member name="EN_A" value="-1"/><enum-member name="EN_B" value="-2147483648"/><enum-member name="EN_C" value="5"/></enum>'
                  '<typedef name="TU16" primitiveType="16 bit integer unsigned"/>'
                  '<union name="UU"><member name="x" type="u8" discriminatorValue="1"/><member name="y" type="F16" discriminatorValue="7"/></union>')
    types['EN'] = W.Enum('EN', [('EN_A', 0xFFFFFFFF), ('EN_B', 0x80000000), ('EN_C', 5)])
    types['UU'] = W.Union('UU', [W.Arm(1, 'x', W.Int(1, False)), W.Arm(7, 'y', types['F16'])])
    elem_types = ['u8', 'u16', 'u64', 'i32', 'F16', 'EN', 'TU16', 'UU']
    with lib.Scratch() as sc:
        n = 0
        for form in FORMS:
            label, xml, text = form[:3]
            tag = form[3] if len(form) > 3 else 'struct'
            for t in elem_types:
                if label == 'optional' and t in ():
                    continue
                n += 1
                doc = '<xml>%s<%s name="X">%s</%s></xml>' % (helper_xml, tag, xml.format(t=t), tag)
                src = sc.write('f%d.xml' % n, doc)
                out = sc.path('o%d' % n)
                os.makedirs(out)
                try:
                    nodes, err, _ = lib.run_prophyc(['--isar', src, '--python_out', out, '--quiet'])
                except Exception as ex:
                    err = 'exception %r' % ex
                cases += 1
                if err:
                    fail('isar-rejected', doc, 'isar form "%s" of %s rejected: %s' % (label, t, str(err)[:200]))
                    continue
                want = spec_from_members(text.format(t=t), types)
                node = [x for x in nodes['f%d' % n] if x.name == 'X'][0]
                try:
                    got = Ad.from_model(node)
                except Exception as ex:
                    # accepted, but the model holds something that denotes no schema (e.g. a discriminator that is no number)
                    fail('isar-model:' + label, doc, 'the model of the accepted isar input denotes no schema: %r' % ex)
                    continue
                if not Ad.same_schema(got, want):
                    fail('isar-form:' + label, doc, 'isar form "%s": model denotes %r, the prophy-language description is %r' % (label, got, want))
                    continue
                if W.stiff(want) == 0 and (node.byte_size, node.alignment) != (W.S(want), W.A(want)):
                    fail('isar-layout:' + label, doc, 'layout %s/%s, documented %s/%s' % (node.byte_size, node.alignment, W.S(want), W.A(want)))
                try:
                    mod = lib.import_generated(out, 'f%d' % n)
                    cls = getattr(mod, 'X')
                except Exception as ex:
                    # prophyc accepted the schema and wrote a module that cannot be imported: no codec at all
                    fail('isar-module:' + label, doc, 'the Python module generated from the isar front-end does not import: %r' % ex)
                    continue
                for _ in range(3):
                    v = F.gen_value(want, rng)
                    m = cls()
                    try:
                        Ad.assign(m, want, v)
                        if m.encode('<') != W.enc(want, v, '<'):
                            fail('isar-bytes:' + label, doc, 'codec from the isar front-end produces other bytes than the documented encoding')
                    except Exception as ex:
                        fail('isar-codec:' + label, doc, repr(ex))
        # patch rules: documented effect, absent message ignored, inapplicable rule fails
        base = '<xml>%s<struct name="M"><member name="n" type="u32"/><member name="x" type="u16"><dimension size="3"/></member>' \
               '<member name="y" type="u8"/><member name="v" type="u8"><dimension isVariableSize="true" size="4"/></member></struct></xml>' % helper_xml
        rules = [
            ('M static v 2\n', 'u32 n; u16 x[3]; u8 y; u32 v_len; u8 v[2];', True),
            ('M limited x n\n', 'u32 n; u16 x<3#n>; u8 y; u32 v_len; u8 v<4#v_len>;', True),
            ('M dynamic x n\n', 'u32 n; u16 x<@n>; u8 y; u32 v_len; u8 v<4#v_len>;', True),
            ('M type y u64\n', 'u32 n; u16 x[3]; u64 y; u32 v_len; u8 v<4#v_len>;', True),
            ('M remove y\n', 'u32 n; u16 x[3]; u32 v_len; u8 v<4#v_len>;', True),
            # the FIRST member is a member like any other (index 0)
            ('M remove n\n', 'u16 x[3]; u8 y; u32 v_len; u8 v<4#v_len>;', True),
            ('M type n u16\n', 'u16 n; u16 x[3]; u8 y; u32 v_len; u8 v<4#v_len>;', True),
            ('M rename n nn\n', 'u32 nn; u16 x[3]; u8 y; u32 v_len; u8 v<4#v_len>;', True),
            ('M insert 0 z u8\n', 'u8 z; u32 n; u16 x[3]; u8 y; u32 v_len; u8 v<4#v_len>;', True),
            ('M insert 1 z F16\n','u32 n; F16 z; u16 x[3]; u8 y; u32 v_len; u8 v<4#v_len>;', True),
            ('M insert 999 z u8\n', 'u32 n; u16 x[3]; u8 y; u32 v_len; u8 v<4#v_len>; u8 z;', True),
            ('M rename y yy\n', 'u32 n; u16 x[3]; u8 yy; u32 v_len; u8 v<4#v_len>;', True),
            ('Absent static v 2\nM type y u16\n', 'u32 n; u16 x[3]; u16 y; u32 v_len; u8 v<4#v_len>;', True),
            # a node rename: the rules filed under the NEW name name no node of the input and are ignored
            ('M rename Item\nM type y u16\nItem type y u64\nItem insert 0 stamp u64\n', 'u32 n; u16 x[3]; u16 y; u32 v_len; u8 v<4#v_len>;', True, 'Item'),
            ('M limited y n\n', None, False), ('M limited x nosuch\n', None, False), ('M static nosuch 2\n', None, False),
            ('M dynamic x nosuch\n', None, False), ('M greedy x\n', None, False), ('M frobnicate x\n', None, False), ('M type y\n', None, False),
        ]
        for rule in rules:
            text, want_text, ok = rule[:3]
            node_name = rule[3] if len(rule) > 3 else 'M'
            n += 1
            src = sc.write('p%d.xml' % n, base)
            pfile = sc.write('p%d.patch' % n, text)
            out = sc.path('po%d' % n)
            os.makedirs(out)
            try:
                nodes, err, _ = lib.run_prophyc(['--isar', src, '--patch', pfile, '--python_out', out, '--quiet'])
            except Exception as ex:
                nodes, err = None, 'exception %s' % type(ex).__name__
            cases += 1
            if ok and err:
                fail('patch-rejected', text, 'documented rule failed: %s' % str(err)[:200])
            elif not ok and not err:
                fail('patch-accepted', text, 'a rule that cannot be applied was accepted')
            elif ok:
                found = [x for x in nodes['p%d' % n] if x.name == node_name]
                if not found:
                    fail('patch-effect', text, 'after the rules there is no node named %s' % node_name)
                    continue
                node = found[0]
                want = spec_from_members(want_text, types)
                try:
                    got = Ad.from_model(node)
                except Exception as ex:
                    fail('patch-model', text, 'after the rule the model denotes no schema: %r' % ex)
                    continue
                if not Ad.same_schema(got, want):
                    fail('patch-effect', text, 'after the rule the model denotes %r, documented %r' % (got, want))
    return {'cases': cases, 'distinct': cases, 'failures': failures, 'domain': DOMAIN, 'bound': '%d forms x %d element types + %d patch scripts' % (len(FORMS), len(elem_types), len(rules))}


def replay(prop, w):
    r = run(prop, 0, 'quick')
    for f in r['failures']:
        print(f['key'], f['what'])
    return not r['failures']
