"""
Bounded stand-in for C15 (and the hang/diagnostic part of C13): random acyclic definition sets rendered as isar XML in
random element orders through the real prophyc --isar: every definition exactly once and after everything it uses,
the generated Python module imports, layouts identical across permutations.  Cyclic sets must end in a diagnostic.
"""
import os
import re
import signal

from specs import family as F
from . import lib

DOMAIN = 'random acyclic sets of 6..10 definitions (constants, enums, typedefs, structs, unions using each other) x 4 input orders'

PRIM = {'u8': '8 bit integer unsigned', 'u16': '16 bit integer unsigned', 'u32': '32 bit integer unsigned', 'u64': '64 bit integer unsigned'}


def gen_defs(rng, n):
    """list of (kind, name, xml, uses) in a valid dependency order"""
    defs, consts, enumerators, types = [], [], [], []
    for i in range(n):
        kind = rng.choice(['constant', 'constant', 'enum', 'typedef', 'struct', 'struct', 'union'])
        if kind == 'constant':
            name = rng.choice(['K%d', 'LIMIT%d', 'C_%d']) % i
            uses = []
            if (consts or enumerators) and rng.random() < 0.6:
                ref = rng.choice(consts + enumerators)
                uses.append(ref)
                value = rng.choice(['%s', '%s + 1', '%s*2', 'shiftLeft(%s, 1)', '(%s)|1']) % ref
            else:
                value = str(rng.randint(1, 9))
            defs.append((kind, name, '<constant name="%s" value="%s"/>' % (name, value), uses))
            consts.append(name)
        elif kind == 'enum':
            name = 'E%d' % i
            members, uses = [], []
            for j in range(rng.randint(1, 3)):
                if consts and rng.random() < 0.4:
                    ref = rng.choice(consts)
                    uses.append(ref)
                    val = '%s + %d' % (ref, 100 + 10 * i + j)
                else:
                    val = str(1 + 10 * i + j)
                members.append('<enum-member name="%s_V%d" value="%s"/>' % (name, j, val))
            defs.append((kind, name, '<enum name="%s">%s</enum>' % (name, ''.join(members)), uses))
            enumerators += ['%s_V%d' % (name, j) for j in range(len(members))]
            types.append(name)
        elif kind == 'typedef':
            name = 'T%d' % i
            if types and rng.random() < 0.6:
                ref = rng.choice(types)
                defs.append((kind, name, '<typedef name="%s" type="%s"/>' % (name, ref), [ref]))
            else:
                defs.append((kind, name, '<typedef name="%s" primitiveType="%s"/>' % (name, PRIM[rng.choice(sorted(PRIM))]), []))
            types.append(name)
        elif kind == 'struct':
            name = rng.choice(['S%d', 'Header%d']) % i
            members, uses, first_uses = [], [], None
            for j in range(rng.randint(1, 3)):
                t = rng.choice(types + sorted(PRIM)) if types else rng.choice(sorted(PRIM))
                mname = rng.choice(['m%d' % j, t if (t in types and rng.random() < 0.3) else 'f%d' % j])
                if t in types:
                    uses.append(t)
                dim = ''
                if consts and rng.random() < 0.4:
                    ref = rng.choice(consts)
                    uses.append(ref)
                    dim = '<dimension size="%s"/>' % ref
                members.append('<member name="%s" type="%s">%s</member>' % (mname, t, dim))
                if first_uses is None:
                    first_uses = list(uses)
            if len(set(re.findall(r'member name="(\w+)"', ''.join(members)))) != len(members):
                # duplicate member names: keep the first member only -- and only what *it* uses
                members, uses = members[:1], first_uses
            defs.append((kind, name, '<struct name="%s">%s</struct>' % (name, ''.join(members)), uses))
            types.append(name)
        else:
            name = 'U%d' % i
            members, uses = [], []
            for j in range(rng.randint(1, 3)):
                t = rng.choice(types + sorted(PRIM)) if types else rng.choice(sorted(PRIM))
                if t in types:
                    uses.append(t)
                if consts and rng.random() < 0.4 and j == 0:
                    ref = rng.choice(consts)
                    uses.append(ref)
                    disc = ref
                else:
                    disc = str(50 + j)
                members.append('<member name="a%d" type="%s" discriminatorValue="%s"/>' % (j, t, disc))
            defs.append((kind, name, '<union name="%s">%s</union>' % (name, ''.join(members)), uses))
            types.append(name)
    return defs


class Timeout(Exception):
    pass


def _alarm(*a):
    raise Timeout()


def compile_isar(sc, tag, xml):
    import prophyc
    src = sc.write('%s.xml' % tag, '<xml>\n%s\n</xml>\n' % xml)
    out = sc.path('o_' + tag)
    os.makedirs(out)
    signal.signal(signal.SIGALRM, _alarm)
    signal.setitimer(signal.ITIMER_REAL, 10.0)
    try:
        nodes, err, _ = lib.run_prophyc(['--isar', src, '--python_out', out, '--quiet'])
    finally:
        signal.setitimer(signal.ITIMER_REAL, 0)
    return nodes, err, out


def run(prop, seed, tier):
    rng = F.rng_for(seed, 'isar_order')
    rounds = 25 if tier == 'quick' else 250
    failures, cases = [], 0

    def fail(key, xml, what):
        if len(failures) < 30:
            failures.append({'key': key, 'schema': xml, 'struct': '-', 'value': '-', 'what': what})

    with lib.Scratch() as sc:
        for r in range(rounds):
            defs = gen_defs(rng, rng.randint(6, 10))
            provider = {}
            for kind, name, xml, uses in defs:
                provider[name] = name
                for en in re.findall(r'enum-member name="(\w+)"', xml):
                    provider[en] = name
            layouts = None
            for perm in range(4):
                order = list(defs)
                if perm:
                    rng.shuffle(order)
                xml = '\n'.join(d[2] for d in order)
                tag = 'r%dp%d' % (r, perm)
                cases += 1
                try:
                    nodes, err, out = compile_isar(sc, tag, xml)
                except Timeout:
                    fail('hang', xml, 'prophyc did not terminate within 10 s on an acyclic definition set')
                    continue
                except Exception as ex:
                    fail('escape', xml, '%s escaped prophyc: %s' % (type(ex).__name__, str(ex)[:200]))
                    continue
                if err:
                    fail('rejected', xml, 'acyclic definitions rejected: %s' % err[:200])
                    continue
                nodes = nodes[tag]
                names = [n.name for n in nodes]
                if sorted(names) != sorted(d[1] for d in defs):
                    fail('completeness', xml, 'output definitions %r, input %r' % (names, [d[1] for d in defs]))
                    continue
                pos = {n: i for i, n in enumerate(names)}
                bad = [(d[1], u) for d in defs for u in d[3] if provider[u] != d[1] and pos[provider[u]] > pos[d[1]]]
                if bad:
                    fail('order', xml, 'emitted before what it uses: %r' % bad[:3])
                    continue
                try:
                    lib.import_generated(out, tag)
                except Exception as ex:
                    fail('import', xml, 'generated module does not import: %s: %s' % (type(ex).__name__, str(ex)[:200]))
                    continue
                lay = {n.name: (getattr(n, 'byte_size', None), getattr(n, 'alignment', None), getattr(n, 'kind', None),
                                tuple((m.name, getattr(m, 'byte_size', None), getattr(m, 'padding', None))
                                      for m in (n.members if hasattr(n, 'members') and not hasattr(n.members[0] if n.members else None, 'value') else [])
                                      if hasattr(m, 'byte_size')))
                       for n in nodes}
                if layouts is None:
                    layouts = lay
                elif lay != layouts:
                    diff = [k for k in lay if lay[k] != layouts[k]]
                    fail('layout', xml, 'layout depends on the input order: %r' % [(k, lay[k], layouts[k]) for k in diff[:2]])
        # cyclic definitions: a designed diagnostic, no hang
        for xml in ('<struct name="A"><member name="b" type="B"/></struct><struct name="B"><member name="a" type="A"/></struct>',
                    '<struct name="A"><member name="a" type="A"/></struct>',
                    '<typedef name="A" type="B"/><typedef name="B" type="A"/>',
                    '<constant name="A" value="B + 1"/><constant name="B" value="A + 1"/>'):
            cases += 1
            try:
                nodes, err, out = compile_isar(sc, 'cyc%d' % cases, xml)
            except Timeout:
                fail('cycle-hang', xml, 'prophyc did not terminate within 10 s on cyclic definitions')
                continue
            except Exception as ex:
                fail('cycle-escape', xml, '%s escaped prophyc: %s' % (type(ex).__name__, str(ex)[:200]))
                continue
    return {'cases': cases, 'distinct': cases, 'failures': failures, 'domain': DOMAIN, 'bound': '%d definition sets x 4 orders + 4 cyclic sets' % rounds}


def replay(prop, w):
    with lib.Scratch() as sc:
        try:
            nodes, err, out = compile_isar(sc, 'replay', w['schema'])
            print('error:', err)
            if not err:
                lib.import_generated(out, 'replay')
        except Exception as ex:
            print(type(ex).__name__, ex)
            return False
    return True
